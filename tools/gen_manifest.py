#!/venv/bin/python
"""Regenerate MANIFEST.json from the property modules that exist under qv/props."""
import importlib
import json
import os
import sys

HERE = os.path.dirname(os.path.dirname(os.path.abspath(__file__)))
sys.path.insert(0, HERE)

PROPS = [f"C{i:02d}" for i in range(1, 19)]
BASELINE = "cd /repo && /venv/bin/python -m pytest -ra -q -p no:cacheprovider --timeout=900 --continue-on-collection-errors"

LINTS = (
    "  In addition, contradiction rules are applied to every function of the modules the property is anchored in (and "
    "to new helpers called from them): LOOP-ONCE, ITER-MUTATE, QUBIT-TRUTHY, TRUTHY-OPTIONAL, DEFAULT-MUTATED, "
    "CLASS-MUTABLE, SUBS-SEQUENTIAL, COUNT-INDEX, NAME-BINDERS, STALE-PRECEDENCE - each exact, each expected to match "
    "nothing on a sound tree, each with a positive and a negative example re-evaluated on every run."
)
NA_REASONS = {}  # filled when a property is declined for good

checks, na = [], []
for pid in PROPS:
    try:
        mod = importlib.import_module(f"qv.props.{pid.lower()}")
    except ModuleNotFoundError:
        na.append({"property_id": pid, "reason": NA_REASONS.get(pid, "static check not built yet in this session (no claim is made)")})
        continue
    if getattr(mod, "NOT_APPLICABLE", None):
        na.append({"property_id": pid, "reason": mod.NOT_APPLICABLE})
        continue
    checks.append(
        {
            "property_id": pid,
            "quick_cmd": f"./check {pid} --tier quick",
            "thorough_cmd": f"./check {pid} --tier thorough",
            "evidence_file": f"/verif/evidence/{pid}.json",
            "replay_cmd_template": "./check explain {path}",
            "engine": "qv",
            "level_claimed": {
                "category": "other",
                "text": "Static analysis of the repository's syntax trees (no execution): decides the structural "
                "clauses of the property that are necessary conditions of the behaviour, on every construct of the "
                "current tree, not the behaviour itself. " + mod.EXPLANATION + LINTS,
                "design_ref": f"DESIGN.md section 4, {pid}",
            },
            "level_note": "Trusted: CPython ast as the grammar; fixed tables of Python operator semantics, sympy head "
            "arities, gate action; sympy and foreign frameworks. Not decided: " + getattr(mod, "NOT_DECIDED", ""),
            "technique": "static analysis: " + mod.TECHNIQUE + "; contradiction rules (lints) over every function of the anchored modules",
        }
    )

manifest = {
    "version": 1,
    "setup_cmd": "/venv/bin/python -c \"import ast,sys; assert sys.version_info[:2]>=(3,9)\" && chmod +x /verif/check",
    "hooks": {
        "guard": "QLASSKIT_VERIF",
        "enable": "no hooks are needed: the checks parse /repo's working tree and execute nothing from it",
        "baseline_off_cmd": BASELINE,
        "source_commits": [],
        "add_only": True,
    },
    "engines": [
        {
            "name": "qv",
            "path": "/verif/qv",
            "serves_properties": [c["property_id"] for c in checks],
            "kind_free_text": "repository-specific static analyser (pure stdlib ast): effects/aliasing, bit-order "
            "qualifiers, term-rewriting hygiene with per-rule translation validation over boolean atoms, "
            "dispatch/table agreement, path rules, typestate, sibling agreement",
        }
    ],
    "checks": checks,
    "not_applicable": na,
    "notes": "Exit codes of every check: 0 held / only listed known findings; 1 VIOLATION; 2 ANALYSIS-ERROR (vanished "
    "anchor, undecided idiom, internal error). known_findings.json lists recorded and fixed defects.",
}
with open(os.path.join(HERE, "MANIFEST.json"), "w") as fh:
    json.dump(manifest, fh, indent=1)
print(f"claimed {len(checks)}, not_applicable {len(na)}")
