#!/venv/bin/python
"""Rewrite the seeds table of DESIGN.md (between the SEEDS markers) from seeded/*/meta.json."""
import glob, json, os
rows = ["| seed | property | what it changes | needs | caught by |", "|---|---|---|---|---|"]
for d in sorted(glob.glob("/verif/seeded/C*")):
    m = json.load(open(os.path.join(d, "meta.json")))
    sid = os.path.basename(d)
    esc = lambda t: (t or "").replace("|", "\\|").replace("\n", " ")
    rows.append(f"| {sid} | {m['property']} | {esc(m.get('breaks'))[:260]} | {esc(m.get('needs'))[:200]} | {', '.join(m.get('detected_by', [])) or '**missed**'}: {esc(m.get('rule'))[:200]} |")
p = "/verif/DESIGN.md"
s = open(p).read()
a, b = s.index("<!-- SEEDS-BEGIN -->"), s.index("<!-- SEEDS-END -->")
s = s[: a + len("<!-- SEEDS-BEGIN -->")] + "\n" + "\n".join(rows) + "\n" + s[b:]
open(p, "w").write(s)
print(len(rows) - 2, "seeds")
