#!/venv/bin/python
"""Rewrite the seeds table of DESIGN.md (between the SEEDS markers) from seeded/*/meta.json."""
import glob, json, os
rows = ["| seed | property | what it changes | needs | caught by |", "|---|---|---|---|---|"]
for d in sorted(glob.glob("/verif/seeded/C*")):
    m = json.load(open(os.path.join(d, "meta.json")))
    sid = os.path.basename(d)
    esc = lambda t: (t or "").replace("|", "\\|").replace("\n", " ")
    rule = m.get("rule") or "; ".join(f"{k}: {', '.join(v)}" for k, v in (m.get("rules") or {}).items())
    det = ", ".join(m.get("detected_by", []))
    und = ", ".join(m.get("undecided_in", []))
    verdict = det or ("**undecided** (exit 2)" if und else "**missed**")
    if det and und:
        verdict += f" (undecided in {und})"
    elif und and not det:
        verdict += f" in {und}"
    rows.append(f"| {sid} | {m['property']} | {esc(m.get('breaks'))[:260]} | {esc(m.get('needs'))[:200]} | {verdict}: {esc(rule)[:200]} |")
p = "/verif/DESIGN.md"
s = open(p).read()
a, b = s.index("<!-- SEEDS-BEGIN -->"), s.index("<!-- SEEDS-END -->")
s = s[: a + len("<!-- SEEDS-BEGIN -->")] + "\n" + "\n".join(rows) + "\n" + s[b:]
open(p, "w").write(s)
print(len(rows) - 2, "seeds")
