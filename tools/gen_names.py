#!/venv/bin/python
"""Freeze, for every top-level function / method of the analysed tree, the list of its local variable names in
order of first binding.  qv.core uses the table to undo pure renamings of locals before the rules run (so that a
consistent rename is not an alarm); it is the 'instances confirmed on today's tree' reference, regenerated only by
hand when the tables in qv/props are re-confirmed."""
import json, os, sys
HERE = os.path.dirname(os.path.dirname(os.path.abspath(__file__)))
sys.path.insert(0, HERE)
os.environ.setdefault("QV_NO_NAME_NORMALISATION", "1")
from qv.core import Repo, local_names_in_order, alpha_shape

repo = Repo()
out = {}
for q, fi in sorted(repo.functions.items()):
    if fi.parent is not None:
        continue
    names = local_names_in_order(fi.node)
    if names:
        out[q] = names
with open(os.path.join(HERE, "qv", "names.json"), "w") as fh:
    json.dump(out, fh, indent=0, sort_keys=True)
shapes = {q: alpha_shape(fi.node) for q, fi in sorted(repo.functions.items()) if fi.parent is None}
with open(os.path.join(HERE, "qv", "shapes.json"), "w") as fh:
    json.dump(shapes, fh, indent=0, sort_keys=True)
with open(os.path.join(HERE, "qv", "functions.json"), "w") as fh:
    json.dump(sorted(repo.functions), fh, indent=0)
print(len(out), "functions with locals;", len(repo.functions), "functions in the inventory")
