#!/bin/sh
# usage: tools/triage_seed.sh <ID> [benign]   (sub-agent output in /tmp/seed/<ID>/out: patch.diff demo.py meta.json)
# Confirms a seeded change on a fresh scratch worktree of /repo HEAD (never /repo itself):
#   breaking: demo passes without the patch, fails with it, the suite still gives 408 passed
#   benign  : demo output byte-identical before and after, the suite still gives 408 passed
# Writes /tmp/triage/<ID>.result ; removes the worktree.
ID="$1"; KIND="${2:-breaking}"
SRC=/tmp/seed/$ID/out
[ -n "$3" ] && SRC="$3"
PATCH=${PATCHFILE:-$SRC/patch.diff}
DEMO=${DEMOFILE:-$SRC/demo.py}
mkdir -p /tmp/triage
R=/tmp/triage/$ID.result
WT=/tmp/triage_wt_$ID
git -C /repo worktree remove --force "$WT" 2>/dev/null
rm -rf "$WT"
git -C /repo worktree add --detach -q "$WT" HEAD || exit 3
{
echo "== $ID ($KIND; /repo HEAD $(git -C /repo rev-parse --short HEAD))"
cd "$WT"
echo "-- demo without patch:"
PYTHONDONTWRITEBYTECODE=1 timeout 600 /venv/bin/python "$DEMO" > /tmp/triage/$ID.before 2>&1; echo "rc=$?"
tail -3 /tmp/triage/$ID.before
if git apply --check "$PATCH" 2>/dev/null; then git apply "$PATCH"; echo "-- patch applies cleanly"; else echo "-- PATCH DOES NOT APPLY"; fi
echo "-- demo with patch:"
PYTHONDONTWRITEBYTECODE=1 timeout 600 /venv/bin/python "$DEMO" > /tmp/triage/$ID.after 2>&1; echo "rc=$?"
tail -4 /tmp/triage/$ID.after
if cmp -s /tmp/triage/$ID.before /tmp/triage/$ID.after; then echo "-- demo output identical"; else echo "-- demo output differs"; fi
echo "-- suite with patch:"
PYTHONDONTWRITEBYTECODE=1 timeout 1500 /venv/bin/python -m pytest -q -p no:cacheprovider --timeout=900 --continue-on-collection-errors 2>&1 | tail -1
} > "$R" 2>&1
cd /
git -C /repo worktree remove --force "$WT"
rm -rf "$WT"
cat "$R"
