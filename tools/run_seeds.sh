#!/bin/sh
# for every kept seed: apply to a scratch copy of /repo HEAD, run the checks that should flag it, report;
# seeds whose meta lists `undecided_in` must end those checks with exit 2 (ANALYSIS-ERROR) and no VIOLATION line
cd /verif
for d in seeded/C*; do
  id=$(basename $d)
  props=$(/venv/bin/python -c "import json;print(' '.join(json.load(open('$d/meta.json'))['detected_by']))" 2>/dev/null | tail -1)
  und=$(/venv/bin/python -c "import json;print(' '.join(json.load(open('$d/meta.json')).get('undecided_in', [])))" 2>/dev/null | tail -1)
  for p in $props; do
    n=$(tools/try_patch.sh /verif/$d/patch.diff $p | grep -c VIOLATION)
    echo "$id $p violations=$n"
  done
  for p in $und; do
    o=$(tools/try_patch.sh /verif/$d/patch.diff $p)
    echo "$id $p undecided=$(echo "$o" | grep -c ANALYSIS-ERROR) violations=$(echo "$o" | grep -c VIOLATION)"
  done
done
