#!/bin/sh
# like try_patch.sh but on the pristine base commit (d5d1997) instead of /repo's working tree
P="$1"; shift
D=$(mktemp -d /tmp/qv_scratch.XXXXXX)
trap 'rm -rf "$D"' EXIT
git -C /repo archive d5d1997 qlasskit | tar -x -C "$D"
( cd "$D" && patch -p1 -s --no-backup-if-mismatch < "$P" ) || { echo "PATCH-FAILED $P"; exit 3; }
cd /verif
for id in "$@"; do
  QV_REPO="$D" ./check "$id" --no-evidence 2>&1 | grep -E "VIOLATION|ANALYSIS-ERROR|^\[|rule " | cut -c1-330
done
