#!/venv/bin/python
"""usage: tools/store_seed.py <ID> [<ID> ...]   (round-b seeds: /tmp/seed/<ID>/out, triage result /tmp/triage/<ID>.result)
Copies patch/demo into /verif/seeded/<ID>/ and writes meta.json with what was confirmed on the scratch worktree and
which checks report it today (computed here, on a scratch copy of /repo with the patch applied)."""
import json, os, re, shutil, subprocess, sys, tempfile

PROPS = [f"C{i:02d}" for i in range(1, 19)]


def detect(patch):
    d = tempfile.mkdtemp(prefix="qv_scratch.")
    try:
        shutil.copytree("/repo/qlasskit", os.path.join(d, "qlasskit"))
        r = subprocess.run(["patch", "-p1", "-s", "--no-backup-if-mismatch", "-i", patch], cwd=d, capture_output=True, text=True)
        if r.returncode != 0:
            return None, None, "PATCH-FAILED " + r.stdout[-200:]
        viol, und, rules = [], [], {}
        for p in PROPS:
            env = dict(os.environ, QV_REPO=d)
            r = subprocess.run(["./check", p, "--no-evidence"], cwd="/verif", env=env, capture_output=True, text=True)
            out = r.stdout + r.stderr
            if r.returncode == 1 and "VIOLATION" in out:
                viol.append(p)
                rules[p] = sorted(set(re.findall(r": rule (\S+) \[", out)) - set(re.findall(r"KNOWN-FINDING: property=\S+ (\S+)", out)))
            elif r.returncode == 2:
                und.append(p)
        return viol, und, rules
    finally:
        shutil.rmtree(d, ignore_errors=True)


for sid in sys.argv[1:]:
    src = f"/tmp/seed/{sid}/out"
    res = open(f"/tmp/triage/{sid}.result").read()
    m0 = json.load(open(f"{src}/meta.json"))
    head = re.search(r"HEAD (\w+)\)", res).group(1)
    lines = res.splitlines()
    def after(tag, n=4):
        for i, l in enumerate(lines):
            if l.startswith(tag):
                return lines[i + 1 : i + 1 + n]
        return []
    unp = after("-- demo without patch:")
    pat_ = after("-- demo with patch:")
    suite = [l for l in lines if " passed" in l][-1:] or ["?"]
    applies = "-- patch applies cleanly" in res
    ok_unp = any(l.strip() == "rc=0" for l in unp) and any("PASS" in l for l in unp)
    ok_pat = any(l.strip() == "rc=1" for l in pat_)
    if not (applies and ok_unp and ok_pat and "408 passed" in suite[0]):
        print(sid, "NOT CONFIRMED", applies, ok_unp, ok_pat, suite)
        continue
    dst = f"/verif/seeded/{sid}"
    os.makedirs(dst, exist_ok=True)
    shutil.copy(f"{src}/patch.diff", f"{dst}/patch.diff")
    shutil.copy(f"{src}/demo.py", f"{dst}/demo.py")
    viol, und, rules = ([], [], {}) if os.environ.get("QV_NO_DETECT") else detect(f"{dst}/patch.diff")
    meta = {
        "property": m0.get("property", sid[:3]),
        "breaks": m0.get("summary") or m0.get("breaks") or m0.get("description", ""),
        "needs": m0.get("needs") or m0.get("trigger", ""),
        "files": m0.get("files", []),
        "origin": "independent sub-agent given only the property record and a scratch worktree (round " + sid[-1] + ")",
        "applies_to": f"/repo HEAD {head} (git -C /repo apply /verif/seeded/{sid}/patch.diff)",
        "confirmed": {
            "demo_on_unpatched_HEAD": "PASS (exit 0)",
            "demo_on_patched_HEAD": "FAIL (exit 1): " + " / ".join(x.strip() for x in pat_[1:3])[:300],
            "suite_on_patched_HEAD": suite[0].strip(),
            "how": "scratch worktree of /repo HEAD under /tmp: ran demo.py, applied patch.diff, ran demo.py and the full pytest suite, removed the worktree",
        },
        "detected_by": viol,
        "undecided_in": und,
        "rules": rules,
    }
    if os.path.exists(f"{src}/patch_orig.diff"):
        meta["note"] = "the sub-agent's patch was rebased by hand onto the fix commits that touched the same function (same change)"
    json.dump(meta, open(f"{dst}/meta.json", "w"), indent=1)
    print(sid, "stored; detected_by", viol, "undecided_in", und, rules)
