#!/venv/bin/python
"""usage: tools/seed_matrix.py [--update-meta] [--props C01,C02] [--out FILE] <patch-or-seed-dir> ...
Runs every given patch (a .diff file, or a directory holding patch.diff) through the checks on a scratch copy of
/repo's working tree (never /repo itself), 16 jobs in parallel, and prints one line per patch:
    <name> V=<props with VIOLATION> U=<props undecided (exit 2)> [rules]
With --update-meta the detected_by / undecided_in / rules fields of <dir>/meta.json are rewritten from the result."""
import concurrent.futures as cf
import json, os, re, shutil, subprocess, sys, tempfile

ALL = [f"C{i:02d}" for i in range(1, 19)]


def run_one(job):
    name, patch, props = job
    d = tempfile.mkdtemp(prefix="qv_scratch.")
    try:
        shutil.copytree("/repo/qlasskit", os.path.join(d, "qlasskit"))
        r = subprocess.run(["patch", "-p1", "-s", "--no-backup-if-mismatch", "-i", patch], cwd=d, capture_output=True, text=True)
        if r.returncode != 0:
            return name, None, None, {}, {"_": "PATCH-FAILED " + (r.stdout + r.stderr)[-200:]}
        viol, und, rules, notes = [], [], {}, {}
        for p in props:
            env = dict(os.environ, QV_REPO=d)
            r = subprocess.run(["./check", p, "--no-evidence"], cwd="/verif", env=env, capture_output=True, text=True)
            out = r.stdout + r.stderr
            if r.returncode == 1 and "VIOLATION" in out:
                viol.append(p)
                rules[p] = sorted(set(re.findall(r": rule (\S+) \[", out)) - set(re.findall(r"KNOWN-FINDING: property=\S+ (\S+)", out)))
                notes[p] = [l[:300] for l in out.splitlines() if ": rule " in l and "KNOWN" not in l][:6]
            elif r.returncode == 2:
                und.append(p)
                notes[p] = [l[:300] for l in out.splitlines() if "ANALYSIS-ERROR" in l][:4]
            elif r.returncode != 0:
                notes[p] = ["rc=%d %s" % (r.returncode, out[-200:])]
        return name, viol, und, rules, notes
    finally:
        shutil.rmtree(d, ignore_errors=True)


def main():
    args = sys.argv[1:]
    update = "--update-meta" in args
    args = [a for a in args if a != "--update-meta"]
    props, out = ALL, None
    if "--props" in args:
        i = args.index("--props"); props = args[i + 1].split(","); del args[i : i + 2]
    if "--out" in args:
        i = args.index("--out"); out = args[i + 1]; del args[i : i + 2]
    jobs = []
    for a in args:
        a = os.path.abspath(a.rstrip("/"))
        if os.path.isdir(a):
            jobs.append((os.path.basename(a), os.path.join(a, "patch.diff"), props))
        else:
            jobs.append((os.path.basename(os.path.dirname(a)) + "/" + os.path.basename(a), a, props))
    res = {}
    with cf.ProcessPoolExecutor(max_workers=int(os.environ.get("QV_JOBS", "16"))) as ex:
        for name, viol, und, rules, notes in ex.map(run_one, jobs):
            res[name] = {"violations": viol, "undecided": und, "rules": rules, "notes": notes}
            print(name, "V=" + ",".join(viol or []), "U=" + ",".join(und or []), json.dumps(rules) if rules else "", notes.get("_", ""), flush=True)
    if out:
        json.dump(res, open(out, "w"), indent=1)
    if update:
        for a in args:
            a = os.path.abspath(a.rstrip("/"))
            mp = os.path.join(a, "meta.json")
            r = res.get(os.path.basename(a))
            if os.path.isdir(a) and os.path.exists(mp) and r and r["violations"] is not None:
                m = json.load(open(mp))
                m["detected_by"], m["undecided_in"], m["rules"] = r["violations"], r["undecided"], r["rules"]
                m.pop("rule", None)
                json.dump(m, open(mp, "w"), indent=1)


if __name__ == "__main__":
    main()
