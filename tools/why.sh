#!/bin/sh
# usage: tools/why.sh <patch.diff> <ID> : apply to a scratch copy, show normalisation log + findings
P="$1"; shift
D=$(mktemp -d /tmp/qv_scratch.XXXXXX)
trap 'rm -rf "$D"' EXIT
cp -r /repo/qlasskit "$D/qlasskit"
( cd "$D" && patch -p1 -s --no-backup-if-mismatch < "$P" ) || { echo "PATCH-FAILED $P"; exit 3; }
cd /verif
for id in "$@"; do
  QV_DEBUG_NORM=1 QV_REPO="$D" ./check "$id" --no-evidence 2>&1 | grep -E "NORMALIZED|VIOLATION|ANALYSIS-|^\[|rule " | grep -v KNOWN | cut -c1-420
done
