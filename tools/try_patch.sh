#!/bin/sh
# usage: tools/try_patch.sh <patch.diff> <ID> [<ID> ...]
# applies the patch to a scratch copy of /repo's working tree (never to /repo), runs the checks, removes the copy
P="$1"; shift
D=$(mktemp -d /tmp/qv_scratch.XXXXXX)
trap 'rm -rf "$D"' EXIT
cp -r /repo/qlasskit "$D/qlasskit"
( cd "$D" && patch -p1 -s --no-backup-if-mismatch < "$P" ) || { echo "PATCH-FAILED $P"; exit 3; }
cd /verif
rc=0
for id in "$@"; do
  QV_REPO="$D" ./check "$id" --no-evidence 2>&1 | grep -E "VIOLATION|ANALYSIS-ERROR|^\[|rule " | cut -c1-260
done
