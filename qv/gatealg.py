"""SB-INVOLUTION - a peephole that cancels two equal adjacent gates may only admit gates that are their own inverse.

Where a function drops a gate pair (pops the previous entry of its result list, or skips two/three entries of the
list it scans) under a guard that admits gates by class - isinstance(g, T), type(g) in T - every class admitted, and
every subclass of it (isinstance admits them too), must square to the identity.  Which gate classes do is a fact of
linear algebra, not of this repository's text: the table below names them; a parametrised or generic controlled
gate (P, CP, MCtrl, the QControlledGate base) does not.  Nothing is executed.
"""
from __future__ import annotations

import ast
from typing import List, Optional

from . import q
from .core import AnchorError, Ctx, FuncInfo, dotted, guard_facts, norm

GATES = "qcircuit.gates"
# U*U = I.  Barrier/NopGate act as the identity: dropping one changes nothing.
INVOLUTORY = {"I", "X", "Y", "Z", "H", "Swap", "CX", "CZ", "CCX", "MCX", "Barrier", "NopGate"}


def _class_names(repo, fi: FuncInfo, e) -> Optional[List[str]]:
    """gate class names denoted by the second argument of isinstance / the right side of `in`"""
    if isinstance(e, (ast.Tuple, ast.List, ast.Set)):
        out = []
        for x in e.elts:
            r = _class_names(repo, fi, x)
            if r is None:
                return None
            out += r
        return out
    if isinstance(e, ast.Attribute) and isinstance(e.value, ast.Name) and e.value.id == "gates":
        return [e.attr]
    if isinstance(e, ast.Name):
        m = fi.module
        v = m.globals_assigned.get(e.id) if m is not None else None
        if v is not None:
            return _class_names(repo, fi, v)
        try:
            repo.cls(f"{GATES}.{e.id}")
            return [e.id]
        except AnchorError:
            return None
    return None


def _admits(repo, name: str) -> List[str]:
    """the class and every subclass of it that is not involutory"""
    try:
        c = repo.cls(f"{GATES}.{name}")
    except AnchorError:
        return [name + " (unknown gate class)"]
    bad = []
    for k in [c] + repo.subclasses(c):
        if k.name not in INVOLUTORY:
            bad.append(k.name)
    return bad


def check_involution(ctx: Ctx, prefixes):
    repo = ctx.repo
    try:
        repo.cls(f"{GATES}.QControlledGate")
    except AnchorError:
        raise AnchorError(GATES, "gate class hierarchy not found")
    scanned = sites = 0
    for fi in repo.functions.values():
        if fi.module is None or not any(fi.short.startswith(p) for p in prefixes):
            continue
        scanned += 1
        drops = []
        for n in ast.walk(fi.node):
            if isinstance(n, ast.Expr) and isinstance(n.value, ast.Call) and isinstance(n.value.func, ast.Attribute) and n.value.func.attr == "pop" and not n.value.args:
                drops.append(n)
            elif isinstance(n, ast.AugAssign) and isinstance(n.op, ast.Add) and isinstance(n.value, ast.Constant) and n.value.value in (2, 3) and isinstance(n.target, ast.Name):
                drops.append(n)
        for d in drops:
            for fact, pol in guard_facts(fi, d):
                if not pol:
                    continue
                for t in ast.walk(fact):
                    tbl = None
                    if isinstance(t, ast.Call) and isinstance(t.func, ast.Name) and t.func.id in ("isinstance", "issubclass") and len(t.args) == 2:
                        tbl = t.args[1]
                    elif isinstance(t, ast.Compare) and len(t.ops) == 1 and isinstance(t.ops[0], ast.In) and ("__class__" in norm(t.left) or norm(t.left).startswith("type(")):
                        tbl = t.comparators[0]
                    if tbl is None:
                        continue
                    names = _class_names(repo, fi, tbl)
                    if names is None:
                        continue
                    sites += 1
                    role = "gates admitted to pair cancellation are their own inverse"
                    bad = {}
                    for nm in names:
                        b = _admits(repo, nm)
                        if b:
                            bad[nm] = b
                    if bad:
                        what = "; ".join(f"{k} admits {', '.join(v)}" for k, v in sorted(bad.items()))
                        ctx.fail("SB-INVOLUTION", fi, role, f"`{norm(d)}` drops a gate pair under `{norm(t)[:70]}`: {what} - gates that do not square to the identity (a phase, a rotation, a generic controlled gate), so two of them in a row are removed although together they are not the identity", d)
                    else:
                        ctx.ok("SB-INVOLUTION", fi, role, f"{sorted(names)} under `{norm(d)}`", d)
    # pairs cancelled on plain equality of two entries of a gate list: `==` on (gate object, wires, parameter) tuples
    # compares the gate objects by identity as long as no gate class defines __eq__; with a value-based __eq__ two
    # distinct but equal S / T / P / CP gates in a row become "the same gate twice" and are dropped
    eq_definers = []
    try:
        gm = repo.module(GATES)
        for cn, ci in gm.classes.items():
            if "__eq__" in ci.methods:
                eq_definers.append(ci)
    except AnchorError:
        gm = None
    for fi in repo.functions.values():
        if fi.module is None or not any(fi.short.startswith(p) for p in prefixes):
            continue
        for n in ast.walk(fi.node):
            if not (isinstance(n, ast.AugAssign) and isinstance(n.op, ast.Add) and isinstance(n.value, ast.Constant) and n.value.value in (2, 3) and isinstance(n.target, ast.Name)):
                continue
            for fact, pol in guard_facts(fi, n):
                if not pol:
                    continue
                for t in ast.walk(fact):
                    if isinstance(t, ast.Compare) and len(t.ops) == 1 and isinstance(t.ops[0], ast.Eq) and isinstance(t.left, ast.Subscript) and isinstance(t.comparators[0], ast.Subscript) and norm(t.left.value) == norm(t.comparators[0].value) and norm(t.left.value).endswith("gates"):
                        sites += 1
                        role = "entries cancelled on `==` are the same gate object, or of a class that is its own inverse"
                        bad = []
                        for ci in eq_definers:
                            for k in [ci] + repo.subclasses(ci):
                                if k.name not in INVOLUTORY and k.name not in bad:
                                    bad.append(k.name)
                        if bad:
                            d = eq_definers[0]
                            ctx.fail("SB-INVOLUTION", fi, role, f"`{norm(t)[:60]}` decides that two entries cancel, and {d.qualname}.__eq__ (line {d.methods['__eq__'].node.lineno}) makes gate objects compare by value: two separate {', '.join(sorted(bad)[:6])} gates on the same wires compare equal and are removed although applying such a gate twice is not the identity", n)
                        else:
                            ctx.ok("SB-INVOLUTION", fi, role, f"`{norm(t)[:60]}`: no gate class defines __eq__, entries are equal only when they hold the same gate object", n)
    # commutation decided from "the last wire is the target": true for X-type controlled gates and single-qubit
    # gates, false for Swap, which writes BOTH its wires - a gate whose control a Swap moves does not commute with it
    for fi in repo.functions.values():
        if fi.module is None or not any(fi.short.startswith(p) for p in prefixes):
            continue
        for b in ast.walk(fi.node):
            if not (isinstance(b, ast.BoolOp) and isinstance(b.op, ast.And)):
                continue
            pairs = []
            for v in b.values:
                if isinstance(v, ast.Compare) and len(v.ops) == 1 and isinstance(v.ops[0], ast.NotIn) and isinstance(v.left, ast.Subscript) and isinstance(v.left.value, ast.Name) and q.is_last_index(v.left) and isinstance(v.comparators[0], ast.Name):
                    pairs.append((v.left.value.id, v.comparators[0].id))
            if any((y, x) in pairs for x, y in pairs if x != y):
                sites += 1
                role = "gates are exchanged only when neither writes a wire the other uses"
                swap_aware = any(isinstance(x, ast.Attribute) and x.attr == "Swap" for x in ast.walk(fi.node)) or "n_qubits" in norm(fi.node)
                ctx.check(swap_aware, "SB-INVOLUTION", fi, role, "", f"`{norm(b)[:80]}` takes the LAST wire of each gate as the only qubit it writes: a Swap writes both its wires, so a gate controlled by a qubit that a Swap moves is treated as commuting with that Swap (CX(0,2); SWAP(0,1); CX(0,2) would cancel the two CX)", b)
    ctx.ok("SB-INVOLUTION", None, "pair-cancelling peepholes scanned", f"{scanned} functions under {'/'.join(prefixes)}, {sites} class-guarded drops", construct="/".join(prefixes))
