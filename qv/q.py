"""Small query helpers over function bodies."""
from __future__ import annotations

import ast
from typing import Callable, Iterator, List, Optional, Sequence, Tuple

from .core import AnchorError, FuncInfo, dotted, norm, walk_no_nested


def returns(fi: FuncInfo) -> List[ast.Return]:
    return [n for n in walk_no_nested(fi.node) if isinstance(n, ast.Return)]


def calls(root, nested=True) -> Iterator[ast.Call]:
    it = ast.walk(root) if nested else walk_no_nested(root)
    for n in it:
        if isinstance(n, ast.Call):
            yield n


def method_calls(root, attr: str, nested=True) -> List[ast.Call]:
    """calls `<anything>.attr(...)`"""
    return [c for c in calls(root, nested) if isinstance(c.func, ast.Attribute) and c.func.attr == attr]


def name_calls(root, name: str, nested=True) -> List[ast.Call]:
    """calls `name(...)` or `<x>.name(...)`"""
    out = []
    for c in calls(root, nested):
        if isinstance(c.func, ast.Name) and c.func.id == name:
            out.append(c)
        elif isinstance(c.func, ast.Attribute) and c.func.attr == name:
            out.append(c)
    return out


def arg(call: ast.Call, idx: int, kw: Optional[str] = None) -> Optional[ast.expr]:
    if kw:
        for k in call.keywords:
            if k.arg == kw:
                return k.value
    pos = [a for a in call.args]
    if idx is not None and idx < len(pos) and not any(isinstance(a, ast.Starred) for a in pos[: idx + 1]):
        return pos[idx]
    return None


def for_loops(root, nested=False) -> List[ast.For]:
    it = ast.walk(root) if nested else walk_no_nested(root)
    return [n for n in it if isinstance(n, ast.For)]


def strip_wrappers(e, names=("list", "tuple", "reversed_NOT")):
    """look through list(x)/tuple(x)"""
    while isinstance(e, ast.Call) and isinstance(e.func, ast.Name) and e.func.id in names and len(e.args) == 1:
        e = e.args[0]
    return e


def is_reversed(e) -> Optional[ast.expr]:
    """if e is reversed(x) / x[::-1] / list(reversed(x)) return x else None"""
    e = strip_wrappers(e)
    if isinstance(e, ast.Call) and isinstance(e.func, ast.Name) and e.func.id == "reversed" and len(e.args) == 1:
        return e.args[0]
    if (
        isinstance(e, ast.Subscript)
        and isinstance(e.slice, ast.Slice)
        and e.slice.lower is None
        and e.slice.upper is None
        and e.slice.step is not None
        and isinstance(e.slice.step, ast.UnaryOp)
        and isinstance(e.slice.step.op, ast.USub)
        and isinstance(e.slice.step.operand, ast.Constant)
        and e.slice.step.operand.value == 1
    ):
        return e.value
    return None


def reversal_parity(e, binds=None, depth=0):
    """(core expression, number of reversals mod 2) looking through list()/reversed/[::-1] and
    single-assignment bindings"""
    par = 0
    while depth < 20:
        depth += 1
        r = is_reversed(e)
        if r is not None:
            par ^= 1
            e = r
            continue
        s = strip_wrappers(e)
        if s is not e:
            e = s
            continue
        if binds and isinstance(e, ast.Name) and e.id in binds:
            e = binds[e.id]
            continue
        break
    return e, par


def is_last_index(e, base_name: Optional[str] = None) -> bool:
    """e is <base>[-1]"""
    return (
        isinstance(e, ast.Subscript)
        and isinstance(e.slice, ast.UnaryOp)
        and isinstance(e.slice.op, ast.USub)
        and isinstance(e.slice.operand, ast.Constant)
        and e.slice.operand.value == 1
        and (base_name is None or (isinstance(e.value, ast.Name) and e.value.id == base_name))
    )


def is_all_but_last(e, base_name: Optional[str] = None) -> bool:
    """e is <base>[0:-1] or <base>[:-1]"""
    if not (isinstance(e, ast.Subscript) and isinstance(e.slice, ast.Slice)):
        return False
    s = e.slice
    lo_ok = s.lower is None or (isinstance(s.lower, ast.Constant) and s.lower.value == 0)
    up_ok = (
        isinstance(s.upper, ast.UnaryOp)
        and isinstance(s.upper.op, ast.USub)
        and isinstance(s.upper.operand, ast.Constant)
        and s.upper.operand.value == 1
    )
    return lo_ok and up_ok and s.step is None and (base_name is None or (isinstance(e.value, ast.Name) and e.value.id == base_name))


def contains(root, node) -> bool:
    return any(n is node for n in ast.walk(root))


def stmt_index(block: Sequence[ast.stmt], node) -> Optional[int]:
    for i, s in enumerate(block):
        if contains(s, node):
            return i
    return None


def names_in(e) -> set:
    return {n.id for n in ast.walk(e) if isinstance(n, ast.Name)}


def if_chain(stmt: ast.If):
    """[(test, body)], else_body for an if/elif/.../else chain"""
    out = []
    cur = stmt
    while True:
        out.append((cur.test, cur.body))
        if len(cur.orelse) == 1 and isinstance(cur.orelse[0], ast.If):
            cur = cur.orelse[0]
            continue
        return out, cur.orelse


def isinstance_heads(test, var: Optional[str] = None) -> List[str]:
    """class names K for every `isinstance(var, K)` / `isinstance(var, (K1, K2))` / issubclass(var.__class__, K)
    appearing positively anywhere in test (looking through and/or)"""
    out = []
    for n in ast.walk(test):
        if isinstance(n, ast.Call) and isinstance(n.func, ast.Name) and n.func.id in ("isinstance", "issubclass") and len(n.args) == 2:
            a0 = n.args[0]
            if var is not None:
                t = norm(a0)
                if t != var and t != f"{var}.__class__" and t != f"type({var})":
                    continue
            ks = n.args[1].elts if isinstance(n.args[1], ast.Tuple) else [n.args[1]]
            for k in ks:
                d = dotted(k)
                if d:
                    out.append(d.split(".")[-1])
    return out


def modulo_by_mask_sites(root):
    """`x % ((1 << n) - 1)` / `x % (2 ** n - 1)`: reducing to n bits needs the modulus 2**n (or `& mask`); the
    all-ones mask as a modulus maps the largest n-bit value to 0"""
    out = []
    for n in ast.walk(root):
        if isinstance(n, ast.BinOp) and isinstance(n.op, ast.Mod):
            r = n.right
            if isinstance(r, ast.BinOp) and isinstance(r.op, ast.Sub) and isinstance(r.right, ast.Constant) and r.right.value == 1:
                l = r.left
                if isinstance(l, ast.BinOp) and (
                    (isinstance(l.op, ast.LShift) and isinstance(l.left, ast.Constant) and l.left.value == 1)
                    or (isinstance(l.op, ast.Pow) and isinstance(l.left, ast.Constant) and l.left.value == 2)
                ):
                    out.append(n)
    return out


def fold_step(loop: ast.For):
    """a loop whose body is the single statement `acc = OP(acc, E)` / `acc = OP(E, acc)`: (acc, OP, E) else None"""
    body = [s for s in loop.body if not (isinstance(s, ast.Expr) and isinstance(s.value, ast.Constant))]
    if len(body) != 1 or not isinstance(body[0], ast.Assign) or len(body[0].targets) != 1 or not isinstance(body[0].targets[0], ast.Name):
        return None
    acc = body[0].targets[0].id
    v = body[0].value
    if not (isinstance(v, ast.Call) and isinstance(v.func, ast.Name) and len(v.args) == 2 and not v.keywords):
        return None
    a0, a1 = v.args
    if isinstance(a0, ast.Name) and a0.id == acc:
        return acc, v.func.id, a1
    if isinstance(a1, ast.Name) and a1.id == acc:
        return acc, v.func.id, a0
    return None


def loop_components(loop: ast.For):
    """the texts that denote the two zipped components inside the loop: `for a, b in zip(..)` -> (a, b);
    `for x in zip(..)` -> (x[0], x[1])"""
    t = loop.target
    if isinstance(t, ast.Tuple) and len(t.elts) == 2:
        return norm(t.elts[0]), norm(t.elts[1])
    if isinstance(t, ast.Name):
        return f"{t.id}[0]", f"{t.id}[1]"
    return None


def value_at(block: Sequence[ast.stmt], use_stmt: ast.stmt, expr, seeds=(), keep=()) -> Optional[ast.expr]:
    """The expression `expr` denotes at `use_stmt`, with every local that is (re-)assigned by a top-level statement
    of `block` before `use_stmt` replaced by its defining expression (sequentially, so `e = f(e)` composes).
    Statements nested in the block that contain use_stmt are looked through along the path to it.  Returns None
    when a name involved is assigned under a condition or in a loop on the way (no single reaching definition)."""
    import copy as _copy

    env = {}

    class Sub(ast.NodeTransformer):
        def visit_Name(self, n):
            if isinstance(n.ctx, ast.Load) and n.id in env:
                return _copy.deepcopy(env[n.id])
            return n

    def leaves(stmts_) -> bool:
        if not stmts_:
            return False
        l_ = stmts_[-1]
        if isinstance(l_, (ast.Return, ast.Raise, ast.Continue, ast.Break)):
            return True
        return isinstance(l_, ast.If) and leaves(l_.body) and leaves(l_.orelse)

    def assigned_names(s_) -> set:
        if isinstance(s_, ast.If):
            # a branch that always jumps away leaves nothing behind for the statements after the `if`
            out_ = {x.id for x in ast.walk(s_.test) if isinstance(x, ast.Name) and isinstance(x.ctx, ast.Store)}
            for br_ in (s_.body, s_.orelse):
                if not leaves(br_):
                    for t_ in br_:
                        out_ |= assigned_names(t_)
            return out_
        return {x.id for x in ast.walk(s_) if isinstance(x, ast.Name) and isinstance(x.ctx, ast.Store)}

    def invalidate(names_) -> None:
        # a definition recorded earlier that reads a name bound again now no longer describes its current value
        for k_ in list(env):
            if k_ not in names_ and any(isinstance(x, ast.Name) and x.id in names_ for x in ast.walk(env[k_])):
                env[k_] = ast.Name(id=f"?{k_}", ctx=ast.Load())

    def walk_block(stmts) -> Optional[bool]:
        for s_ in stmts:
            if not (s_ is use_stmt or contains(s_, use_stmt)):
                invalidate(assigned_names(s_))
            if s_ is use_stmt or contains(s_, use_stmt):
                if s_ is use_stmt:
                    return True
                # descend along the path
                if isinstance(s_, (ast.For, ast.AsyncFor, ast.While)):
                    # what the loop binds has no single reaching definition at the top of its body: a definition from before
                    # the loop is forgotten
                    bound_ = assigned_names(s_)
                    invalidate(bound_)
                    for nm in bound_:
                        env.pop(nm, None)  # the name stands for its value in the current iteration
                for fld in ("body", "orelse", "finalbody"):
                    sub = getattr(s_, fld, None)
                    if isinstance(sub, list) and any(x is use_stmt or contains(x, use_stmt) for x in sub):
                        return walk_block(sub)
                return True
            if isinstance(s_, ast.Assign) and len(s_.targets) == 1 and isinstance(s_.targets[0], ast.Name) and s_.targets[0].id in keep:
                pass  # a name the caller's rule speaks about stays a name
            elif isinstance(s_, ast.Assign) and len(s_.targets) == 1 and isinstance(s_.targets[0], ast.Name):
                env[s_.targets[0].id] = Sub().visit(_copy.deepcopy(s_.value))
            elif (
                isinstance(s_, ast.Assign)
                and len(s_.targets) == 1
                and isinstance(s_.targets[0], ast.Tuple)
                and isinstance(s_.value, ast.Tuple)
                and len(s_.targets[0].elts) == len(s_.value.elts)
                and all(isinstance(t_, ast.Name) for t_ in s_.targets[0].elts)
            ):
                # parallel assignment: every right-hand side is read before any name is bound
                vals = [Sub().visit(_copy.deepcopy(v_)) for v_ in s_.value.elts]
                for t_, v_ in zip(s_.targets[0].elts, vals):
                    env[t_.id] = v_
            elif (
                isinstance(s_, ast.Assign)
                and len(s_.targets) == 1
                and isinstance(s_.targets[0], ast.Tuple)
                and all(isinstance(t_, ast.Name) for t_ in s_.targets[0].elts)
                and isinstance(s_.value, (ast.Name, ast.Attribute, ast.Subscript))
            ):
                # unpacking of a sequence value: `start, end = section.index`
                base_ = Sub().visit(_copy.deepcopy(s_.value))
                for k_, t_ in enumerate(s_.targets[0].elts):
                    env[t_.id] = ast.Subscript(value=_copy.deepcopy(base_), slice=ast.Constant(value=k_), ctx=ast.Load())
            else:
                # anything else that assigns a name makes that name unknown
                for nm in assigned_names(s_):
                    env[nm] = ast.Name(id=f"?{nm}", ctx=ast.Load())
        return False

    found = walk_block(list(block))
    if not found:
        return None
    out = Sub().visit(_copy.deepcopy(expr))
    if any(isinstance(n, ast.Name) and n.id.startswith("?") for n in ast.walk(out)):
        return None
    return out


def enclosing_stmt(fi: FuncInfo, node) -> Optional[ast.stmt]:
    cur = node
    while cur is not None and not isinstance(cur, ast.stmt):
        cur = fi.pm.get(cur)
    return cur


def is_mapped_over(src, fname: str, iterable: str) -> bool:
    """src is f applied to every element of `iterable`, in order: [f(a) for a in it] / (f(a) for a in it) /
    map(f, it) / list(map(f, it)) / map(lambda a: f(a), it)"""
    src = strip_wrappers(src)
    if isinstance(src, (ast.ListComp, ast.GeneratorExp)):
        g = src.generators
        return (
            len(g) == 1
            and not g[0].ifs
            and norm(g[0].iter) == iterable
            and isinstance(src.elt, ast.Call)
            and (dotted(src.elt.func) or "").split(".")[-1] == fname.split(".")[-1]
            and len(src.elt.args) == 1
            and not src.elt.keywords
            and norm(src.elt.args[0]) == norm(g[0].target)
        )
    if isinstance(src, ast.Call) and isinstance(src.func, ast.Name) and src.func.id == "map" and len(src.args) == 2 and norm(src.args[1]) == iterable:
        f = src.args[0]
        if (dotted(f) or "").split(".")[-1] == fname.split(".")[-1]:
            return True
        if isinstance(f, ast.Lambda) and len(f.args.args) == 1 and isinstance(f.body, ast.Call) and (dotted(f.body.func) or "").split(".")[-1] == fname.split(".")[-1] and len(f.body.args) == 1 and norm(f.body.args[0]) == f.args.args[0].arg:
            return True
    return False


def value_alternatives(fi: FuncInfo, root, name: str):
    """[(value expr, [(cond expr, polarity)], assign node)] for every binding `name = v` under root; a conditional
    expression on the right-hand side is split into its two alternatives (conditions local to the statement are
    appended to the guard facts of the statement)"""
    from .core import guard_facts as _gf

    out = []
    for n in ast.walk(root):
        if isinstance(n, ast.Assign) and len(n.targets) == 1 and isinstance(n.targets[0], ast.Name) and n.targets[0].id == name:
            base = list(_gf(fi, n))

            def split(v, conds):
                if isinstance(v, ast.IfExp):
                    t, pol = v.test, True
                    while isinstance(t, ast.UnaryOp) and isinstance(t.op, ast.Not):
                        t, pol = t.operand, not pol
                    split(v.body, conds + [(t, pol)])
                    split(v.orelse, conds + [(t, not pol)])
                else:
                    out.append((v, conds, n))

            split(n.value, base)
    return out


def pairwise_visit(elt_src, visitor: str) -> Optional[bool]:
    """src maps every (sym, e) pair to (sym, <visitor>.visit(e)): comprehension with tuple or single target, map with
    lambda.  True / False when the shape is a pairwise map and is / is not that one; None when it is not a pairwise
    map at all"""
    src = strip_wrappers(elt_src)
    if isinstance(src, (ast.ListComp, ast.GeneratorExp)) and len(src.generators) == 1 and not src.generators[0].ifs:
        tg, b = src.generators[0].target, src.elt
        if isinstance(tg, ast.Tuple) and len(tg.elts) == 2:
            s_, e_ = norm(tg.elts[0]), norm(tg.elts[1])
        elif isinstance(tg, ast.Name):
            s_, e_ = f"{tg.id}[0]", f"{tg.id}[1]"
        else:
            return None
    elif isinstance(src, ast.Call) and isinstance(src.func, ast.Name) and src.func.id == "map" and len(src.args) == 2 and isinstance(src.args[0], ast.Lambda) and len(src.args[0].args.args) == 1:
        a = src.args[0].args.args[0].arg
        s_, e_, b = f"{a}[0]", f"{a}[1]", src.args[0].body
    else:
        return None
    if not (isinstance(b, ast.Tuple) and len(b.elts) == 2):
        return None
    return norm(b.elts[0]) == s_ and norm(b.elts[1]) == f"{visitor}.visit({e_})"


def is_total_len(e, seq: str) -> Optional[bool]:
    """e is the sum of len(x) over the elements x of `seq`: sum(len(x) for x in seq) / sum(map(len, seq)) /
    reduce(lambda a, b: a + len(b), seq, 0).  None when e is not a summation over seq at all."""
    e = strip_wrappers(e)
    if isinstance(e, ast.Call) and isinstance(e.func, ast.Name) and e.func.id == "sum" and e.args:
        src = strip_wrappers(e.args[0])
        start_ok = len(e.args) == 1 or norm(e.args[1]) == "0"
        if isinstance(src, (ast.GeneratorExp, ast.ListComp)) and len(src.generators) == 1 and norm(src.generators[0].iter) == seq:
            g = src.generators[0]
            return start_ok and not g.ifs and norm(src.elt).replace(" ", "") == f"len({norm(g.target)})"
        if isinstance(src, ast.Call) and isinstance(src.func, ast.Name) and src.func.id == "map" and len(src.args) == 2 and norm(src.args[1]) == seq:
            return start_ok and norm(src.args[0]) == "len"
        return None
    if isinstance(e, ast.Call) and (dotted(e.func) or "").split(".")[-1] == "reduce" and len(e.args) >= 2 and norm(e.args[1]) == seq:
        lam = e.args[0]
        if isinstance(lam, ast.Lambda) and len(lam.args.args) == 2:
            a, b = (x.arg for x in lam.args.args)
            body = norm(lam.body).replace(" ", "")
            return body in (f"{a}+len({b})", f"len({b})+{a}") and len(e.args) == 3 and norm(e.args[2]) == "0"
        return None
    return None


def linear_form(e, env=None, depth=0):
    """integer expression -> {atom text: coefficient} (atom '' is the constant term); atoms are names, calls,
    attribute reads ... anything that is not +, -, unary minus or multiplication by a literal.  Names bound in
    `env` (name -> expr) are expanded first.  None when the expression is not an integer-linear combination."""
    env = env or {}
    if depth > 12:
        return None
    if isinstance(e, ast.Constant) and isinstance(e.value, int) and not isinstance(e.value, bool):
        return {"": e.value} if e.value else {}
    if isinstance(e, ast.Name) and e.id in env:
        return linear_form(env[e.id], {k: v for k, v in env.items() if k != e.id}, depth + 1)
    if isinstance(e, ast.UnaryOp) and isinstance(e.op, ast.USub):
        f = linear_form(e.operand, env, depth + 1)
        return None if f is None else {k: -v for k, v in f.items()}
    if isinstance(e, ast.BinOp) and isinstance(e.op, (ast.Add, ast.Sub)):
        a, b = linear_form(e.left, env, depth + 1), linear_form(e.right, env, depth + 1)
        if a is None or b is None:
            return None
        out = dict(a)
        sgn = 1 if isinstance(e.op, ast.Add) else -1
        for k, v in b.items():
            out[k] = out.get(k, 0) + sgn * v
        return {k: v for k, v in out.items() if v}
    if isinstance(e, ast.BinOp) and isinstance(e.op, ast.Mult):
        for c, o in ((e.left, e.right), (e.right, e.left)):
            if isinstance(c, ast.Constant) and isinstance(c.value, int):
                f = linear_form(o, env, depth + 1)
                return None if f is None else {k: v * c.value for k, v in f.items() if v * c.value}
        return None
    if isinstance(e, (ast.Name, ast.Call, ast.Attribute, ast.Subscript)):
        return {norm(e).replace(" ", ""): 1}
    return None


def straight_line_env(block: Sequence[ast.stmt], upto: Optional[ast.stmt] = None):
    """name -> defining expression for the plain single-target assignments among the top-level statements of block
    that come before `upto` (all of them when upto is None); later definitions are expressed in terms of earlier ones"""
    env = {}
    for s_ in block:
        if upto is not None and (s_ is upto or contains(s_, upto)):
            break
        if isinstance(s_, ast.Assign) and len(s_.targets) == 1 and isinstance(s_.targets[0], ast.Name):
            env[s_.targets[0].id] = s_.value
        elif isinstance(s_, ast.AugAssign) and isinstance(s_.target, ast.Name) and isinstance(s_.op, (ast.Add, ast.Sub)):
            env[s_.target.id] = ast.BinOp(left=env.get(s_.target.id, ast.Name(id=s_.target.id + "@in", ctx=ast.Load())), op=s_.op, right=s_.value)
    return env


def dispatch_chain(body: Sequence[ast.stmt]):
    """[(test, branch body)], default body for a dispatch written either as if/elif/.../else or as a sequence of
    `if t: ...return/raise` statements followed by the default: both say `first test that holds decides`"""
    from .core import stmt_terminates

    out = []
    stmts = [s for s in body if not (isinstance(s, ast.Expr) and isinstance(s.value, ast.Constant))]
    i = 0
    while i < len(stmts) and not isinstance(stmts[i], ast.If):
        i += 1  # statements before the dispatch (bindings, logging) are not part of it
    while i < len(stmts):
        s = stmts[i]
        if isinstance(s, ast.Assign) and any(isinstance(x, ast.If) for x in stmts[i + 1 :]):
            i += 1  # a binding between two tests (`name = to_name(ann)`) belongs to the tests that follow it
            continue
        if not isinstance(s, ast.If):
            break
        ch, els = if_chain(s)
        if (
            len(ch) == 1
            and not els
            and isinstance(ch[0][0], ast.UnaryOp)
            and isinstance(ch[0][0].op, ast.Not)
            and ch[0][1]
            and isinstance(ch[0][1][-1], ast.Raise)
            and i + 1 < len(stmts)
            and not any(isinstance(x, ast.If) for x in stmts[i + 1 :])
        ):
            # `if not T: raise ...` followed by the work for T: the last test of the dispatch, written as a guard
            out.append((ch[0][0].operand, list(stmts[i + 1 :])))
            return out, list(ch[0][1])
        out.extend(ch)
        if els:
            if all(stmt_terminates(b) for _, b in ch) and i + 1 < len(stmts) and stmt_terminates(els):
                # a complete if/else whose every branch leaves: nothing follows
                return out, els
            return out, els
        if not all(stmt_terminates(b) for _, b in ch):
            # falls through: what follows is not an `else`
            return out, None
        i += 1
    return out, stmts[i:]


def bound_args(repo, call: ast.Call, callee_params: Sequence[str]) -> Optional[List[Optional[ast.expr]]]:
    """arguments of `call` in the order of `callee_params` (positional and keyword spellings alike); None when the
    call uses * / ** or an unknown keyword"""
    if any(isinstance(a, ast.Starred) for a in call.args) or any(k.arg is None for k in call.keywords):
        return None
    out: List[Optional[ast.expr]] = [None] * len(callee_params)
    if len(call.args) > len(callee_params):
        return None
    for i, a in enumerate(call.args):
        out[i] = a
    for k in call.keywords:
        if k.arg not in callee_params:
            return None
        i = list(callee_params).index(k.arg)
        if out[i] is not None:
            return None
        out[i] = k.value
    return out


def flatten_form(e) -> Optional[Tuple[ast.expr, ast.expr, str, int, int]]:
    """`[b for a in X for b in a.Y]` (any names) -> (X core, a.Y core, name of a, reversals of X mod 2, reversals
    of a.Y mod 2); None when `e` is not a two-level flattening comprehension whose element is the inner variable"""
    e = strip_wrappers(e)
    if not (isinstance(e, (ast.ListComp, ast.GeneratorExp)) and len(e.generators) == 2):
        return None
    g0, g1 = e.generators
    if g0.ifs or g1.ifs or not (isinstance(g0.target, ast.Name) and isinstance(g1.target, ast.Name)):
        return None
    if not (isinstance(e.elt, ast.Name) and e.elt.id == g1.target.id):
        return None
    outer, p0 = reversal_parity(g0.iter)
    inner, p1 = reversal_parity(g1.iter)
    return outer, inner, g0.target.id, p0, p1


def call_params(fi: FuncInfo) -> List[str]:
    """parameter names a call site binds: without the receiver of a method / classmethod"""
    ps = list(fi.all_params)
    return ps[1:] if ps and (fi.has_self or fi.is_classmethod) and not fi.is_static else ps


def seq_source(e, binds=None, depth=0):
    """Where the elements of a sequence expression come from, looking through list()/reversed()/[::-1],
    single-assignment bindings AND comprehensions that hand their elements on unchanged
    (`[(g, w, p) for g, w, p in X if c]` is X in X's order, filtered): (core, reversals mod 2, filters) with filters a
    list of (test, comprehension target).  A comprehension that transforms its elements ends the search (it is the core)."""
    par = 0
    filters = []
    while depth < 30:
        depth += 1
        core, p_ = reversal_parity(e, binds)
        par ^= p_
        if isinstance(core, (ast.ListComp, ast.GeneratorExp)) and len(core.generators) == 1 and norm(core.elt) == norm(core.generators[0].target):
            for t in core.generators[0].ifs:
                filters.append((t, core.generators[0].target))
            e = core.generators[0].iter
            continue
        return core, par, filters
    return e, par, filters


def fold_tuple_index(e):
    """`(a, b, c)[1]` -> `b` (what a straight-line substitution of a re-packed tuple leaves behind)"""
    import copy as _copy

    class F(ast.NodeTransformer):
        def visit_Subscript(self, n):
            self.generic_visit(n)
            if isinstance(n.value, (ast.Tuple, ast.List)) and isinstance(n.slice, ast.Constant) and isinstance(n.slice.value, int) and not any(isinstance(x, ast.Starred) for x in n.value.elts):
                k = n.slice.value
                if -len(n.value.elts) <= k < len(n.value.elts):
                    return n.value.elts[k]
            return n

    return F().visit(_copy.deepcopy(e))
