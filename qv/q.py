"""Small query helpers over function bodies."""
from __future__ import annotations

import ast
from typing import Callable, Iterator, List, Optional, Sequence

from .core import AnchorError, FuncInfo, dotted, norm, walk_no_nested


def returns(fi: FuncInfo) -> List[ast.Return]:
    return [n for n in walk_no_nested(fi.node) if isinstance(n, ast.Return)]


def calls(root, nested=True) -> Iterator[ast.Call]:
    it = ast.walk(root) if nested else walk_no_nested(root)
    for n in it:
        if isinstance(n, ast.Call):
            yield n


def method_calls(root, attr: str, nested=True) -> List[ast.Call]:
    """calls `<anything>.attr(...)`"""
    return [c for c in calls(root, nested) if isinstance(c.func, ast.Attribute) and c.func.attr == attr]


def name_calls(root, name: str, nested=True) -> List[ast.Call]:
    """calls `name(...)` or `<x>.name(...)`"""
    out = []
    for c in calls(root, nested):
        if isinstance(c.func, ast.Name) and c.func.id == name:
            out.append(c)
        elif isinstance(c.func, ast.Attribute) and c.func.attr == name:
            out.append(c)
    return out


def arg(call: ast.Call, idx: int, kw: Optional[str] = None) -> Optional[ast.expr]:
    if kw:
        for k in call.keywords:
            if k.arg == kw:
                return k.value
    pos = [a for a in call.args]
    if idx is not None and idx < len(pos) and not any(isinstance(a, ast.Starred) for a in pos[: idx + 1]):
        return pos[idx]
    return None


def for_loops(root, nested=False) -> List[ast.For]:
    it = ast.walk(root) if nested else walk_no_nested(root)
    return [n for n in it if isinstance(n, ast.For)]


def strip_wrappers(e, names=("list", "tuple", "reversed_NOT")):
    """look through list(x)/tuple(x)"""
    while isinstance(e, ast.Call) and isinstance(e.func, ast.Name) and e.func.id in names and len(e.args) == 1:
        e = e.args[0]
    return e


def is_reversed(e) -> Optional[ast.expr]:
    """if e is reversed(x) / x[::-1] / list(reversed(x)) return x else None"""
    e = strip_wrappers(e)
    if isinstance(e, ast.Call) and isinstance(e.func, ast.Name) and e.func.id == "reversed" and len(e.args) == 1:
        return e.args[0]
    if (
        isinstance(e, ast.Subscript)
        and isinstance(e.slice, ast.Slice)
        and e.slice.lower is None
        and e.slice.upper is None
        and e.slice.step is not None
        and isinstance(e.slice.step, ast.UnaryOp)
        and isinstance(e.slice.step.op, ast.USub)
        and isinstance(e.slice.step.operand, ast.Constant)
        and e.slice.step.operand.value == 1
    ):
        return e.value
    return None


def reversal_parity(e, binds=None, depth=0):
    """(core expression, number of reversals mod 2) looking through list()/reversed/[::-1] and
    single-assignment bindings"""
    par = 0
    while depth < 20:
        depth += 1
        r = is_reversed(e)
        if r is not None:
            par ^= 1
            e = r
            continue
        s = strip_wrappers(e)
        if s is not e:
            e = s
            continue
        if binds and isinstance(e, ast.Name) and e.id in binds:
            e = binds[e.id]
            continue
        break
    return e, par


def is_last_index(e, base_name: Optional[str] = None) -> bool:
    """e is <base>[-1]"""
    return (
        isinstance(e, ast.Subscript)
        and isinstance(e.slice, ast.UnaryOp)
        and isinstance(e.slice.op, ast.USub)
        and isinstance(e.slice.operand, ast.Constant)
        and e.slice.operand.value == 1
        and (base_name is None or (isinstance(e.value, ast.Name) and e.value.id == base_name))
    )


def is_all_but_last(e, base_name: Optional[str] = None) -> bool:
    """e is <base>[0:-1] or <base>[:-1]"""
    if not (isinstance(e, ast.Subscript) and isinstance(e.slice, ast.Slice)):
        return False
    s = e.slice
    lo_ok = s.lower is None or (isinstance(s.lower, ast.Constant) and s.lower.value == 0)
    up_ok = (
        isinstance(s.upper, ast.UnaryOp)
        and isinstance(s.upper.op, ast.USub)
        and isinstance(s.upper.operand, ast.Constant)
        and s.upper.operand.value == 1
    )
    return lo_ok and up_ok and s.step is None and (base_name is None or (isinstance(e.value, ast.Name) and e.value.id == base_name))


def contains(root, node) -> bool:
    return any(n is node for n in ast.walk(root))


def stmt_index(block: Sequence[ast.stmt], node) -> Optional[int]:
    for i, s in enumerate(block):
        if contains(s, node):
            return i
    return None


def names_in(e) -> set:
    return {n.id for n in ast.walk(e) if isinstance(n, ast.Name)}


def if_chain(stmt: ast.If):
    """[(test, body)], else_body for an if/elif/.../else chain"""
    out = []
    cur = stmt
    while True:
        out.append((cur.test, cur.body))
        if len(cur.orelse) == 1 and isinstance(cur.orelse[0], ast.If):
            cur = cur.orelse[0]
            continue
        return out, cur.orelse


def isinstance_heads(test, var: Optional[str] = None) -> List[str]:
    """class names K for every `isinstance(var, K)` / `isinstance(var, (K1, K2))` / issubclass(var.__class__, K)
    appearing positively anywhere in test (looking through and/or)"""
    out = []
    for n in ast.walk(test):
        if isinstance(n, ast.Call) and isinstance(n.func, ast.Name) and n.func.id in ("isinstance", "issubclass") and len(n.args) == 2:
            a0 = n.args[0]
            if var is not None:
                t = norm(a0)
                if t != var and t != f"{var}.__class__" and t != f"type({var})":
                    continue
            ks = n.args[1].elts if isinstance(n.args[1], ast.Tuple) else [n.args[1]]
            for k in ks:
                d = dotted(k)
                if d:
                    out.append(d.split(".")[-1])
    return out


def modulo_by_mask_sites(root):
    """`x % ((1 << n) - 1)` / `x % (2 ** n - 1)`: reducing to n bits needs the modulus 2**n (or `& mask`); the
    all-ones mask as a modulus maps the largest n-bit value to 0"""
    out = []
    for n in ast.walk(root):
        if isinstance(n, ast.BinOp) and isinstance(n.op, ast.Mod):
            r = n.right
            if isinstance(r, ast.BinOp) and isinstance(r.op, ast.Sub) and isinstance(r.right, ast.Constant) and r.right.value == 1:
                l = r.left
                if isinstance(l, ast.BinOp) and (
                    (isinstance(l.op, ast.LShift) and isinstance(l.left, ast.Constant) and l.left.value == 1)
                    or (isinstance(l.op, ast.Pow) and isinstance(l.left, ast.Constant) and l.left.value == 2)
                ):
                    out.append(n)
    return out


def fold_step(loop: ast.For):
    """a loop whose body is the single statement `acc = OP(acc, E)` / `acc = OP(E, acc)`: (acc, OP, E) else None"""
    body = [s for s in loop.body if not (isinstance(s, ast.Expr) and isinstance(s.value, ast.Constant))]
    if len(body) != 1 or not isinstance(body[0], ast.Assign) or len(body[0].targets) != 1 or not isinstance(body[0].targets[0], ast.Name):
        return None
    acc = body[0].targets[0].id
    v = body[0].value
    if not (isinstance(v, ast.Call) and isinstance(v.func, ast.Name) and len(v.args) == 2 and not v.keywords):
        return None
    a0, a1 = v.args
    if isinstance(a0, ast.Name) and a0.id == acc:
        return acc, v.func.id, a1
    if isinstance(a1, ast.Name) and a1.id == acc:
        return acc, v.func.id, a0
    return None


def loop_components(loop: ast.For):
    """the texts that denote the two zipped components inside the loop: `for a, b in zip(..)` -> (a, b);
    `for x in zip(..)` -> (x[0], x[1])"""
    t = loop.target
    if isinstance(t, ast.Tuple) and len(t.elts) == 2:
        return norm(t.elts[0]), norm(t.elts[1])
    if isinstance(t, ast.Name):
        return f"{t.id}[0]", f"{t.id}[1]"
    return None
