"""qv - repository-specific static analysis for dakk/qlasskit.

Pure standard library; run with the repository's own interpreter (/venv/bin/python,
3.12) so that `ast` is the grammar the repository is written in.  Nothing under the
analysed tree is imported or executed.
"""
