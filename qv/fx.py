"""Rules built on the effects analysis (A1): FX-PARAM, FX-SELF, FX-FRESH, FX-DEFAULT, FX-GLOBAL, FX-MODSTATE."""
from __future__ import annotations

import ast
from typing import Dict, Iterable, List, Optional, Sequence, Set, Tuple

from .core import AnchorError, Ctx, FuncInfo, Repo, dotted, norm, walk_no_nested
from .effects import Effects, Origin, Summary

_CACHE: Dict[int, Effects] = {}


def effects(ctx: Ctx) -> Effects:
    k = id(ctx.repo)
    if k not in _CACHE:
        _CACHE.clear()
        _CACHE[k] = Effects(ctx.repo).run()
    an = _CACHE[k]
    ctx.extra.setdefault("call_sites", an.calls_total)
    ctx.extra.setdefault("resolved_call_sites", an.calls_resolved)
    ctx.extra.setdefault("unresolved_callees", dict(sorted(an.unresolved_names.items(), key=lambda x: -x[1])[:25]))
    ctx.extra.setdefault("summary_rounds", getattr(an, "rounds", 0))
    return an


def origin_role(o: Origin) -> str:
    return o.text[:90]


class PurityReport:
    """collects (origin -> entries) so that one root cause is one finding"""

    def __init__(self, ctx: Ctx, rule: str, designed_mutators: Optional[Set[str]] = None):
        self.ctx = ctx
        self.rule = rule
        self.by_origin: Dict[Tuple, Tuple[Origin, List[str], int]] = {}
        self.designed = designed_mutators or set()

    def is_designed_mutator(self, func_short: str) -> bool:
        return func_short in self.designed

    def add(self, o: Origin, entry: str, depth: int):
        k = o.key()
        if k not in self.by_origin:
            self.by_origin[k] = (o, [], depth)
        if entry not in self.by_origin[k][1]:
            self.by_origin[k][1].append(entry)

    def flush(self):
        for k, (o, entries, depth) in sorted(self.by_origin.items()):
            fi = self.ctx.repo.maybe_func(o.func)
            self.ctx.obligations.append(
                __import__("qv.core", fromlist=["Obligation"]).Obligation(
                    self.rule,
                    o.func,
                    origin_role(o),
                    "violated",
                    f"{o.what}; this modifies an object the caller owns, reachable from: {', '.join(sorted(entries)[:8])}"
                    + (f" (+{len(entries) - 8} more)" if len(entries) > 8 else ""),
                    o.where,
                    True,
                )
            )


def is_private_cache(an: Effects, o: Origin) -> bool:
    """an attribute store whose field is read by no function other than the one that writes it (lazy memoisation of
    a derived value in a private slot) does not change any state a caller can observe"""
    if not o.fld or o.fld in ("*", "<fields>") or not o.what.startswith("attribute store"):
        return False
    if not o.fld.startswith("_"):
        return False
    top = o.func
    readers = an.attr_readers.get(o.fld, set())
    # nested origin functions are attributed to their top-level function
    return all(top == r or top.startswith(r + ".") for r in readers)


def check_params_pure(
    ctx: Ctx,
    rule: str,
    an: Effects,
    fi: FuncInfo,
    params: Optional[Sequence[str]],
    report: PurityReport,
    exempt: Optional[Dict[Tuple[str, str], str]] = None,
    min_depth_for: Optional[Dict[str, int]] = None,
):
    """`fi` must not mutate anything reachable from the given parameters (None = all but self/cls)"""
    s = an.summaries.get(fi.qualname)
    if s is None:
        raise AnchorError(fi.short, "no effect summary")
    ps = fi.all_params
    names = list(params) if params is not None else [p for i, p in enumerate(ps) if not (i == 0 and fi.has_self)]
    for p in names:
        if p not in ps:
            raise AnchorError(fi.short, f"parameter `{p}` not found")
        i = ps.index(p)
        slot = s.mut.get(i, {})
        bad = 0
        via: Dict[str, List[Origin]] = {}
        for (d, a, o) in slot.values():
            if exempt and ((o.func, o.fld) in exempt or (o.func, "*any*") in exempt):
                continue
            if is_private_cache(an, o):
                ctx.ok(rule, fi, f"`{p}`.{o.fld} is a private cache of {o.func.split('.')[-1]}", f"`{o.text[:60]}` writes a field that no other function of the package reads: not observable state", fi.node, nontrivial=False)
                continue
            if min_depth_for and d < min_depth_for.get(p, 0):
                continue
            bad += 1
            if report.is_designed_mutator(o.func) and o.func != fi.short:
                # the statement is a mutator doing its job; the defect is applying it to a borrowed object
                via.setdefault(a or "", []).append(o)
            else:
                report.add(o, f"{fi.short}({p})", d)
        for a, origins in sorted(via.items()):
            target = f"`{p}`" + (f".{a}" if a and a != "*" else "")
            meths = sorted({o.func.split(".")[-1] for o in origins})
            ctx.fail(
                rule, fi, f"modifies {target} in place",
                f"applies the mutating method(s) {', '.join(meths)} to an object that belongs to the caller's argument {target} "
                f"(e.g. {origins[0].where}: `{origins[0].text[:60]}`): the argument is not the same after the call", fi.node,
            )
        if bad == 0:
            ctx.ok(rule, fi, f"does not modify `{p}`", f"no mutation event reaches parameter `{p}` in the effect summary", fi.node)


def check_fresh_result(ctx: Ctx, rule: str, an: Effects, fi: FuncInfo, operands: Optional[Sequence[str]] = None, allow_hold: Sequence[str] = ()):
    """the result is a new object none of whose fields is the operand or an attribute object of it"""
    s = an.summaries.get(fi.qualname)
    if s is None:
        raise AnchorError(fi.short, "no effect summary")
    ps = fi.all_params
    ops = [ps.index(p) for p in operands] if operands is not None else list(range(len(ps)))
    alias = [(i, d, a) for (i, d, a) in s.ret if i in ops and (d <= 1)]
    ctx.check(
        not alias and s.ret_fresh,
        rule,
        fi,
        "returns a new object",
        "every returned value is allocated in the call (deepcopy / constructor / literal)",
        "may return " + ", ".join(f"`{ps[i]}`" + ("" if d == 0 else f".{a}") for i, d, a in alias) + " itself rather than a copy" if alias else "does not return a freshly allocated object",
        fi.node,
    )
    shared = [(attr, hd, i, d, a) for (attr, hd, i, d, a) in s.ret_holds if i in ops and ps[i] not in allow_hold and (d == 0 or (d == 1 and a != "*"))]
    ctx.check(
        not shared,
        rule,
        fi,
        "result shares no field with an operand",
        "only element-level values (gate objects, parameters) may be common",
        "; ".join(f"result.{attr} holds `{ps[i]}`" + ("" if d == 0 else f".{a}") + " itself" for attr, hd, i, d, a in shared[:4]) + ": a later change to one shows in the other",
        fi.node,
    )


MUTABLE_DEFAULT = (ast.List, ast.Dict, ast.Set, ast.Call, ast.ListComp, ast.DictComp, ast.SetComp)


def check_defaults(ctx: Ctx, rule: str, an: Effects) -> int:
    """a mutable / stateful default object must not itself be mutated, stored, returned or handed to code
    outside the repository (it is shared by every call that omits the argument)"""
    n = 0
    for fi in ctx.repo.functions.values():
        if isinstance(fi.node, ast.Lambda):
            continue
        a = fi.node.args
        pos = a.posonlyargs + a.args
        pairs = list(zip(pos[len(pos) - len(a.defaults):], a.defaults)) + [(k, d) for k, d in zip(a.kwonlyargs, a.kw_defaults) if d is not None]
        for argn, dv in pairs:
            if not isinstance(dv, MUTABLE_DEFAULT):
                continue
            if isinstance(dv, ast.Call) and (dotted(dv.func) or "") in ("tuple", "frozenset", "str", "int", "float", "bool"):
                continue
            n += 1
            top = fi
            while top.parent is not None:
                top = top.parent
            s = an.summaries.get(top.qualname)
            role = f"default `{argn.arg}={norm(dv)}`"
            if fi.parent is not None or s is None:
                # nested function: fall back to a syntactic scan of its body
                bad = _syntactic_default_misuse(fi, argn.arg)
                ctx.check(not bad, rule, fi, role, "read-only use", f"the shared default object is {bad}", fi.node)
                continue
            i = fi.all_params.index(argn.arg)
            problems = []
            for (d, at, o) in s.mut.get(i, {}).values():
                if d == 0:
                    problems.append(f"modified in place at {o.where} (`{o.text[:50]}`)")
            if any(ri == i and d == 0 for (ri, d, _a) in s.ret):
                problems.append("returned to the caller")
            for (j, attr, hd, si, d, _a) in s.stores:
                if si == i and d == 0:
                    problems.append(f"stored into `{fi.all_params[j]}.{attr}`")
            for (attr, hd, hi, d, _a) in s.ret_holds:
                if hi == i and d == 0:
                    problems.append(f"stored into the result's `{attr}`")
            for (ei, d, callee, where) in s.escapes.values():
                if ei == i and d == 0:
                    problems.append(f"handed to `{callee}` at {where}, which may consume or keep it")
            ctx.check(
                not problems, rule, fi, role,
                "the default object itself is only read (elements supplied by callers are another matter)",
                "the default object is shared by all calls that omit the argument, and it is " + "; ".join(sorted(set(problems))[:4]),
                fi.node,
            )
    return n


def _syntactic_default_misuse(fi: FuncInfo, name: str) -> str:
    for n in walk_no_nested(fi.node):
        if isinstance(n, ast.Call) and isinstance(n.func, ast.Attribute) and isinstance(n.func.value, ast.Name) and n.func.value.id == name:
            if n.func.attr in ("append", "extend", "insert", "remove", "pop", "clear", "sort", "reverse", "update", "add", "discard", "setdefault", "popitem"):
                return f"modified by .{n.func.attr}()"
        if isinstance(n, (ast.Assign, ast.AugAssign)):
            tgts = n.targets if isinstance(n, ast.Assign) else [n.target]
            for t in tgts:
                if isinstance(t, (ast.Subscript, ast.Attribute)) and isinstance(t.value, ast.Name) and t.value.id == name:
                    return "written through"
                if isinstance(n, ast.AugAssign) and isinstance(t, ast.Name) and t.id == name:
                    return "updated in place"
        if isinstance(n, ast.Return) and isinstance(n.value, ast.Name) and n.value.id == name:
            # only a problem if not re-bound before; conservative: check any assignment to the name
            if not any(isinstance(m, ast.Assign) and any(isinstance(t, ast.Name) and t.id == name for t in m.targets) for m in walk_no_nested(fi.node)):
                return "returned"
    return ""


def check_global_exec(ctx: Ctx, rule: str) -> int:
    """exec/eval must not run in, or look names up in, a library module's own namespace"""
    n = 0
    for fi in ctx.repo.functions.values():
        if fi.parent is not None:
            continue
        for c in ast.walk(fi.node):
            if isinstance(c, ast.Call) and isinstance(c.func, ast.Name) and c.func.id in ("exec", "eval"):
                n += 1
                ns = [norm(a) for a in c.args[1:]] + [norm(k.value) for k in c.keywords]
                role = f"{c.func.id}({norm(c.args[0])[:30] if c.args else ''}, ...)"
                if c.func.id == "exec":
                    own = "globals()" in ns[:1] and len(ns) == 1
                    implicit = len(ns) == 0
                    bad = own or implicit
                    why = "runs user-controlled code with the library module's globals() as its namespace: names it defines replace the module's own (copy, types, Qint2, ...) for every later call" if own else "runs code in the calling frame's namespace"
                else:
                    bad = len(ns) == 0
                    why = "looks a user-controlled name up in the enclosing function's and the library module's namespaces: a function named like a local (f, types, defs, ...) resolves to the wrong object"
                # exec(code, globals(), ns) with an explicit fresh local namespace is accepted: definitions land in ns
                if c.func.id == "exec" and len(ns) >= 2 and ns[0] == "globals()":
                    bad = False
                ctx.check(not bad, rule, fi, role, f"namespace arguments: {ns}", why, c)
    return n


def check_module_state(ctx: Ctx, rule: str, an: Effects) -> int:
    """no function writes a module-level object or re-binds a module global: results must not depend on
    what was compiled earlier in the process"""
    seen = set()
    n = 0
    for q, s in an.summaries.items():
        for k, o in s.gmut.items():
            key = (o.func, o.text, k[-1])
            if key in seen:
                continue
            seen.add(key)
            n += 1
            fi = ctx.repo.maybe_func(o.func)
            ctx.obligations.append(
                __import__("qv.core", fromlist=["Obligation"]).Obligation(
                    rule, o.func, f"writes module-level `{k[-1].split('.')[-1]}`: {o.text[:60]}", "violated",
                    f"{o.what}: `{k[-1]}` is a module-level object shared by every call in the process, so what this call computes "
                    "depends on (and changes) what earlier/later calls see", o.where, True,
                )
            )
    # syntactic: `global` declarations, and functools caches on functions of the library
    for fi in ctx.repo.functions.values():
        if isinstance(fi.node, ast.Lambda):
            continue
        for d in fi.node.decorator_list:
            dn = dotted(d.func) if isinstance(d, ast.Call) else dotted(d)
            if dn and dn.split(".")[-1] in ("lru_cache", "cache", "cached_property", "memoize"):
                n += 1
                ctx.fail(rule, fi, f"@{dn}", "a process-wide cache keyed by argument equality (1 == 1.0 == True; equal-but-distinct objects) makes results depend on call history", fi.node)
    ctx.ok(rule, None, "no function writes module-level state", f"{len(an.summaries)} summaries scanned, {len(seen)} writes found", construct="qlasskit")
    return n


# ------------------------------------------------------------------------------------- value objects

MUTATING_METHODS = ("append", "extend", "insert", "pop", "remove", "reverse", "sort", "clear", "update", "add", "discard", "setdefault", "popitem")


def check_frozen(ctx: Ctx, rule: str, cls_short: str, why: str) -> int:
    """Instances of a value class (its fields are bound in __init__ only, on today's tree) are shared between the
    tables that describe one function - the environment, QlassF.args, the compiler's argument list.  A field store or
    an in-place update of a field's list anywhere else changes what every holder sees.  Receivers are resolved by
    field name: a field name no other class of the repository declares identifies the class; for ambiguous names
    only receivers bound to a constructor call / annotated with the class are judged.  A store into an object that
    the same function has just constructed (and not yet handed out) is initialisation, not mutation."""
    repo = ctx.repo
    ci = repo.cls(cls_short)
    init = ci.methods.get("__init__")
    if init is None:
        raise AnchorError(cls_short, "value class without __init__")
    fields = [n.attr for n in walk_no_nested(init.node) if isinstance(n, ast.Attribute) and isinstance(n.ctx, ast.Store) and isinstance(n.value, ast.Name) and n.value.id == init.all_params[0]]
    if not fields:
        raise AnchorError(cls_short, "no fields bound in __init__")
    names = {ci.name} | {alias for m in repo.modules.values() for alias, v in getattr(m, "globals_assigned", {}).items() if isinstance(v, ast.Name) and v.id == ci.name}
    own = {f.qualname for f in ci.methods.values()}
    other_fields = set()
    for c2 in repo.classes.values():
        if c2 is ci or ci in c2.mro():
            continue
        for mi in c2.methods.values():
            if not mi.all_params:
                continue
            for n in walk_no_nested(mi.node):
                if isinstance(n, ast.Attribute) and isinstance(n.ctx, ast.Store) and isinstance(n.value, ast.Name) and n.value.id == mi.all_params[0]:
                    other_fields.add(n.attr)
    unique = [f for f in fields if f not in other_fields]
    n_sites = 0
    for fi in repo.functions.values():
        if isinstance(fi.node, ast.Lambda):
            continue
        top = fi
        while top.parent is not None:
            top = top.parent
        if top.qualname in own and top.name == "__init__":
            continue
        fresh = set()
        for n in walk_no_nested(fi.node):
            if isinstance(n, ast.Assign) and len(n.targets) == 1 and isinstance(n.targets[0], ast.Name) and isinstance(n.value, ast.Call) and (dotted(n.value.func) or "").split(".")[-1] in names:
                fresh.add(n.targets[0].id)
        typed = set(fresh)
        a = fi.node.args
        for p in a.posonlyargs + a.args + a.kwonlyargs:
            if p.annotation is not None and any(isinstance(x, ast.Name) and x.id in names for x in ast.walk(p.annotation)) and not any(isinstance(x, ast.Name) and x.id in ("List", "list", "Dict", "Tuple", "Optional") for x in ast.walk(p.annotation)):
                typed.add(p.arg)

        def judged(recv, attr) -> bool:
            if attr in unique:
                return not (isinstance(recv, ast.Name) and recv.id in fresh)
            return attr in fields and isinstance(recv, ast.Name) and recv.id in typed and recv.id not in fresh

        for n in walk_no_nested(fi.node):
            site = None
            if isinstance(n, ast.Attribute) and isinstance(n.ctx, (ast.Store, ast.Del)) and judged(n.value, n.attr):
                site = (n, f"`{norm(n)}` is re-bound")
            elif isinstance(n, ast.Call) and isinstance(n.func, ast.Attribute) and n.func.attr in MUTATING_METHODS and isinstance(n.func.value, ast.Attribute) and judged(n.func.value.value, n.func.value.attr):
                site = (n, f"`{norm(n)[:60]}` updates the field's object in place")
            elif isinstance(n, ast.Subscript) and isinstance(n.ctx, (ast.Store, ast.Del)) and isinstance(n.value, ast.Attribute) and judged(n.value.value, n.value.attr):
                site = (n, f"`{norm(n)[:60]}` writes into the field's object")
            elif isinstance(n, ast.AugAssign) and isinstance(n.target, ast.Attribute) and judged(n.target.value, n.target.attr):
                site = (n, f"`{norm(n)[:60]}` updates the field")
            elif isinstance(n, ast.Call) and isinstance(n.func, ast.Name) and n.func.id == "setattr" and len(n.args) == 3 and isinstance(n.args[1], ast.Constant) and n.args[1].value in unique:
                site = (n, f"`{norm(n)[:60]}` re-binds the field")
            if site is not None:
                n_sites += 1
                ctx.fail(rule, fi, f"{ci.name} objects are never modified after construction", f"{site[1]}: {why}", site[0])
    ctx.ok(rule, init, f"{ci.name} fields {fields} are bound in the constructor only", f"{len(repo.functions)} functions scanned; fields unique to the class: {unique}", init.node)
    return n_sites
