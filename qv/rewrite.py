"""A3 - term-rewriting hygiene for code that takes sympy boolean expressions apart.

RW-ARITY      X.args[c] needs X's head (and, for variadic heads, its exact arity) established
RW-EQUIV      every return of a pattern rewrite denotes the same boolean function as the node it
              replaces, under the path condition of that return (decided by interpreting the
              returned *source term* over the atoms of the matched pattern: no execution)
RW-TOTAL      a normalising visitor descends into every sub-term on every path
RW-CONGRUENCE generic rebuilds are homomorphisms; the dispatcher table is consistent
"""
from __future__ import annotations

import ast
import itertools
from typing import Dict, List, Optional, Sequence, Set, Tuple

from .boolterm import (
    FIXED_ARITY,
    HEADS,
    LEAF_HEADS,
    VARIADIC,
    Converter,
    Undecided,
    atom,
    equivalent,
    head_name,
    mk,
    show,
)
from .core import AnchorError, Ctx, FuncInfo, guard_facts, norm, same, walk_no_nested

Path = Tuple  # (param, i, j, ...)  == param.args[i].args[j]...


def args_path(node, roots: Sequence[str]) -> Optional[Path]:
    """('expr', 0, 1) for expr.args[0].args[1]; ('expr',) for expr."""
    idx: List[int] = []
    cur = node
    while True:
        if isinstance(cur, ast.Name):
            if cur.id in roots:
                return (cur.id,) + tuple(reversed(idx))
            return None
        if (
            isinstance(cur, ast.Subscript)
            and isinstance(cur.slice, ast.Constant)
            and isinstance(cur.slice.value, int)
            and isinstance(cur.value, ast.Attribute)
            and cur.value.attr == "args"
        ):
            idx.append(cur.slice.value)
            cur = cur.value.value
            continue
        return None


def path_str(p: Path) -> str:
    s = p[0]
    for i in p[1:]:
        s += f".args[{i}]"
    return s


def dnf(facts: Sequence[Tuple[ast.expr, bool]], cap: int = 256) -> List[List[Tuple[ast.expr, bool]]]:
    """path condition as a disjunction of conjunctions of atomic facts"""

    def expand(e, pol) -> List[List[Tuple[ast.expr, bool]]]:
        if isinstance(e, ast.UnaryOp) and isinstance(e.op, ast.Not):
            return expand(e.operand, not pol)
        if isinstance(e, ast.BoolOp):
            conj = isinstance(e.op, ast.And) == pol  # and/True or or/False -> conjunction
            parts = [expand(v, pol) for v in e.values]
            if conj:
                out = [[]]
                for alts in parts:
                    out = [a + b for a in out for b in alts]
                    if len(out) > cap:
                        raise Undecided("path condition too large")
                return out
            out = []
            for alts in parts:
                out.extend(alts)
            return out
        return [[(e, pol)]]

    res = [[]]
    for e, pol in facts:
        alts = expand(e, pol)
        res = [a + b for a in res for b in alts]
        if len(res) > cap:
            raise Undecided("path condition too large")
    return res


class Shape:
    """What one alternative of a path condition says about the matched expression."""

    def __init__(self, roots: Dict[str, Optional[str]]):
        self.roots = roots  # param name -> head established by the dispatcher (or None)
        self.heads: Dict[Path, str] = {}
        self.arity: Dict[Path, int] = {}
        self.minarity: Dict[Path, int] = {}
        self.eqs: List[Tuple[ast.expr, ast.expr]] = []
        self.other_len_facts: List[str] = []
        self.unread: List[str] = []  # conditions on the matched node that the model does not interpret
        for r, h in roots.items():
            if h:
                self.heads[(r,)] = h

    def add(self, e: ast.expr, pol: bool):
        names = list(self.roots)
        # isinstance(P, H)
        if isinstance(e, ast.Call) and isinstance(e.func, ast.Name) and e.func.id == "isinstance" and len(e.args) == 2:
            p = args_path(e.args[0], names)
            if p is not None and pol:
                hs = e.args[1].elts if isinstance(e.args[1], ast.Tuple) else [e.args[1]]
                hn = [head_name(h) for h in hs]
                if len(hn) == 1 and hn[0]:
                    self.heads[p] = hn[0]
            return
        if isinstance(e, ast.Compare) and len(e.ops) == 1:
            l, r, op = e.left, e.comparators[0], e.ops[0]
            lp = self._len_path(l)
            rp = self._len_path(r)
            if lp is not None or rp is not None:
                if rp is not None and lp is None:
                    l, r, lp = r, l, rp
                    op = {ast.Lt: ast.Gt, ast.Gt: ast.Lt, ast.LtE: ast.GtE, ast.GtE: ast.LtE}.get(type(op), type(op))()
                if isinstance(r, ast.Constant) and isinstance(r.value, int):
                    n = r.value
                    eff = type(op)
                    if not pol:
                        eff = {ast.Eq: ast.NotEq, ast.NotEq: ast.Eq, ast.Lt: ast.GtE, ast.GtE: ast.Lt, ast.Gt: ast.LtE, ast.LtE: ast.Gt}.get(eff, None)
                    if eff is ast.Eq:
                        self.arity[lp] = n
                    elif eff is ast.Gt:
                        self.minarity[lp] = max(self.minarity.get(lp, 0), n + 1)
                    elif eff is ast.GtE:
                        self.minarity[lp] = max(self.minarity.get(lp, 0), n)
                    elif eff is ast.LtE and n <= 2:
                        self.arity[lp] = 2  # variadic heads never have fewer than two arguments
                    elif eff is ast.Lt and n <= 3:
                        self.arity[lp] = 2
                    else:
                        self.other_len_facts.append(norm(e))
                else:
                    self.other_len_facts.append(norm(e))
                return
            if isinstance(op, ast.Eq) and pol:
                self.eqs.append((l, r))
                return
            elif isinstance(op, ast.NotEq) and not pol:
                self.eqs.append((l, r))
                return
        if pol and any(isinstance(x, ast.Name) and x.id in names for x in ast.walk(e)) and any(isinstance(x, ast.Call) and not (isinstance(x.func, ast.Name) and x.func.id in ("isinstance", "len")) for x in ast.walk(e)):
            # `if looks_like_pair(expr.args):` - a predicate over the matched node that is not read here
            self.unread.append(norm(e))

    def _len_path(self, n) -> Optional[Path]:
        if (
            isinstance(n, ast.Call)
            and isinstance(n.func, ast.Name)
            and n.func.id == "len"
            and len(n.args) == 1
            and isinstance(n.args[0], ast.Attribute)
            and n.args[0].attr == "args"
        ):
            return args_path(n.args[0].value, list(self.roots))
        return None


def single_bindings(fi: FuncInfo) -> Dict[str, ast.expr]:
    """names assigned exactly once in the function (plain `name = value`)"""
    count: Dict[str, int] = {}
    val: Dict[str, ast.expr] = {}
    for n in walk_no_nested(fi.node):
        if isinstance(n, ast.Assign):
            for t in n.targets:
                for nm in ast.walk(t):
                    if isinstance(nm, ast.Name) and isinstance(nm.ctx, ast.Store):
                        count[nm.id] = count.get(nm.id, 0) + 1
                        if isinstance(t, ast.Name):
                            val[nm.id] = n.value
        elif isinstance(n, (ast.AugAssign, ast.AnnAssign)):
            for nm in ast.walk(n.target):
                if isinstance(nm, ast.Name):
                    count[nm.id] = count.get(nm.id, 0) + 2
        elif isinstance(n, (ast.For, ast.comprehension)):
            for nm in ast.walk(n.target):
                if isinstance(nm, ast.Name):
                    count[nm.id] = count.get(nm.id, 0) + 2
    return {k: v for k, v in val.items() if count.get(k) == 1}


class RewriteModel:
    """Builds input/output terms of one return statement under one shape."""

    def __init__(self, fi: FuncInfo, shape: Shape, arities: Dict[Path, int], recursive_names: Set[str]):
        self.fi = fi
        self.shape = shape
        self.ar = arities
        self.termenv: Dict[str, tuple] = {}
        self.recursive = recursive_names  # callee names that preserve meaning (self.visit, the function itself)
        self.conv = Converter(self.leaf, single_bindings(fi))

    def expand(self, p: Path) -> tuple:
        h = self.shape.heads.get(p)
        if h in VARIADIC:
            n = self.ar[p]
            return mk(HEADS[h], [self.expand(p + (i,)) for i in range(n)])
        if h in FIXED_ARITY:
            return mk(HEADS[h], [self.expand(p + (i,)) for i in range(FIXED_ARITY[h])])
        return atom(path_str(p))

    def children(self, p: Path) -> List[tuple]:
        h = self.shape.heads.get(p)
        if h in VARIADIC:
            return [self.expand(p + (i,)) for i in range(self.ar[p])]
        if h in FIXED_ARITY:
            return [self.expand(p + (i,)) for i in range(FIXED_ARITY[h])]
        raise Undecided(f"`{path_str(p)}.args` is enumerated but the head of `{path_str(p)}` is not established")

    def leaf(self, n):
        roots = list(self.shape.roots)
        if isinstance(n, tuple) and n and n[0] == "list":
            node = n[1]
            # X.args
            if isinstance(node, ast.Attribute) and node.attr == "args":
                p = args_path(node.value, roots)
                if p is not None:
                    return self.children(p)
            # [g(e) for e in X.args]
            if isinstance(node, (ast.ListComp, ast.GeneratorExp)) and len(node.generators) == 1:
                g = node.generators[0]
                if not g.ifs and isinstance(g.target, ast.Name):
                    src = self.conv.list_of(g.iter)
                    out = []
                    for t in src:
                        old = self.termenv.get(g.target.id)
                        self.termenv[g.target.id] = t
                        try:
                            out.append(self.conv.conv(node.elt))
                        finally:
                            if old is None:
                                self.termenv.pop(g.target.id, None)
                            else:
                                self.termenv[g.target.id] = old
                    return out
            if isinstance(node, ast.Call) and isinstance(node.func, ast.Name) and node.func.id in ("list", "tuple") and len(node.args) == 1:
                return self.conv.list_of(node.args[0])
            return None
        if isinstance(n, ast.Name) and n.id in self.termenv:
            return self.termenv[n.id]
        p = args_path(n, roots) if isinstance(n, (ast.Name, ast.Subscript)) else None
        if p is not None:
            return self.expand(p)
        if isinstance(n, ast.Call):
            d = norm(n.func)
            # self.visit(E) / recursive call: meaning-preserving by induction
            if d in self.recursive and len(n.args) == 1 and not n.keywords:
                return self.conv.conv(n.args[0])
            # super().visit_K(expr)
            if (
                isinstance(n.func, ast.Attribute)
                and isinstance(n.func.value, ast.Call)
                and isinstance(n.func.value.func, ast.Name)
                and n.func.value.func.id == "super"
                and n.func.attr.startswith("visit")
                and len(n.args) == 1
            ):
                return self.conv.conv(n.args[0])
            # type(expr)(*args)
            if (
                isinstance(n.func, ast.Call)
                and isinstance(n.func.func, ast.Name)
                and n.func.func.id == "type"
                and len(n.func.args) == 1
            ):
                p2 = args_path(n.func.args[0], roots)
                if p2 is not None and self.shape.heads.get(p2) in HEADS:
                    return mk(HEADS[self.shape.heads[p2]], self.conv.seq(n.args))
        return None


def accessed_paths(nodes: Sequence[ast.AST], roots: Sequence[str]) -> Set[Path]:
    out: Set[Path] = set()
    for root in nodes:
        for n in ast.walk(root):
            if isinstance(n, (ast.Subscript, ast.Name)):
                p = args_path(n, roots)
                if p is not None:
                    out.add(p)
    return out


def is_identity_return(value, roots: Sequence[str]) -> bool:
    if isinstance(value, ast.Name) and value.id in roots:
        return True
    if (
        isinstance(value, ast.Call)
        and isinstance(value.func, ast.Attribute)
        and isinstance(value.func.value, ast.Call)
        and isinstance(value.func.value.func, ast.Name)
        and value.func.value.func.id == "super"
        and len(value.args) == 1
        and isinstance(value.args[0], ast.Name)
        and value.args[0].id in roots
    ):
        return True
    return False


def check_rewrite_equiv(
    ctx: Ctx,
    rule: str,
    fi: FuncInfo,
    param: str,
    head: Optional[str],
    recursive_names: Set[str],
    extra_heads: Optional[List[str]] = None,
) -> int:
    """RW-EQUIV for every return of `fi`.  `head` = head of `param` guaranteed by the dispatcher
    (None when the function dispatches itself with isinstance).  Returns number of obligations."""
    n_ob = 0
    rets = [n for n in walk_no_nested(fi.node) if isinstance(n, ast.Return)]
    if not rets:
        raise AnchorError(fi.short, "no return statement in a rewrite function")
    for ri, r in enumerate(rets):
        role = f"return#{ri}: {norm(r.value)[:70] if r.value else 'None'}"
        if r.value is None:
            ctx.fail(rule, fi, role, "a rewrite returns None: the node is deleted", r)
            n_ob += 1
            continue
        if is_identity_return(r.value, [param]):
            ctx.ok(rule, fi, role, "identity / delegation to the generic rebuild", r, nontrivial=False)
            n_ob += 1
            continue
        try:
            alts = dnf(guard_facts(fi, r))
        except Undecided as u:
            raise AnchorError(fi.short, f"{role}: {u}")
        checked = 0
        rows_total = 0
        for alt in alts:
            shape = Shape({param: head})
            for e, pol in alt:
                shape.add(e, pol)
            if shape.other_len_facts:
                raise AnchorError(fi.short, f"{role}: arity guard in a form outside the tables: {shape.other_len_facts}")
            # infeasible alternatives: contradictory heads are not tracked; harmless (extra rows)
            acc = accessed_paths([r.value] + [x for eq in shape.eqs for x in eq], [param])
            # include binding values
            for nm, v in single_bindings(fi).items():
                acc |= accessed_paths([v], [param])
            variadic_paths = [p for p, h in shape.heads.items() if h in VARIADIC]
            choices = []
            for p in variadic_paths:
                if p in shape.arity:
                    choices.append([shape.arity[p]])
                else:
                    mx = max([q[len(p)] for q in acc if len(q) > len(p) and q[: len(p)] == p] + [-1])
                    lo = max(2, shape.minarity.get(p, 0), mx + 1)
                    choices.append([lo, lo + 1])
            for combo in itertools.product(*choices) if choices else [()]:
                ar = dict(zip(variadic_paths, combo))
                model = RewriteModel(fi, shape, ar, recursive_names)
                try:
                    t_in = model.expand((param,))
                    t_out = model.conv.conv(r.value)
                    cons = [(model.conv.conv(a), model.conv.conv(b)) for a, b in shape.eqs if _convertible(model, a, b)]
                    eq, cex, rows = equivalent(t_in, t_out, cons)
                except Undecided as u:
                    raise AnchorError(fi.short, f"{role}: {u}")
                checked += 1
                rows_total += rows
                if not eq and shape.unread:
                    raise AnchorError(fi.short, f"{role}: applied under {shape.unread}, a condition on the matched node that the term model does not read")
                if not eq:
                    ar_s = ", ".join(f"len({path_str(p)}.args)={n}" for p, n in ar.items())
                    ctx.fail(
                        rule,
                        fi,
                        role,
                        f"not an identity: matched node {show(t_in)} is rewritten to {show(t_out)}; they differ at "
                        f"{ {str(k): v for k, v in cex.items()} } (arities: {ar_s or 'fixed'})",
                        r,
                    )
                    n_ob += 1
                    break
            else:
                continue
            break
        else:
            ctx.ok(rule, fi, role, f"identity on {rows_total} rows over {checked} shape/arity instances", r)
            n_ob += 1
    return n_ob


def _convertible(model: RewriteModel, a, b) -> bool:
    try:
        model.conv.conv(a)
        model.conv.conv(b)
        return True
    except Undecided:
        return False


# --------------------------------------------------------------------------------------
# RW-ARITY


def established_head(fi: FuncInfo, node: ast.AST, base: ast.expr, param_heads: Dict[str, Optional[str]]):
    """(head, exact_arity|None, other_len_guard_seen) for `base` at `node`."""
    head = None
    if isinstance(base, ast.Name) and param_heads.get(base.id):
        head = param_heads[base.id]
    exact = None
    other = False
    facts = guard_facts(fi, node)
    flat: List[Tuple[ast.expr, bool]] = []
    for alt_src in facts:
        flat.append(alt_src)
    for e, pol in flat:
        if (
            pol
            and isinstance(e, ast.Call)
            and isinstance(e.func, ast.Name)
            and e.func.id == "isinstance"
            and len(e.args) == 2
            and same(e.args[0], base)
        ):
            hs = e.args[1].elts if isinstance(e.args[1], ast.Tuple) else [e.args[1]]
            hn = [head_name(h) for h in hs]
            if len(hn) == 1:
                head = hn[0]
            elif all(h in FIXED_ARITY for h in hn):
                head = min(hn, key=lambda h: FIXED_ARITY[h])
            else:
                head = "|".join(str(h) for h in hn)
        if isinstance(e, ast.Compare) and len(e.ops) == 1:
            for l, r, flip in ((e.left, e.comparators[0], False), (e.comparators[0], e.left, True)):
                if (
                    isinstance(l, ast.Call)
                    and isinstance(l.func, ast.Name)
                    and l.func.id == "len"
                    and len(l.args) == 1
                    and isinstance(l.args[0], ast.Attribute)
                    and l.args[0].attr == "args"
                    and same(l.args[0].value, base)
                ):
                    if isinstance(e.ops[0], ast.Eq) and pol and isinstance(r, ast.Constant):
                        exact = r.value
                    elif isinstance(e.ops[0], ast.NotEq) and not pol and isinstance(r, ast.Constant):
                        exact = r.value
                    else:
                        other = True
    return head, exact, other


_KNOWN_PREDICATES = {"isinstance", "issubclass", "len", "hasattr", "type", "any", "all", "bool", "set", "list", "tuple", "sorted"}


def _opaque_predicates(fi: FuncInfo, node, base) -> List[str]:
    """calls of functions the tables do not describe, in a fact that dominates `node` with polarity True and takes
    the matched sub-term (or a term it is part of) as an argument"""
    root = base
    while isinstance(root, (ast.Attribute, ast.Subscript)):
        root = root.value
    rn = root.id if isinstance(root, ast.Name) else None
    out = []
    for e, pol in guard_facts(fi, node):
        if not pol:
            continue
        for c in ast.walk(e):
            if isinstance(c, ast.Call) and isinstance(c.func, (ast.Name, ast.Attribute)):
                nm = c.func.id if isinstance(c.func, ast.Name) else c.func.attr
                if nm in _KNOWN_PREDICATES or (isinstance(c.func, ast.Name) and nm[:1].isupper()):
                    continue
                if rn is not None and any(isinstance(x, ast.Name) and x.id == rn for a in c.args for x in ast.walk(a)):
                    out.append(norm(c)[:60])
    return out


def check_arity(ctx: Ctx, rule: str, fi: FuncInfo, param_heads: Dict[str, Optional[str]]) -> int:
    """every `X.args[c]` in fi: head of X established; c < arity; variadic heads need an exact
    `len(X.args) == n` guard (reading the first c of an unknown number of arguments discards the rest)."""
    n_ob = 0
    seen = set()
    for n in walk_no_nested(fi.node):
        if not (
            isinstance(n, ast.Subscript)
            and isinstance(n.value, ast.Attribute)
            and n.value.attr == "args"
            and isinstance(n.slice, ast.Constant)
            and isinstance(n.slice.value, int)
        ):
            continue
        base = n.value.value
        c = n.slice.value
        head, exact, other = established_head(fi, n, base, param_heads)
        role = f"{norm(base)}.args[{c}]"
        if head in VARIADIC and exact is None and not other:
            role = f"{norm(base)}.args[i] without arity guard"
        guards = tuple(sorted(norm(e) + str(p) for e, p in guard_facts(fi, n)))
        if head in VARIADIC and exact is None and not other:
            guards = ()
        if (role, head, exact, guards) in seen:
            continue
        seen.add((role, head, exact, guards))
        n_ob += 1
        opaque = _opaque_predicates(fi, n, base)
        if (head is None or head in LEAF_HEADS or "|" in str(head)) and opaque:
            # the node is admitted by a predicate the analysis cannot read: what it establishes is unknown
            ctx.undecided(fi.short, f"{rule} [{role}]: `{norm(base)}` is tested by `{opaque[0]}`, a predicate outside the tables ({fi.loc(n)})")
        elif head is None or head in LEAF_HEADS or "|" in str(head):
            ctx.fail(rule, fi, role, f"argument {c} of `{norm(base)}` is read but no dominating isinstance/dispatcher fact establishes its head (found: {head})", n)
        elif head in FIXED_ARITY:
            ctx.check(
                0 <= c < FIXED_ARITY[head], rule, fi, role,
                f"head {head} (arity {FIXED_ARITY[head]}) established", f"index {c} out of range for {head}", n,
            )
        elif head in VARIADIC:
            if exact is not None:
                ctx.check(0 <= c < exact, rule, fi, role, f"head {head}, len == {exact} guard dominates", f"index {c} not below guarded arity {exact}", n)
            elif other:
                raise AnchorError(fi.short, f"{role}: arity guard for `{norm(base)}` is in a form outside the tables")
            else:
                ctx.fail(
                    rule, fi, role,
                    f"`{norm(base)}` is a variadic {head} but no dominating `len({norm(base)}.args) == n` fixes its arity: "
                    f"reading argument {c} and rebuilding from it silently drops any further arguments",
                    n,
                )
        else:
            # non-boolean heads (QuantumBooleanGate etc.): out of the tables
            ctx.ok(rule, fi, role, f"head {head}: not a boolean connective, not constrained", n, nontrivial=False)
    return n_ob


# --------------------------------------------------------------------------------------
# RW-TOTAL


def check_total(ctx: Ctx, rule: str, fi: FuncInfo, param: str, forbidden_ctor: Optional[str], recursive_names: Set[str]) -> int:
    """every return of a normalising visit_K is built only from visited sub-terms, and does not
    itself construct the head the pass eliminates"""
    binds = single_bindings(fi)
    n_ob = 0

    def visited(e, depth=0) -> Tuple[bool, str]:
        if depth > 50:
            return False, "too deep"
        if isinstance(e, ast.Call):
            d = norm(e.func)
            if d in recursive_names:
                return True, ""
            if (
                isinstance(e.func, ast.Attribute)
                and isinstance(e.func.value, ast.Call)
                and isinstance(e.func.value.func, ast.Name)
                and e.func.value.func.id == "super"
                and e.func.attr.startswith("visit")
            ):
                return True, ""
            h = head_name(e.func)
            if h in HEADS or h in ("BooleanTrue", "BooleanFalse"):
                for a in e.args:
                    ok, why = visited(a.value if isinstance(a, ast.Starred) else a, depth + 1)
                    if not ok:
                        return False, why
                return True, ""
            return False, f"call `{norm(e)}` is not a recursive visit"
        if isinstance(e, (ast.ListComp, ast.GeneratorExp)):
            return visited(e.elt, depth + 1)
        if isinstance(e, (ast.List, ast.Tuple)):
            for x in e.elts:
                ok, why = visited(x, depth + 1)
                if not ok:
                    return False, why
            return True, ""
        if isinstance(e, ast.Name):
            if e.id in ("true", "false"):
                return True, ""
            if e.id in binds:
                return visited(binds[e.id], depth + 1)
            if e.id == param:
                return False, f"the node `{param}` itself is returned without descending into its arguments"
            return False, f"name `{e.id}` is not known to be visited"
        if isinstance(e, ast.Constant):
            return True, ""
        if isinstance(e, ast.IfExp):
            for x in (e.body, e.orelse):
                ok, why = visited(x, depth + 1)
                if not ok:
                    return False, why
            return True, ""
        return False, f"`{norm(e)}` is returned un-visited"

    for ri, r in enumerate(n for n in walk_no_nested(fi.node) if isinstance(n, ast.Return)):
        role = f"return#{ri}: {norm(r.value)[:70] if r.value else 'None'}"
        n_ob += 1
        if r.value is None:
            ctx.fail(rule, fi, role, "returns None", r)
            continue
        ok, why = visited(r.value)
        if ok and forbidden_ctor:
            # the outermost constructor of the result must not be the eliminated head unless re-visited
            for sub in ast.walk(r.value):
                if isinstance(sub, ast.Call) and head_name(sub.func) == forbidden_ctor:
                    # allowed only inside a recursive visit call
                    inside = False
                    for anc in ast.walk(r.value):
                        if isinstance(anc, ast.Call) and norm(anc.func) in recursive_names and any(s is sub for s in ast.walk(anc)):
                            inside = True
                    if not inside:
                        ok, why = False, f"result constructs `{forbidden_ctor}`, the head this pass must eliminate, outside a recursive visit"
        ctx.check(ok, rule, fi, role, "every sub-term goes through the recursive visit", why, r)
    if n_ob == 0:
        raise AnchorError(fi.short, "no return in normalising visitor")
    return n_ob
