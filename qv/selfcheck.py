"""Self-validation of the checker (thorough tier): mutation adequacy and benign twins.

Every seeded edit is computed on the syntax tree of the CURRENT /repo source (located by qualified
construct, never by line or text offset), written to a scratch copy under $TMPDIR, and the property's
check is re-run with QV_REPO pointing at the copy.  A seeded edit must add a finding (exit 1) in the
property it targets; a benign twin must add none and must not make the analysis undecided.  Scratch
copies are removed before returning, also on failure.  A self-check failure is an ANALYSIS-ERROR.
"""
from __future__ import annotations

import ast
import copy
import os
import shutil
import subprocess
import sys
import tempfile
from concurrent.futures import ThreadPoolExecutor
from typing import Callable, Dict, List, Optional, Tuple

from .core import AnchorError, norm, repo_root

HERE = os.path.dirname(os.path.dirname(os.path.abspath(__file__)))


# --------------------------------------------------------------------------------------------- AST edit helpers


def find_def(tree: ast.Module, path: str):
    """'Class.method.nested' -> node"""
    cur = tree
    for part in path.split("."):
        nxt = None
        for n in ast.walk(cur) if cur is tree else ast.iter_child_nodes(cur):
            pass
        body = cur.body
        stack = list(body)
        while stack:
            s = stack.pop(0)
            if isinstance(s, (ast.FunctionDef, ast.ClassDef)) and s.name == part:
                nxt = s
                break
            if isinstance(s, (ast.If, ast.Try, ast.For, ast.While, ast.With)):
                stack = list(getattr(s, "body", [])) + list(getattr(s, "orelse", [])) + stack
        if nxt is None:
            raise KeyError(path)
        cur = nxt
    return cur


class Rewrite(ast.NodeTransformer):
    def __init__(self, pred: Callable[[ast.AST], bool], repl: Callable[[ast.AST], object], limit: int = 1):
        self.pred, self.repl, self.limit, self.count = pred, repl, limit, 0

    def generic_visit(self, node):
        node = super().generic_visit(node)
        return node

    def visit(self, node):
        node = super().visit(node)
        if isinstance(node, ast.AST) and self.count < self.limit and self.pred(node):
            self.count += 1
            return self.repl(node)
        return node


def rewrite_in(tree: ast.Module, path: Optional[str], pred, repl, limit=1) -> int:
    target = find_def(tree, path) if path else tree
    rw = Rewrite(pred, repl, limit)
    new = rw.visit(target)
    return rw.count


def is_rev_slice(n) -> bool:
    return (
        isinstance(n, ast.Subscript)
        and isinstance(n.slice, ast.Slice)
        and n.slice.lower is None
        and n.slice.upper is None
        and isinstance(n.slice.step, ast.UnaryOp)
        and isinstance(n.slice.step.op, ast.USub)
    )


def call_named(n, name: str) -> bool:
    return isinstance(n, ast.Call) and norm(n.func).split(".")[-1] == name


def parse_expr(s: str):
    return ast.parse(s, mode="eval").body


def parse_stmt(s: str):
    return ast.parse(s).body[0]


# --------------------------------------------------------------------------------------------- catalogue

M = []  # (id, [props], relpath, description, edit(tree) -> int applied)


def mut(mid, props, rel, desc):
    def deco(fn):
        M.append((mid, props, rel, desc, fn))
        return fn
    return deco


def drop_rev(path, nth=0):
    def edit(tree):
        seen = [0]

        def pred(n):
            if is_rev_slice(n):
                seen[0] += 1
                return seen[0] - 1 == nth
            return False

        return rewrite_in(tree, path, pred, lambda n: n.value, limit=1)
    return edit


def replace_call_by_arg(path, fname):
    return lambda tree: rewrite_in(tree, path, lambda n: call_named(n, fname) and len(n.args) >= 1, lambda n: n.args[0])


def replace_expr(path, old_src, new_src, limit=1):
    old_n = norm(parse_expr(old_src))
    return lambda tree: rewrite_in(tree, path, lambda n: isinstance(n, ast.expr) and norm(n) == old_n, lambda n: parse_expr(new_src), limit)


def replace_stmt(path, old_src, new_src):
    old_n = norm(parse_stmt(old_src))

    def edit(tree):
        return rewrite_in(tree, path, lambda n: isinstance(n, ast.stmt) and norm(n) == old_n, lambda n: parse_stmt(new_src) if new_src else ast.Pass())
    return edit


# ---- A1 effects
mut("fx-copy-alias", ["C14", "C10"], "qlasskit/qcircuit/qcircuit.py", "vanilla copy shares the gate list")(replace_expr("QCircuit.copy", "copy.deepcopy(self.gates)", "self.gates"))
mut("fx-add-inplace", ["C14", "C10"], "qlasskit/qcircuit/qcircuit.py", "__add__ works on self instead of a copy")(replace_expr("QCircuit.__add__", "copy.deepcopy(self)", "self"))
mut("fx-bind-nocopy", ["C08", "C10"], "qlasskit/qlassfun.py", "bind edits the stored tree")(replace_expr("UnboundQlassf.bind", "copy.deepcopy(self.fun_ast)", "self.fun_ast"))
mut("fx-decopt-inplace", ["C12", "C10"], "qlasskit/decompiler/decopt.py", "optimizer splices into its argument")(lambda t: replace_stmt("circuit_boolean_optimizer", "qc = qc.copy(True)", "")(t) and replace_expr("circuit_boolean_optimizer", "qc.copy(True)", "qc")(t))
mut("fx-default-stored", ["C10"], "qlasskit/decompiler/decompiler.py", "mutable default stored in the object")(replace_stmt("DecompilerResults.__init__", "self.sections: List[DecompiledSection] = []", "self.sections: List[DecompiledSection] = sections"))
mut("fx-grover-nocopy", ["C15", "C10"], "qlasskit/algorithms/grover.py", "Grover edits the oracle's own circuit")(replace_expr("Grover.__init__", "self.oracle.circuit().copy()", "self.oracle.circuit()"))
mut("fx-format-inplace", ["C05", "C10"], "qlasskit/types/__init__.py", "format_outcome extends its argument")(replace_stmt("format_outcome", "out = out + [False] * (out_len - len(out))", "out += [False] * (out_len - len(out))"))
mut("fx-bindfun-inplace", ["C07", "C10"], "qlasskit/ast2logic/env.py", "bind_function renames the given Arg objects")(
    lambda t: rewrite_in(t, "Env.bind_function.arg_rename", lambda n: isinstance(n, ast.Return), lambda n: [parse_stmt("a.name = f'{deff[0]}_{a.name}'"), parse_stmt("return a")])
)

mut("fx-rebind-inplace", ["C05", "C10"], "qlasskit/ast2logic/env.py", "rebind updates the shared Arg object instead of replacing it")(
    replace_stmt("Env.bind", "self.bindings.remove(self[bb.name])", "self[bb.name].bitvec = bb.bitvec")
)

@mut("fx-module-cache", ["C09", "C10"], "qlasskit/types/__init__.py", "constant inference memoised in a module-level dict")
def _m_cache(tree):
    fn = find_def(tree, "const_to_qtype")
    idx = tree.body.index(fn)
    tree.body.insert(idx, parse_stmt("_CACHE = {}"))
    fn.body.insert(0, ast.parse("if value in _CACHE:\n    return _CACHE[value]").body[0])
    n = rewrite_in(tree, "const_to_qtype", lambda x: isinstance(x, ast.Return) and norm(x.value) == "det_type.const(value)", lambda x: [parse_stmt("_CACHE[value] = det_type.const(value)"), parse_stmt("return _CACHE[value]")])
    return n


# ---- A2 orientation
mut("or-qint-tobool", ["C09"], "qlasskit/types/qint.py", "QintImp.to_bool not reversed")(drop_rev("QintImp.to_bool"))
mut("or-qint-frombool", ["C09"], "qlasskit/types/qint.py", "QintImp.from_bool not reversed")(drop_rev("QintImp.from_bool"))
mut("or-qint-const", ["C09"], "qlasskit/types/qint.py", "QintImp.const not reversed")(drop_rev("QintImp.const"))
mut("or-qchar-frombool", ["C09"], "qlasskit/types/qchar.py", "Qchar.from_bool not reversed")(drop_rev("Qchar.from_bool"))
mut("or-qfixed-repr", ["C09"], "qlasskit/types/qfixed.py", "_to_qint_repr fraction not reversed")(drop_rev("QfixedImp._to_qint_repr"))
mut("or-qfixed-tobool", ["C09"], "qlasskit/types/qfixed.py", "Qfixed.to_bool reversed before stripping the prefix")(
    replace_expr("QfixedImp.to_bool", "bin_to_bool_list(bin(int(self.value) % 2 ** self.BIT_SIZE_INTEGER), self.BIT_SIZE_INTEGER)[::-1]", "bin_to_bool_list(bin(int(self.value) % 2 ** self.BIT_SIZE_INTEGER)[::-1], self.BIT_SIZE_INTEGER)")
)
mut("or-encode", ["C05"], "qlasskit/qlassfun.py", "encode_input not reversed")(drop_rev("QlassF.encode_input"))
mut("or-interpret", ["C05", "C09"], "qlasskit/types/__init__.py", "interpret_as_qtype not reversed")(replace_call_by_arg("interpret_as_qtype", "reversed"))
mut("or-decode-samples", ["C18"], "qlasskit/bqm.py", "decode_samples not reversed")(drop_rev("decode_samples"))
mut("or-fill-front", ["C01", "C09"], "qlasskit/types/qtype.py", "fill pads at the front")(replace_expr("Qtype.fill", "v[1] + (cls.BIT_SIZE - len(v[1])) * [False]", "(cls.BIT_SIZE - len(v[1])) * [False] + v[1]"))
mut("or-b2l-endpad", ["C09"], "qlasskit/types/qtype.py", "bin_to_bool_list pads at the end")(replace_expr("bin_to_bool_list", "[False] * (bit_size - len(s)) + s", "s + [False] * (bit_size - len(s))"))
mut("or-getsize-flat", ["C05", "C09"], "qlasskit/types/__init__.py", "_getsize does not recurse")(replace_expr("interpret_as_qtype._getsize", "_getsize(x)", "getattr(x, 'BIT_SIZE', 1)"))

# ---- A3 rewriting
mut("rw-obvious-arity", ["C04"], "qlasskit/boolopt/exp_transformers.py", "x & ~x rule without arity guard")(
    lambda t: rewrite_in(t, "remove_obvious_expr.visit_And", lambda n: isinstance(n, ast.BoolOp) and isinstance(n.op, ast.And) and norm(n.values[0]) == "len(expr.args) == 2", lambda n: n.values[1] if len(n.values) == 2 else ast.BoolOp(op=ast.And(), values=n.values[1:]))
)
mut("rw-or2and-nodescend", ["C02", "C04"], "qlasskit/boolopt/exp_transformers.py", "binary Or returned un-descended")(replace_expr("transform_or2and.visit_Or", "super().visit_Or(expr)", "expr"))
mut("rw-rebuild-head", ["C04"], "qlasskit/boolopt/sympytransformer.py", "Or rebuilt as And")(replace_expr("SympyTransformer.visit_Or", "Or(*[self.visit(a) for a in e.args])", "And(*[self.visit(a) for a in e.args])"))
mut("rw-cse-drop", ["C04"], "qlasskit/boolopt/bool_optimizer.py", "CSE definitions dropped")(replace_expr("apply_cse", "repl + list(zip(lsts[0], red))", "list(zip(lsts[0], red))"))
mut("rw-ite-swap", ["C04"], "qlasskit/boolopt/exp_transformers.py", "ITE branches swapped")(
    lambda t: replace_expr("remove_ITE.visit_ITE", "And(c, self.visit(expr.args[1]))", "And(c, self.visit(expr.args[2]))")(t) and replace_expr("remove_ITE.visit_ITE", "And(Not(c), self.visit(expr.args[2]))", "And(Not(c), self.visit(expr.args[1]))")(t)
)
mut("rw-demorgan-not", ["C04"], "qlasskit/boolopt/exp_transformers.py", "De Morgan without the inner negation")(replace_expr("transform_or2and.visit_Or", "Not(self.visit(e))", "self.visit(e)"))
mut("rw-or2xor-arity", ["C04"], "qlasskit/boolopt/exp_transformers.py", "xnor pattern without arity guards")(
    lambda t: rewrite_in(t, "transform_or2xor.visit_Or", lambda n: isinstance(n, ast.BoolOp) and isinstance(n.op, ast.And) and any(norm(v) == "len(expr.args[0].args) == 2" for v in n.values), lambda n: ast.BoolOp(op=ast.And(), values=[v for v in n.values if not norm(v).startswith("len(expr.args[")]))
)
mut("rw-merge-subs", ["C04"], "qlasskit/boolopt/bool_optimizer.py", "inlining by sequential subs")(replace_expr("merge_expressions", "e.xreplace(emap)", "e.subs(emap)"))
mut("rw-callsite-subs", ["C07"], "qlasskit/ast2logic/t_expression.py", "call-site binding by sequential subs")(replace_expr("translate_expression", "e.xreplace(subs)", "e.subs(subs)"))
mut("rw-bind-subs", ["C07"], "qlasskit/ast2logic/env.py", "callee inlining by sequential subs")(replace_expr("Env.bind_function", "e.xreplace(d_exp)", "e.subs(d_exp)"))


@mut("rw-profile-noite", ["C04", "C02"], "qlasskit/boolopt/bool_optimizer.py", "fastOptimizer without remove_ITE")
def _m_noite(tree):
    for s in tree.body:
        if isinstance(s, ast.Assign) and norm(s.targets[0]) == "fastOptimizer":
            lst = s.value.args[0]
            before = len(lst.elts)
            lst.elts = [e for e in lst.elts if norm(e) != "remove_ITE()"]
            return before - len(lst.elts)
    return 0


@mut("rw-profile-order", ["C04", "C02"], "qlasskit/boolopt/bool_optimizer.py", "transform_or2and before remove_ITE")
def _m_order(tree):
    for s in tree.body:
        if isinstance(s, ast.Assign) and norm(s.targets[0]) == "defaultOptimizer":
            lst = s.value.args[0]
            names = [norm(e) for e in lst.elts]
            i, j = names.index("remove_ITE()"), names.index("transform_or2and()")
            lst.elts[i], lst.elts[j] = lst.elts[j], lst.elts[i]
            return 1
    return 0


# ---- A4 dispatch / tables
mut("dp-te-else", ["C01"], "qlasskit/ast2logic/t_expression.py", "unknown expressions returned instead of rejected")(
    lambda t: rewrite_in(t, "translate_expression", lambda n: isinstance(n, ast.Raise) and norm(n) == "raise exceptions.ExpressionNotHandledException(expr)" , lambda n: parse_stmt("return (bool, expr)"), limit=99)
)
mut("dp-fold-op", ["C01"], "qlasskit/ast2ast/constantfolder.py", "ast.Add folded with operator.sub")(
    lambda t: rewrite_in(t, "ConstantFolder.visit_BinOp", lambda n: isinstance(n, ast.Attribute) and norm(n) == "operator.add", lambda n: parse_expr("operator.sub"))
)
mut("dp-cmp-table", ["C01"], "qlasskit/ast2logic/t_expression.py", "(ast.Lt, 'lte')")(
    lambda t: rewrite_in(t, "translate_expression", lambda n: isinstance(n, ast.Tuple) and norm(n) == "(ast.Lt, 'lt')", lambda n: parse_expr("(ast.Lt, 'lte')"))
)
mut("dp-any-and", ["C01"], "qlasskit/ast2ast/astrewriter.py", "any expanded with and")(
    lambda t: rewrite_in(t, "ASTRewriter", lambda n: isinstance(n, ast.IfExp) and norm(n.test) == "node.func.id == 'any'", lambda n: parse_expr("ast.And() if node.func.id == 'any' else ast.Or()"))
)
mut("dp-for-else", ["C01"], "qlasskit/ast2ast/astrewriter.py", "for ... else silently dropped")(
    lambda t: rewrite_in(t, "ASTRewriter.visit_For", lambda n: isinstance(n, ast.If) and norm(n.test) == "node.orelse", lambda n: ast.Pass())
)
mut("dp-dec-cx", ["C11"], "qlasskit/decompiler/decompiler.py", "decompiler without a CX rule")(
    lambda t: rewrite_in(t, "Decompiler", lambda n: isinstance(n, ast.If) and norm(n.test) == "isinstance(g, gates.CX)", lambda n: n.orelse[0])
)
mut("dp-dec-overwrite", ["C11"], "qlasskit/decompiler/decompiler.py", "CX overwrites instead of xor-accumulating")(
    lambda t: rewrite_in(t, "Decompiler", lambda n: isinstance(n, ast.Call) and norm(n) == "Xor(exps[wn[0]], exps[wn[1]])", lambda n: parse_expr("exps[wn[0]]"))
)
mut("dp-dec-entry", ["C11"], "qlasskit/decompiler/decompiler.py", "CX reads the entry symbol of its control")(
    lambda t: rewrite_in(t, "Decompiler", lambda n: isinstance(n, ast.Call) and norm(n) == "Xor(exps[wn[0]], exps[wn[1]])", lambda n: parse_expr("Xor(wn[0], exps[wn[1]])"))
)
mut("dp-sympy-cnot", ["C13"], "qlasskit/qcircuit/exporter_sympy.py", "CNOT(w[1], w[0])")(replace_expr("SympyExporter.export", "CNOT(w[0], w[1])", "CNOT(w[1], w[0])"))
mut("dp-qiskit-rev", ["C13"], "qlasskit/qcircuit/exporter_qiskit.py", "gates exported in reverse")(replace_expr("QiskitExporter.export", "_selfqc.gates", "reversed(_selfqc.gates)"))
mut("dp-cirq-computed", ["C13"], "qlasskit/qcircuit/exporter_cirq.py", "cirq exporter walks gates_computed")(replace_expr("CirqExporter.export", "_selfqc.gates", "_selfqc.gates_computed"))
mut("dp-qasm-formals", ["C13"], "qlasskit/qcircuit/exporter_qasm.py", "QASM formals from the name map")(
    lambda t: rewrite_in(t, "QasmExporter.export_v3", lambda n: isinstance(n, ast.GeneratorExp) and "get_key_by_index(i)" in norm(n), lambda n: parse_expr("_selfqc.qubit_map.keys()")) and rewrite_in(t, "QasmExporter.export_v2", lambda n: isinstance(n, ast.GeneratorExp) and "get_key_by_index(i)" in norm(n), lambda n: parse_expr("_selfqc.qubit_map.keys()"))
)
mut("dp-compile-else", ["C02"], "qlasskit/compiler/internalcompiler.py", "unknown heads compiled to qubit 0")(replace_stmt("InternalCompiler.compile_expr", "raise CompilerException(expr)", "return 0"))

# ---- A5 paths
mut("mp-unc-forward", ["C03"], "qlasskit/qcircuit/qcircuitenhanced.py", "uncompute replays forward")(replace_call_by_arg("QCircuitEnhanced.uncompute", "reversed"))
mut("mp-uncall-forward", ["C03", "C06"], "qlasskit/qcircuit/qcircuitenhanced.py", "uncompute_all replays forward")(replace_call_by_arg("QCircuitEnhanced.uncompute_all", "reversed"))
mut("mp-splice-forward", ["C12"], "qlasskit/decompiler/decopt.py", "sections spliced front to back")(replace_call_by_arg("circuit_boolean_optimizer", "reversed"))
mut("mp-nokeep", ["C03", "C06"], "qlasskit/compiler/internalcompiler.py", "final replay without keep")(replace_expr("InternalCompiler.compile", "qc.uncompute_all(keep=keep)", "qc.uncompute_all()"))
mut("mp-keep-inputs", ["C03", "C06"], "qlasskit/compiler/internalcompiler.py", "keep resolved from input names too")(
    replace_expr("InternalCompiler.compile", "[qc[r] for r in filter(lambda r: r in qc, returns.bitvec)]", "[qc[r] for r in filter(lambda r: r in qc, self.input_symbols + returns.bitvec)]")
)
mut("mp-cache-stale", ["C02"], "qlasskit/compiler/internalcompiler.py", "uncomputed qubits stay in the expression cache")(replace_expr("InternalCompiler.compile", "self.expqmap.remove(qc.uncompute())", "qc.uncompute()"))
mut("mp-nosymreg", ["C02"], "qlasskit/compiler/internalcompiler.py", "result qubit not registered for its symbol")(replace_stmt("InternalCompiler.compile", "self.expqmap[sym] = iret", ""))
mut("mp-splice-unguarded", ["C12"], "qlasskit/decompiler/decopt.py", "splice without the size/qubit guards")(
    lambda t: rewrite_in(t, "circuit_boolean_optimizer", lambda n: isinstance(n, ast.If) and "len(qc_sec.gates) > len(section.gates)" in norm(n.test), lambda n: ast.Pass())
)
mut("mp-bind-append", ["C08"], "qlasskit/qlassfun.py", "injected assignments appended after the body")(replace_expr("UnboundQlassf.bind", "new_body + fun_ast.body[0].body", "fun_ast.body[0].body + new_body"))
mut("mp-symbols-sorted", ["C12"], "qlasskit/decompiler/decopt.py", "re-synthesis symbols sorted by name")(replace_expr("circuit_boolean_optimizer", "list(qc.qubit_map.keys())", "sorted(qc.qubit_map.keys())"))
mut("mp-append-noremap", ["C14"], "qlasskit/qcircuit/qcircuit.py", "appended gates keep their own wires")(replace_expr("QCircuit.append_circuit", "ogates.append((g, wn, p))", "ogates.append((g, w, p))"))
mut("mp-outq-rev", ["C05"], "qlasskit/qlassfun.py", "output qubits in reverse bit order")(replace_expr("QlassF.output_qubits", "self.returns.bitvec", "reversed(self.returns.bitvec)"))
mut("mp-dest-control", ["C02", "C06"], "qlasskit/compiler/internalcompiler.py", "destination not removed from its own controls")(
    lambda t: rewrite_in(t, "InternalCompiler.compile_and", lambda n: isinstance(n, ast.If) and norm(n.test) == "dest in erets", lambda n: ast.Pass())
)
mut("mp-cachehit-nodest", ["C02"], "qlasskit/compiler/internalcompiler.py", "cache hit ignores the destination")(
    lambda t: rewrite_in(t, "InternalCompiler.compile_expr", lambda n: isinstance(n, ast.If) and "dest is None or dest ==" in norm(n.test), lambda n: n.body[0])
)
mut("mp-if-reread", ["C01"], "qlasskit/ast2ast/astrewriter.py", "if-rewrite tests the variable again instead of the stored condition")(
    lambda t: rewrite_in(t, "ASTRewriter.visit_If", lambda n: isinstance(n, ast.keyword) and n.arg == "test" and norm(n.value) == "ast.Name(id=test_name)", lambda n: ast.keyword(arg="test", value=parse_expr("node.test")), limit=1)
)
mut("mp-dimacs-dedup", ["C17"], "qlasskit/tools/py2bexp.py", "clauses de-duplicated by variable set")(
    lambda t: rewrite_in(t, "convert_to_dimacs", lambda n: isinstance(n, ast.Assign) and norm(n.targets[0]) == "num_vars", lambda n: [parse_stmt("dimacs_clauses = [next(g) for _, g in __import__('itertools').groupby(dimacs_clauses, key=lambda c: [abs(x) for x in c])]"), n])
)
mut("mp-bexp-noinline", ["C17"], "qlasskit/tools/py2bexp.py", "py2bexp combines un-inlined definitions")(replace_expr("convert_to_bool_expression", "merge_expressions(qlassf.expressions)", "qlassf.expressions"))
mut("mp-bqm-noinline", ["C18"], "qlasskit/bqm.py", "to_bqm without inlining")(replace_stmt("to_bqm", "exprs = merge_expressions(exprs)", ""))
mut("mp-bqm-drop", ["C18"], "qlasskit/bqm.py", "And fold skips an operand")(replace_expr("SympyToBQM.visit", "And(*e.args[1:])", "And(*e.args[2:])"))

# ---- A6 typestate
mut("ts-dj-nox", ["C16"], "qlasskit/algorithms/deutschjozsa.py", "DJ output qubit not flipped")(replace_stmt("DeutschJozsa.__init__", "self._qcircuit.x(self._f_circuit['_ret'])", ""))
mut("ts-bv-zh", ["C16"], "qlasskit/algorithms/bernsteinvazirani.py", "BV prepares z then h")(
    lambda t: replace_stmt("BernsteinVazirani.__init__", "self._qcircuit.h(self._f_circuit['_ret'])", "self._qcircuit.y(self._f_circuit['_ret'])")(t)
)
mut("ts-simon-noclose", ["C16"], "qlasskit/algorithms/simon.py", "Simon without the closing Hadamards")(
    lambda t: rewrite_in(t, "Simon.__init__", lambda n: isinstance(n, ast.For) and n.lineno > 40 and "self._qcircuit.h(i)" in norm(n), lambda n: ast.Pass())
)
mut("ts-grover-nophase", ["C15"], "qlasskit/algorithms/grover.py", "phase qubit not prepared")(replace_stmt("Grover.__init__", "self._qcircuit.h(oracle_qc['_ret_phased'])", ""))
mut("ts-grover-diffret", ["C15"], "qlasskit/algorithms/grover.py", "diffuser acts on the result qubit")(replace_expr("Grover.__init__", "diffuser_qc.mctrl(gates.Z(), list(range(self.search_space_size)), oracle_qc['_ret_phased'])", "diffuser_qc.mctrl(gates.Z(), list(range(self.search_space_size)), oracle_qc['_ret'])"))
mut("ts-dec-nosentinel", ["C11"], "qlasskit/decompiler/decompiler.py", "last section never flushed")(replace_expr("Decompiler.decompile", "qc.gates + [(None, [0], None)]", "qc.gates"))

# ---- A7 siblings
mut("sb-lte", ["C01"], "qlasskit/types/qint.py", "lte = not lt")(replace_expr("QintImp.lte", "Not(QintImp.gt(tleft, tcomp)[1])", "Not(QintImp.lt(tleft, tcomp)[1])"))
mut("sb-lt-noeq", ["C01"], "qlasskit/types/qint.py", "lt without the eq conjunct")(replace_expr("QintImp.lt", "And(Not(QintImp.gt(tleft, tcomp)[1]), Not(QintImp.eq(tleft, tcomp)[1]))", "Not(QintImp.gt(tleft, tcomp)[1])"))
mut("sb-fold-id", ["C01"], "qlasskit/types/qint.py", "eq folded from false")(replace_stmt("QintImp.eq", "ex = true", "ex = false"))
mut("sb-widen-recv", ["C01"], "qlasskit/types/qint.py", "narrower operand filled with its own type")(replace_expr("QintImp.add", "tleft_e[0].fill(tright_e)", "tright_e[0].fill(tright_e)"))
mut("sb-gt-mirror", ["C01"], "qlasskit/types/qint.py", "gt treats right excess like left excess")(
    lambda t: rewrite_in(t, "QintImp.gt", lambda n: isinstance(n, ast.Call) and norm(n) == "And(ex, Not(x))", lambda n: parse_expr("Or(ex, x)"))
)
mut("sb-const", ["C09"], "qlasskit/types/qint.py", "Qint4.BIT_SIZE = 5")(replace_stmt("Qint4", "BIT_SIZE = 4", "BIT_SIZE = 5"))
mut("sb-iqft-angle", ["C14"], "qlasskit/qcircuit/qcircuit.py", "iqft angle not negated")(replace_expr("QCircuit.iqft", "-2 * math.pi / 2 ** (j - i + 1)", "2 * math.pi / 2 ** (j - i + 1)"))
mut("sb-full-adder", ["C01"], "qlasskit/types/__init__.py", "full adder carry drops a term")(replace_expr("_full_adder", "a & b ^ (a ^ b) & c", "a & b ^ a & c"))
mut("sb-aug-swap", ["C01"], "qlasskit/ast2ast/astrewriter.py", "a op= b expanded as b op a")(replace_expr("ASTRewriter.visit_AugAssign", "ast.BinOp(left=node.target, op=node.op, right=node.value)", "ast.BinOp(left=node.value, op=node.op, right=node.target)"))

# ---- rules added after seeding round b
mut("dp-stale-copy", ["C01"], "qlasskit/ast2ast/env.py", "copy_type keeps a stale constant")(replace_stmt("Environment.copy_type", "self.constants.pop(dest, None)", ""))
mut("dp-stale-wrap", ["C01"], "qlasskit/ast2ast/astrewriter.py", "recorded scalar spliced in as a literal")(replace_stmt("ASTRewriter.visit_Subscript", "node.slice = self.env.get_constant(node.slice.id)", "node.slice = ast.Constant(value=self.env.get_constant(node.slice.id))"))
mut("ts-inplace-not", ["C03"], "qlasskit/compiler/internalcompiler.py", "negation in place of a non-ancilla qubit")(replace_expr("InternalCompiler.compile_not", "eret in qc.ancilla_lst", "eret >= len(self.input_symbols)"))
mut("ts-prep-subset", ["C16"], "qlasskit/algorithms/deutschjozsa.py", "closing Hadamards on a filtered subset")(
    lambda t: rewrite_in(t, "DeutschJozsa.__init__", lambda n: isinstance(n, ast.For) and n.lineno > 50 and "self._qcircuit.h(i)" in norm(n), lambda n: parse_stmt("for i in [k for k in range(self.search_space_size) if k in self._f_circuit.used_qubits]:\n    self._qcircuit.h(i)"))
)
mut("memo-key-decopt", ["C12"], "qlasskit/decompiler/decopt.py", "re-synthesis memoised under a partial key")(
    lambda t: rewrite_in(t, "circuit_boolean_optimizer", lambda n: isinstance(n, ast.Assign) and norm(n.targets[0]) == "qc_sec", lambda n: [parse_stmt("qc_sec = _memo.get((compiler, tuple(section.expressions)))"), parse_stmt("if qc_sec is None:\n    qc_sec = exprs_to_quantum(exprs=n_exps, symbols=symbols, compiler=compiler)\n    _memo[compiler, tuple(section.expressions)] = qc_sec")])
    and (t.body.insert(len([x for x in t.body if isinstance(x, (ast.Import, ast.ImportFrom, ast.Expr))]), parse_stmt("_memo = {}")) or 1)
)
mut("sb-pow-count", ["C01"], "qlasskit/ast2ast/astrewriter.py", "a ** n unrolled into n+1 factors")(replace_expr("ASTRewriter.visit_BinOp", "range(node.right.value - 1)", "range(node.right.value)"))
mut("sb-minmax-first", ["C01"], "qlasskit/ast2ast/astrewriter.py", "min/max compares the other element with itself")(replace_expr("ASTRewriter.__call_minmax", "ast.Compare(left=arg_l[0], ops=[op], comparators=[l_it])", "ast.Compare(left=l_it, ops=[op], comparators=[arg_l[0]])"))
mut("sb-lookup-offset", ["C01"], "qlasskit/ast2ast/astrewriter.py", "constant-list lookup compares with the wrong position")(replace_expr("ASTRewriter.visit_Subscript", "ast.Constant(value=i + 1)", "ast.Constant(value=i)"))
mut("sb-ifexp-index", ["C01"], "qlasskit/ast2ast/astrewriter.py", "variable index chain selects the next element")(replace_expr("create_if_exp", "_create_if_exp(i + 1)", "_create_if_exp(i + 2)"))
mut("sb-multitarget", ["C01"], "qlasskit/ast2ast/replacemultitargetassign.py", "a, b = t assigns element 0 to every target")(replace_expr("ReplaceMultiTargetAssign.visit_Assign", "ast.Subscript(value=node.value, slice=ast.Constant(value=i))", "ast.Subscript(value=node.value, slice=ast.Constant(value=0))"))
mut("sb-ripple-carry", ["C01"], "qlasskit/types/qint.py", "adder step ignores the incoming carry")(replace_expr("QintImp.add", "_full_adder(carry, x[0], x[1])", "_full_adder(False, x[0], x[1])"))
mut("sb-cf-swap", ["C01"], "qlasskit/ast2ast/constantfolder.py", "constant folder applies op(right, left)")(replace_expr("ConstantFolder.visit_BinOp", "op(node.left.value, node.right.value)", "op(node.right.value, node.left.value)"))
mut("mp-addqubit-index", ["C05"], "qlasskit/qcircuit/qcircuit.py", "add_qubit records the index after the increment")(
    lambda t: rewrite_in(t, "QCircuit.add_qubit", lambda n: isinstance(n, ast.Assign) and norm(n.targets[0]) == "self.qubit_map[name]", lambda n: ast.Pass())
    and rewrite_in(t, "QCircuit.add_qubit", lambda n: isinstance(n, ast.AugAssign) and norm(n.target) == "self.num_qubits", lambda n: [n, parse_stmt("self.qubit_map[name] = self.num_qubits")])
)

# ---- rules added after seeding round h
mut("h-name-lossy", ["C13"], "qlasskit/qcircuit/exporter_qasm.py", "qubit names rewritten with a lossy string operation before printing")(
    replace_expr(None, "_selfqc.get_key_by_index(i)", "_selfqc.get_key_by_index(i).replace('.', '_')", limit=99)
)
mut("h-round-coarse", ["C09"], "qlasskit/types/qfixed.py", "fixed-point encoder rounds to fewer decimals than the finest fractional bit needs")(
    replace_stmt("QfixedImp.to_bool", "c_val = self.value", "c_val = round(self.value, 4)")
)
mut("h-xor-neg-dropped", ["C02"], "qlasskit/compiler/internalcompiler.py", "negation stripped from a Xor operand and never re-applied")(
    replace_stmt("InternalCompiler.compile_xor", "qc.x(d)", "")
)
mut("h-dest-rebound", ["C06", "C03"], "qlasskit/compiler/internalcompiler.py", "Xor accumulates onto the qubit of one of its own terms")(
    lambda t: rewrite_in(t, "InternalCompiler.compile_xor", lambda n: isinstance(n, ast.Assign) and norm(n.targets[0]) == "d" and "get_free_ancilla" in norm(n.value), lambda n: [parse_stmt("dest = qc[expr.args[0]] if dest is None else dest"), n])
)
mut("h-count-index", ["C14"], "qlasskit/qcircuit/qcircuit.py", "gate list trimmed at a position computed from num_gates")(
    lambda t: rewrite_in(t, "QCircuit.repeat", lambda n: isinstance(n, ast.Return), lambda n: [parse_stmt("del n_qc.gates[n * self.num_gates:]"), n])
)
mut("h-subs-seq", ["C11"], "qlasskit/decompiler/decompiler.py", "control conjunction brought up to date with a sequential subs()")(
    replace_expr("Decompiler.__exps_of_section", "And(*[exps[ww] for ww in wn[0:-1]])", "And(*wn[0:-1]).subs({ww: exps[ww] for ww in wn[0:-1]})")
)
mut("h-involution", ["C14", "C12"], "qlasskit/qcircuit/qcircuitenhanced.py", "peephole drops an entry admitted through the controlled-gate base class")(
    replace_expr("QCircuitEnhanced.remove_identities", "isinstance(result[-1][0], gates.Barrier)", "isinstance(result[-1][0], gates.QControlledGate)", limit=99)
)
mut("h-precedence", ["C07"], "qlasskit/ast2logic/env.py", "initial bindings shadow later definitions while the callee is compressed")(
    replace_expr("Env.bind_function", "e.xreplace(d_exp)", "e.xreplace({x: initial[x] if x in initial else d_exp[x] for x in e.free_symbols})")
)


@mut("h-len-truthy", ["C17"], "qlasskit/qcircuit/qcircuitwrapper.py", "the wrapper class gets a __len__, so `if qlassf:` depends on the gate count")
def _m_len(tree):
    c = find_def(tree, "QCircuitWrapper")
    c.body.append(parse_stmt("def __len__(self):\n    return self.num_gates"))
    return 1


@mut("h-liveness", ["C04"], "qlasskit/boolopt/bool_optimizer.py", "dead-definition removal kills the defined symbol after adding its uses")
def _m_live(tree):
    fn = parse_stmt("def remove_unused(exps):\n    out = []\n    live = set()\n    for s, e in reversed(exps):\n        if s.name[0:4] == '_ret' or s in live:\n            live = (live | e.free_symbols) - {s}\n            out.append((s, e))\n    return out[::-1]")
    for i, st in enumerate(tree.body):
        if isinstance(st, ast.Assign) and norm(st.targets[0]) == "fastOptimizer":
            st.value.args[0].elts.insert(0, ast.Name(id="remove_unused", ctx=ast.Load()))
            tree.body.insert(i, fn)
            return 1
    return 0


@mut("h-loop-once", ["C06", "C02"], "qlasskit/compiler/internalcompiler.py", "input test moved to a helper whose loop returns in its first iteration")
def _m_loop_once(tree):
    c = find_def(tree, "InternalCompiler")
    c.body.insert(0, parse_stmt("def is_input_symbol(self, symbol):\n    for name in self.input_symbols:\n        if symbol.name == name:\n            return True\n        return False"))
    return rewrite_in(tree, "InternalCompiler.compile_symbol", lambda n: isinstance(n, ast.Compare) and norm(n) == "expr.name in self.input_symbols", lambda n: parse_expr("self.is_input_symbol(expr)"))


# ---- rules added after seeding round j
mut("j-latest-def", ["C07", "C01"], "qlasskit/ast2logic/env.py", "a second definition of a known function name is silently dropped")(
    replace_expr("Env.bind_function", "self.know_type(deff[0])", "self.know_function(deff[0])")
)
mut("j-ret-order", ["C07"], "qlasskit/qlassfun.py", "callee expressions handed over sorted by symbol name")(
    replace_expr("QlassF.to_logicfun", "self.expressions", "sorted(self.expressions, key=lambda e: e[0].name)")
)
mut("j-threshold-raw", ["C16", "C05"], "qlasskit/qcircuit/qcircuitwrapper.py", "discard_lower applied to the raw readings")(
    replace_expr("QCircuitWrapper.decode_counts", "int_counts.items()", "counts.items()")
)
mut("j-output-message", ["C17"], "qlasskit/tools/py2bexp.py", "a fixed message is written into the output file")(
    lambda t: rewrite_in(t, "output_result", lambda n: isinstance(n, ast.Expr) and norm(n) == "file.write(str(result))", lambda n: [parse_stmt("print('Warning: converted to CNF', file=file)"), n])
)
mut("j-rebuild-empty", ["C03"], "qlasskit/qcircuit/qcircuitenhanced.py", "gates_computed emptied after the per-expression pass")(
    replace_stmt("QCircuitEnhanced.uncompute", "self.gates_computed = new_gates_comp[::-1]", "self.gates_computed = []")
)


@mut("j-module-state", ["C13"], "qlasskit/qcircuit/qcircuit.py", "exporter instances cached in a module-level registry")
def _m_modstate(tree):
    idx = len([x for x in tree.body if isinstance(x, (ast.Import, ast.ImportFrom, ast.Expr))])
    tree.body.insert(idx, parse_stmt("_exporters = {}"))
    fn = find_def(tree, "QCircuit.export")
    k = 1 if (fn.body and isinstance(fn.body[0], ast.Expr) and isinstance(fn.body[0].value, ast.Constant)) else 0
    fn.body.insert(k, parse_stmt("_exporters[framework] = _exporters.get(framework, 0) + 1"))
    return 1


# ---- benign twins: (id, description, edit(root_dir) -> None)
B = []


def twin(bid, desc):
    def deco(fn):
        B.append((bid, desc, fn))
        return fn
    return deco


def _all_py(root):
    for dp, dn, fn in os.walk(os.path.join(root, "qlasskit")):
        for f in fn:
            if f.endswith(".py"):
                yield os.path.join(dp, f)


@twin("b-unparse", "whole-repo ast.unparse round trip (formatting, comments and line numbers change)")
def _b_unparse(root):
    for p in _all_py(root):
        src = open(p).read()
        open(p, "w").write(ast.unparse(ast.parse(src)) + "\n")


@twin("b-logging", "a logging call inserted at the top of every function")
def _b_logging(root):
    for p in _all_py(root):
        tree = ast.parse(open(p).read())
        for n in ast.walk(tree):
            if isinstance(n, ast.FunctionDef) and not any(norm(d).endswith("property") for d in n.decorator_list):
                ins = 1 if (n.body and isinstance(n.body[0], ast.Expr) and isinstance(n.body[0].value, ast.Constant)) else 0
                n.body.insert(ins, parse_stmt(f"_ = None  # trace {n.name}"))
        open(p, "w").write(ast.unparse(tree) + "\n")


@twin("b-docstrings", "docstrings added to functions that have none, blank module docstrings")
def _b_doc(root):
    for p in _all_py(root):
        tree = ast.parse(open(p).read())
        for n in ast.walk(tree):
            if isinstance(n, ast.FunctionDef) and not (n.body and isinstance(n.body[0], ast.Expr) and isinstance(n.body[0].value, ast.Constant)):
                n.body.insert(0, ast.Expr(value=ast.Constant(value=f"{n.name}: documented")))
        open(p, "w").write(ast.unparse(tree) + "\n")


@twin("b-dj-hz", "Deutsch-Jozsa prepares the output qubit with h;z instead of x;h")
def _b_dj(root):
    p = os.path.join(root, "qlasskit/algorithms/deutschjozsa.py")
    tree = ast.parse(open(p).read())
    a = replace_stmt("DeutschJozsa.__init__", "self._qcircuit.x(self._f_circuit['_ret'])", "self._qcircuit.h(self._f_circuit['_ret'])")(tree)
    fn = find_def(tree, "DeutschJozsa.__init__")
    hs = [s for s in fn.body if norm(s) == "self._qcircuit.h(self._f_circuit['_ret'])"]
    hs[1].value.func.attr = "z"
    open(p, "w").write(ast.unparse(tree) + "\n")


@twin("b-reversed-call", "x[::-1] written as list(reversed(x)) in the Qint codecs")
def _b_rev(root):
    p = os.path.join(root, "qlasskit/types/qint.py")
    tree = ast.parse(open(p).read())
    for path in ("QintImp.from_bool", "QintImp.to_bool", "QintImp.const"):
        rewrite_in(tree, path, is_rev_slice, lambda n: ast.Call(func=ast.Name(id="list", ctx=ast.Load()), args=[ast.Call(func=ast.Name(id="reversed", ctx=ast.Load()), args=[n.value], keywords=[])], keywords=[]))
    open(p, "w").write(ast.unparse(tree) + "\n")


@twin("b-new-helper", "an unused private helper function and an unused import added to several modules")
def _b_helper(root):
    for rel in ("qlasskit/types/qint.py", "qlasskit/compiler/internalcompiler.py", "qlasskit/qcircuit/qcircuit.py", "qlasskit/boolopt/exp_transformers.py"):
        p = os.path.join(root, rel)
        src = open(p).read()
        open(p, "w").write(src + "\n\ndef _unused_helper(x):\n    return x\n")


# --------------------------------------------------------------------------------------------- runner


def _scratch_copy() -> str:
    d = tempfile.mkdtemp(prefix="qv_self_")
    shutil.copytree(os.path.join(repo_root(), "qlasskit"), os.path.join(d, "qlasskit"), ignore=shutil.ignore_patterns("__pycache__"))
    return d


def _run_check(pid: str, root: str) -> Tuple[int, List[str], str]:
    env = dict(os.environ, QV_REPO=root, PYTHONPATH=HERE, PYTHONDONTWRITEBYTECODE="1")
    r = subprocess.run([sys.executable, "-m", "qv.cli", pid, "--no-evidence", "--tier", "quick"], cwd=HERE, env=env, capture_output=True, text=True)
    keys = []
    for line in r.stdout.splitlines():
        if ": rule " in line:
            # "<where>: <construct>: rule R [role] - ..."
            try:
                rest = line.split(": rule ", 1)[1]
                rule = rest.split(" ", 1)[0]
                role = rest.split("[", 1)[1].split("]", 1)[0]
                construct = line.split(": rule ", 1)[0].rsplit(": ", 1)[1]
                keys.append(f"{rule}|{construct}|{role}")
            except Exception:
                keys.append(line[:100])
    return r.returncode, keys, r.stdout[-600:]


def run_for_property(pid: str, ctx) -> Dict:
    mutants = [m for m in M if pid in m[1]]
    base_rc, base_keys, _ = _run_check(pid, repo_root())
    jobs = []
    dirs = []
    results = {"seeded": 0, "caught": 0, "benign": 0, "silent": 0, "missed": [], "noisy": [], "not_applied": []}

    def do_mut(m):
        mid, props, rel, desc, fn = m
        d = _scratch_copy()
        dirs.append(d)
        p = os.path.join(d, rel)
        tree = ast.parse(open(p).read())
        try:
            n = fn(tree)
        except KeyError:
            n = 0
        if not n:
            return ("na", mid, desc)
        ast.fix_missing_locations(tree)
        open(p, "w").write(ast.unparse(tree) + "\n")
        rc, keys, out = _run_check(pid, d)
        new = [k for k in keys if k not in base_keys]
        return ("mut", mid, desc, rc, new, out)

    def do_twin(b):
        bid, desc, fn = b
        d = _scratch_copy()
        dirs.append(d)
        fn(d)
        rc, keys, out = _run_check(pid, d)
        new = [k for k in keys if k not in base_keys]
        return ("twin", bid, desc, rc, new, out)

    try:
        with ThreadPoolExecutor(max_workers=16) as ex:
            futs = [ex.submit(do_mut, m) for m in mutants] + [ex.submit(do_twin, b) for b in B]
            outs = [f.result() for f in futs]
    finally:
        for d in dirs:
            shutil.rmtree(d, ignore_errors=True)
    problems = []
    for o in outs:
        if o[0] == "na":
            results["not_applied"].append(o[1])
            problems.append(f"seeded edit {o[1]} ({o[2]}) could not be applied to the current tree: its anchor construct changed")
        elif o[0] == "mut":
            results["seeded"] += 1
            if o[3] == 1 and o[4]:
                results["caught"] += 1
            else:
                results["missed"].append(o[1])
                problems.append(f"seeded edit {o[1]} ({o[2]}) was NOT reported by {pid} (exit {o[3]}): {o[5][-200:]}")
        else:
            results["benign"] += 1
            if o[3] == base_rc and not o[4]:
                results["silent"] += 1
            else:
                results["noisy"].append(o[1])
                problems.append(f"benign twin {o[1]} ({o[2]}) changed the verdict of {pid} (exit {o[3]}, new findings {o[4][:3]}): {o[5][-300:]}")
    if problems:
        raise AnchorError(f"{pid}.selfcheck", "; ".join(problems)[:1500])
    return results


def _rename_locals_in(tree: ast.Module, suffix="_r"):
    def handle(fn):
        params = set()
        for n in ast.walk(fn):
            if isinstance(n, ast.arguments):
                for a in n.posonlyargs + n.args + n.kwonlyargs:
                    params.add(a.arg)
                if n.vararg:
                    params.add(n.vararg.arg)
                if n.kwarg:
                    params.add(n.kwarg.arg)
        declared = set()
        for n in ast.walk(fn):
            if isinstance(n, (ast.Global, ast.Nonlocal)):
                declared |= set(n.names)
        nested_names = {n.name for n in ast.walk(fn) if isinstance(n, (ast.FunctionDef, ast.ClassDef)) and n is not fn}
        stored = {n.id for n in ast.walk(fn) if isinstance(n, ast.Name) and isinstance(n.ctx, (ast.Store, ast.Del))}
        ren = {x for x in stored if x not in params and x not in declared and x not in nested_names and not x.startswith("__")}
        for n in ast.walk(fn):
            if isinstance(n, ast.Name) and n.id in ren:
                n.id = n.id + suffix

    for s in tree.body:
        if isinstance(s, ast.FunctionDef):
            handle(s)
        elif isinstance(s, ast.ClassDef):
            for m in s.body:
                if isinstance(m, ast.FunctionDef):
                    handle(m)


@twin("b-rename-locals", "every local variable of every function renamed consistently")
def _b_rename(root):
    for p in _all_py(root):
        tree = ast.parse(open(p).read())
        _rename_locals_in(tree)
        open(p, "w").write(ast.unparse(tree) + "\n")


# ---- added after the second round of fixes
mut("sb-sub-narrow", ["C01"], "qlasskit/types/qint.py", "minuend complemented at its own width")(
    lambda t: replace_expr("QintImp.sub", "wide.fill(tleft)", "cls.fill(tleft)")(t) and replace_expr("QintImp.sub", "wide.fill(tright)", "cls.fill(tright)")(t)
)
mut("sb-shiftadd", ["C01"], "qlasskit/types/qint.py", "remainder of an even constant handled by one shift")(
    replace_expr("QintImp.mul_even_const", "QintImp.mul_even_const(t_num, r, result_type)", "result_type.shift_left((result_ttype, t_num[1]), int(r / 2))")
)
mut("mp-relabel-unguarded", ["C12"], "qlasskit/decompiler/decopt.py", "relabelled sections are spliced")(
    lambda t: rewrite_in(t, "circuit_boolean_optimizer", lambda n: isinstance(n, ast.If) and "qubit_map.get" in norm(n.test), lambda n: ast.Pass())
)


@twin("b-annotate-locals", "plain `name = value` statements of several modules given a type annotation (`name: object = value`)")
def _b_annot(root):
    for rel in ("qlasskit/compiler/internalcompiler.py", "qlasskit/qcircuit/qcircuitenhanced.py", "qlasskit/types/qint.py", "qlasskit/decompiler/decopt.py", "qlasskit/ast2logic/env.py", "qlasskit/qlassfun.py", "qlasskit/types/__init__.py", "qlasskit/boolopt/bool_optimizer.py"):
        p = os.path.join(root, rel)
        tree = ast.parse(open(p).read())

        class T(ast.NodeTransformer):
            def __init__(self):
                self.depth = 0

            def visit_FunctionDef(self, node):
                self.depth += 1
                self.generic_visit(node)
                self.depth -= 1
                return node

            def visit_Assign(self, node):
                if self.depth > 0 and len(node.targets) == 1 and isinstance(node.targets[0], ast.Name):
                    return ast.AnnAssign(target=node.targets[0], annotation=ast.Name(id="object", ctx=ast.Load()), value=node.value, simple=1)
                return node

        tree = T().visit(tree)
        ast.fix_missing_locations(tree)
        open(p, "w").write(ast.unparse(tree) + "\n")


@twin("b-setitem", "QCircuit.add_qubit stores the new name through __setitem__, bind() edits the tree through an alias")
def _b_setitem(root):
    p = os.path.join(root, "qlasskit/qcircuit/qcircuit.py")
    src = open(p).read()
    assert "self.qubit_map[name] = self.num_qubits" in src
    open(p, "w").write(src.replace("self.qubit_map[name] = self.num_qubits", "self[name] = self.num_qubits"))
    p = os.path.join(root, "qlasskit/qlassfun.py")
    src = open(p).read()
    a = "        fun_ast = copy.deepcopy(self.fun_ast)\n"
    assert a in src
    src = src.replace(a, a + "        fun_def = fun_ast.body[0]\n")
    src = src.replace("fun_ast.body[0].args.args", "fun_def.args.args").replace("fun_ast.body[0].body = new_body + fun_ast.body[0].body", "fun_def.body = new_body + fun_def.body")
    open(p, "w").write(src)


@twin("b-positional-ctor", "syntax constructors called positionally / through a local alias in the rewriter")
def _b_positional(root):
    p = os.path.join(root, "qlasskit/ast2ast/astrewriter.py")
    src = open(p).read()
    a = "ast.BinOp(left=node.target, op=node.op, right=node.value)"
    b = "return ast.BinOp(left=arg_l[0], op=ast.Add(), right=iterif(arg_l[1:]))"
    c = "        return ast.BoolOp(op=op, values=args)\n"
    assert a in src and b in src and c in src
    src = src.replace(a, "ast.BinOp(node.target, node.op, node.value)")
    src = src.replace(b, "head = arg_l[0]\n                return ast.BinOp(head, ast.Add(), iterif(arg_l[1:]))")
    src = src.replace(c, "        return ast.BoolOp(values=args, op=op)\n")
    open(p, "w").write(src)
