"""placeholder replaced below"""
def run_for_property(pid, ctx):
    return None
