"""A6 - typestate of qubit registers through an algorithm constructor.

The constructor body is read as a straight-line circuit-building program: local circuits
(`QCircuit(n)` values), gate calls on them, loops over the input register, `a + b`, `x += y`,
`.repeat(n)` and `.copy()`.  Each circuit value is the sequence of *events* it applies:

    (gate, register)   register in {"in", "out", "phase", "?"}; a loop over the input register applies the
                       gate to the register as a whole
    ("ORACLE", None)   the black-box circuit of the function handed to the algorithm
    ("REPEAT", events) n-fold repetition of a sub-sequence

Single-qubit abstract states {0, 1, +, -, T} with the transfer table of x, h, z; anything else on a
register sends it to T.  No repository code is executed.
"""
from __future__ import annotations

import ast
from typing import Dict, List, Optional, Tuple

from .core import AnchorError, FuncInfo, dotted, norm

Event = Tuple

TRANSFER = {
    "h": {"0": "+", "+": "0", "1": "-", "-": "1", "T": "T"},
    "x": {"0": "1", "1": "0", "+": "+", "-": "-", "T": "T"},
    "z": {"0": "0", "1": "1", "+": "-", "-": "+", "T": "T"},
}
GATES_1Q = {"h", "x", "z", "y", "s", "t"}


class CircuitProgram:
    def __init__(self, fi: FuncInfo, main: str = "self._qcircuit", size_names=("self.search_space_size",)):
        self.fi = fi
        self.main = main
        self.size_names = set(size_names)
        self.circ: Dict[str, List[Event]] = {}
        self.oracle_names: Dict[str, List[Event]] = {}
        self.notes: List[str] = []

    # ---- classification of a qubit argument
    def register_of(self, e, loop_vars: Dict[str, str]) -> str:
        t = norm(e)
        if isinstance(e, ast.Name) and e.id in loop_vars:
            return loop_vars[e.id]
        if isinstance(e, ast.Name):
            b = [n.value for n in ast.walk(self.fi.node) if isinstance(n, ast.Assign) and len(n.targets) == 1 and isinstance(n.targets[0], ast.Name) and n.targets[0].id == e.id]
            if len(b) == 1:
                # `q = circ.add_qubit(name="x")` returns the index of the qubit named x; `q = circ["x"]` looks it up
                t = norm(b[0])
        if "_ret_phased" in t:
            return "phase"
        if "'_ret'" in t or '"_ret"' in t:
            return "out"
        return "?"

    def loop_register(self, loop: ast.For) -> Optional[str]:
        """"in": the loop visits every qubit of the input register; "in~": a subset selected by a run-time
        condition (a filtered comprehension); None: an iterable outside the tables"""
        e = loop.iter
        for _ in range(6):
            while isinstance(e, ast.Call) and isinstance(e.func, ast.Name) and e.func.id in ("list", "tuple", "sorted") and len(e.args) == 1:
                e = e.args[0]
            if isinstance(e, ast.Name):
                b = [
                    n.value
                    for n in ast.walk(self.fi.node)
                    if isinstance(n, ast.Assign) and len(n.targets) == 1 and isinstance(n.targets[0], ast.Name) and n.targets[0].id == e.id
                ]
                if len(b) != 1:
                    return None
                e = b[0]
                continue
            break
        it = norm(e).replace(" ", "")
        for s in self.size_names:
            if it == f"range({s})":
                return "in"
        if isinstance(e, (ast.ListComp, ast.GeneratorExp, ast.SetComp)) and any(g.ifs for g in e.generators):
            return "in~"
        if isinstance(e, ast.Call) and isinstance(e.func, ast.Name) and e.func.id == "filter":
            return "in~"
        return None

    def is_oracle_expr(self, e) -> bool:
        t = norm(e)
        return t in self.oracle_names or t.endswith(".circuit()") or t.endswith(".circuit().copy()")

    # ---- evaluation of circuit-valued expressions
    def value(self, e) -> Optional[List[Event]]:
        t = norm(e)
        if t in self.circ:
            return list(self.circ[t])
        if t in self.oracle_names:
            return list(self.oracle_names[t])
        if t.endswith(".circuit()") or t.endswith(".circuit().copy()"):
            return [("ORACLE", None)]
        if isinstance(e, ast.BinOp) and isinstance(e.op, ast.Add):
            l, r = self.value(e.left), self.value(e.right)
            if l is None or r is None:
                return None
            return l + r
        if isinstance(e, ast.Call) and isinstance(e.func, ast.Attribute):
            if e.func.attr == "copy":
                return self.value(e.func.value)
            if e.func.attr == "repeat":
                v = self.value(e.func.value)
                return None if v is None else [("REPEAT", tuple(v), norm(e.args[0]) if e.args else "?")]
        if isinstance(e, ast.Call) and (dotted(e.func) or "").split(".")[-1] == "QCircuit":
            return []
        return None

    def run(self):
        self._block(self.fi.body, {})
        if self.main not in self.circ:
            raise AnchorError(self.fi.short, f"main circuit `{self.main}` is never created")
        return self.circ[self.main]

    def _block(self, stmts, loop_vars: Dict[str, str]):
        for s in stmts:
            self._stmt(s, loop_vars)

    def _stmt(self, s, loop_vars):
        if isinstance(s, ast.Assign) and len(s.targets) == 1:
            tgt = norm(s.targets[0])
            v = self.value(s.value)
            if v is not None:
                if self.is_oracle_expr(s.value) or (v and v[0][0] == "ORACLE" and len(v) == 1):
                    self.oracle_names[tgt] = v
                else:
                    self.circ[tgt] = v
            return
        if isinstance(s, ast.AnnAssign) and s.value is not None:
            return self._stmt(ast.Assign(targets=[s.target], value=s.value), loop_vars)
        if isinstance(s, ast.AugAssign) and isinstance(s.op, ast.Add):
            tgt = norm(s.target)
            if tgt in self.circ or tgt in self.oracle_names:
                v = self.value(s.value)
                if v is None:
                    raise AnchorError(self.fi.short, f"`{norm(s)}`: the appended circuit expression is outside the tables")
                self._seq(tgt).extend(v)
            return
        if isinstance(s, ast.Expr):
            # comprehension of add_qubit / gate calls
            if isinstance(s.value, (ast.ListComp, ast.GeneratorExp)):
                gen = s.value.generators[0]
                fake = ast.For(target=gen.target, iter=gen.iter, body=[ast.Expr(value=s.value.elt)], orelse=[])
                ast.copy_location(fake, s)
                return self._stmt(fake, loop_vars)
            if isinstance(s.value, ast.Call):
                self._call(s.value, loop_vars)
            return
        if isinstance(s, ast.For):
            reg = self.loop_register(s)
            lv = dict(loop_vars)
            if reg is not None and isinstance(s.target, ast.Name):
                lv[s.target.id] = reg
            elif isinstance(s.target, ast.Name):
                lv[s.target.id] = "?loop"
            self._block(s.body, lv)
            return
        if isinstance(s, ast.If):
            # both branches may contribute gates: only allowed if neither does
            before = {k: len(v) for k, v in self.circ.items()}
            self._block(s.body, loop_vars)
            self._block(s.orelse, loop_vars)
            for k, v in self.circ.items():
                if len(v) != before.get(k, len(v)):
                    raise AnchorError(self.fi.short, f"gates are emitted conditionally at {self.fi.loc(s)}: typestate undecided")
            return

    def _seq(self, name: str) -> List[Event]:
        if name in self.circ:
            return self.circ[name]
        return self.oracle_names[name]

    def _call(self, c: ast.Call, loop_vars):
        if not isinstance(c.func, ast.Attribute):
            return
        recv = norm(c.func.value)
        m = c.func.attr
        if recv not in self.circ and recv not in self.oracle_names:
            return
        seq = self._seq(recv)
        if m in GATES_1Q and len(c.args) == 1:
            seq.append((m, self.register_of(c.args[0], loop_vars)))
        elif m == "barrier" or m == "add_qubit":
            pass
        elif m == "mctrl" and len(c.args) >= 3:
            gate = (dotted(c.args[0].func) if isinstance(c.args[0], ast.Call) else dotted(c.args[0])) or "?"
            ctrl = c.args[1]
            if isinstance(ctrl, ast.Name):
                b = [n.value for n in ast.walk(self.fi.node) if isinstance(n, ast.Assign) and len(n.targets) == 1 and isinstance(n.targets[0], ast.Name) and n.targets[0].id == ctrl.id]
                if len(b) == 1:
                    ctrl = b[0]
            ctrl_reg = "?"
            t = norm(ctrl).replace(" ", "")
            if any(t == f"list(range({s}))" or t == f"range({s})" for s in self.size_names):
                ctrl_reg = "in"
            elif isinstance(ctrl, ast.List) and len(ctrl.elts) == 1:
                ctrl_reg = self.register_of(ctrl.elts[0], loop_vars)
            seq.append((f"c{gate.split('.')[-1].lower()}", ctrl_reg, self.register_of(c.args[2], loop_vars)))
        elif m in ("cx", "cz", "ccx", "mcx", "swap", "cp", "qft", "iqft", "append", "append_circuit"):
            seq.append((m, "?"))
        # other methods (num_qubits, ...) emit nothing


def flatten(events: List[Event], repeat_once=True) -> List[Event]:
    out: List[Event] = []
    for e in events:
        if e[0] == "REPEAT":
            out.extend(flatten(list(e[1])))
        else:
            out.append(e)
    return out


def state_at_first_oracle(events: List[Event], registers=("in", "out", "phase")):
    """(states just before the first ORACLE event, index of that event in the flattened list)"""
    st = {r: "0" for r in registers}
    flat = flatten(events)
    for i, e in enumerate(flat):
        if e[0] == "ORACLE":
            return st, i, flat
        apply(st, e)
    return None, None, flat


def apply(st: Dict[str, str], e: Event):
    g = e[0]
    if len(e) == 2 and e[1] == "in~":
        # a gate on part of the input register: only that register becomes unknown
        st["in"] = "T"
        return
    if g in TRANSFER and len(e) == 2:
        r = e[1]
        if r in st:
            st[r] = TRANSFER[g][st[r]]
        else:
            for k in st:
                st[k] = "T"
    elif g.startswith("c") and len(e) == 3:
        # controlled gate: in this abstraction the touched registers become unknown
        for r in (e[1], e[2]):
            if r in st:
                st[r] = "T"
            elif r == "?":
                for k in st:
                    st[k] = "T"
    elif g == "ORACLE":
        pass
    else:
        r = e[1] if len(e) > 1 else "?"
        if r in st:
            st[r] = "T"
        else:
            for k in st:
                st[k] = "T"
