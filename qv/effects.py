"""A1 - effects: mutation, aliasing, freshness, escape.

Interprocedural, summary based, flow-sensitive inside a function.  Abstract value = set of tokens:

    ("P", i, d, a)  object reachable from parameter i at depth d (0 = the object itself, 1 = an
                    attribute/element of it, 2 = deeper); a = the first attribute taken from the
                    parameter ("*" for a subscript / iteration step), None at depth 0
    ("F", site)     object allocated in this activation at `site` (constructor, literal, comprehension,
                    deepcopy, callee whose summary says fresh); HOLDS[site][attr] = tokens stored in it
                    under attribute `attr` ("*" = element of a container / unknown field)
    ("G", name)     module-level object

One level of field sensitivity (the first attribute) keeps `QCircuit(name=...)` from making every
later `qc.gates.append(...)` look like a mutation of `name`.  Nested functions and lambdas are analysed
inline in the frame of the enclosing activation, so their effects are expressed in the enclosing
function's parameters; closures stored in attributes are resolved through constructor call sites;
method calls are resolved by receiver class when it is known (self, constructor-assigned locals) and
by class-hierarchy analysis on the method name otherwise.  Unresolved external calls are assumed not
to mutate repository objects; they are counted and listed in the evidence.
"""
from __future__ import annotations

import ast
import os
from dataclasses import dataclass, field
from typing import Dict, FrozenSet, List, Optional, Sequence, Set, Tuple

from .core import ClassInfo, FuncInfo, Repo, dotted, norm

_TRACE = os.environ.get("QV_TRACE", "")

Token = Tuple
Value = FrozenSet[Token]
EMPTY: Value = frozenset()

BUILTIN_MUTATORS = {
    # name -> indices of arguments that become reachable from the receiver
    "append": [0], "extend": [0], "insert": [1], "remove": [], "pop": [], "clear": [], "sort": [], "reverse": [],
    "update": [0], "add": [0], "discard": [], "setdefault": [1], "popitem": [], "difference_update": [],
    "intersection_update": [], "appendleft": [0],
}
PURE_BUILTINS = {
    "len", "isinstance", "issubclass", "hasattr", "str", "int", "float", "bool", "print", "range", "bin", "ord", "chr",
    "abs", "min", "max", "sum", "any", "all", "type", "repr", "id", "hash", "format", "round", "divmod", "pow", "callable",
    "open", "compile", "super", "object", "Exception", "ValueError", "TypeError", "KeyError", "IndexError", "input", "vars",
    "globals", "locals", "next",
}
SHALLOW_COPIERS = {"list", "dict", "set", "tuple", "sorted", "reversed", "frozenset", "zip", "enumerate", "iter"}
SHALLOW_METHODS = {"items", "keys", "values", "copy"}
ALIAS_METHODS = {"get", "__getitem__", "__iter__"}
PURE_METHODS = {
    "subs", "xreplace", "format", "join", "split", "startswith", "endswith", "lower", "upper", "replace", "strip",
    "encode", "decode", "index", "count", "write", "read", "free_symbols", "simplify", "to_anf",
}
CONTAINER_SITES = {"List", "Tuple", "Dict", "Set", "ListComp", "DictComp", "SetComp", "GeneratorExp", "BinOp", "Subscript", "shallow"}
SCALAR_ANN = {"int", "str", "bool", "float", "bytes"}


@dataclass
class Origin:
    func: str  # short qualname of the function containing the mutating statement
    where: str  # file:line
    text: str  # normalised statement text
    what: str  # human description
    fld: str = ""  # attribute of the mutated object that is written, when known

    def key(self):
        return (self.func, self.text)


@dataclass
class Summary:
    mut: Dict[int, Dict[Tuple, Tuple[int, Optional[str], Origin]]] = field(default_factory=dict)
    ret: Set[Tuple[int, int, Optional[str]]] = field(default_factory=set)
    ret_fresh: bool = False
    ret_container: bool = True  # every fresh result is a builtin container (tuple/list/...)
    ret_holds: Set[Tuple[str, int, int, int, Optional[str]]] = field(default_factory=set)  # (under attr, at depth, param, depth, first attr)
    stores: Set[Tuple[int, str, int, int, int, Optional[str]]] = field(default_factory=set)  # (into j, under attr, at depth, from i, depth, first attr)
    gmut: Dict[Tuple, Origin] = field(default_factory=dict)
    escapes: Dict[Tuple, Tuple[int, int, str, str]] = field(default_factory=dict)  # (param, depth, callee, where)

    def size(self) -> int:
        return sum(len(v) for v in self.mut.values()) + len(self.ret) + len(self.ret_holds) + len(self.stores) + len(self.gmut) + len(self.escapes) + int(self.ret_fresh) + int(self.ret_container)


class Frame:
    def __init__(self, an: "Effects", fi: FuncInfo):
        self.an = an
        self.fi = fi
        self.summary = Summary()
        self.holds: Dict[Tuple, Dict[str, Set[Tuple[Token, int]]]] = {}
        self.global_decls: Set[str] = set()
        self.inline_depth = 0
        self.escaped: Set = set()

    def held(self, site, attr: Optional[str]) -> Set[Tuple[Token, int]]:
        """{(token, depth below the fresh object at which the token sits)}"""
        h = self.holds.get(site)
        if not h:
            return set()
        if attr in (None, "*"):
            out = set()
            for v in h.values():
                out |= v
            return out
        return set(h.get(attr, ())) | set(h.get("*", ()))


def p_deepen(t: Token, how: str) -> Token:
    _, i, d, a = t
    if d == 0:
        return ("P", i, 1, how)
    return ("P", i, min(d + 1, 2), a)


class Effects:
    def __init__(self, repo: Repo):
        self.repo = repo
        self.summaries: Dict[str, Summary] = {}
        self.attr_closures: Dict[Tuple[str, str], List[FuncInfo]] = {}
        self.transformer_classes: Set[str] = set()
        self.builtin_attrs: Set[str] = set()
        self.scalar_attrs: Set[str] = set()
        self.calls_total = 0
        self.calls_resolved = 0
        self.unresolved_names: Dict[str, int] = {}
        self.frames: Dict[str, Tuple[Frame, "Exec"]] = {}
        self._prepare()

    # ------------------------------------------------------------------ preparation
    def _prepare(self):
        repo = self.repo
        for c in repo.classes.values():
            names = [b.split(".")[-1] for b in c.base_names]
            if "NodeTransformer" in names:
                self.transformer_classes.add(c.qualname)
            elif "NodeVisitor" in names:
                # the generic traversal of a NodeVisitor only reads; it changes the tree when one of its own methods
                # writes into a node (anything but `self.<field> = ...`) or calls a mutator on a node's field
                writes = False
                for mi in c.methods.values():
                    me = mi.all_params[0] if mi.all_params else "self"
                    for n in ast.walk(mi.node):
                        if isinstance(n, (ast.Attribute, ast.Subscript)) and isinstance(n.ctx, (ast.Store, ast.Del)):
                            base = n
                            while isinstance(base, (ast.Attribute, ast.Subscript)):
                                base = base.value
                            if not (isinstance(base, ast.Name) and base.id == me):
                                writes = True
                        if isinstance(n, ast.Call) and isinstance(n.func, ast.Attribute) and n.func.attr in ("append", "extend", "insert", "remove", "pop", "clear", "sort", "reverse", "update") :
                            base = n.func.value
                            while isinstance(base, (ast.Attribute, ast.Subscript)):
                                base = base.value
                            if not (isinstance(base, ast.Name) and base.id == me):
                                writes = True
                if writes:
                    self.transformer_classes.add(c.qualname)
        changed = True
        while changed:
            changed = False
            for c in repo.classes.values():
                if c.qualname not in self.transformer_classes and any(b.qualname in self.transformer_classes for b in c.bases):
                    self.transformer_classes.add(c.qualname)
                    changed = True
        init_kinds: Dict[str, Set[str]] = {}
        for fi in repo.functions.values():
            for n in ast.walk(fi.node):
                if isinstance(n, (ast.Assign, ast.AnnAssign)):
                    tgts = n.targets if isinstance(n, ast.Assign) else [n.target]
                    val = n.value
                    for t in tgts:
                        if not isinstance(t, ast.Attribute):
                            continue
                        if isinstance(n, ast.AnnAssign) and (dotted(n.annotation) or "") in SCALAR_ANN:
                            self.scalar_attrs.add(t.attr)
                        if val is None:
                            continue
                        kind = "other"
                        if isinstance(val, (ast.List, ast.Dict, ast.Set, ast.ListComp, ast.DictComp, ast.SetComp, ast.BinOp)):
                            kind = "builtin"
                        elif isinstance(val, ast.Call) and isinstance(val.func, ast.Name) and val.func.id in ("list", "dict", "set"):
                            kind = "builtin"
                        elif isinstance(val, ast.Subscript) and isinstance(val.slice, ast.Slice):
                            kind = "builtin"
                        init_kinds.setdefault(t.attr, set()).add(kind)
        for c in repo.classes.values():
            for s in c.node.body:
                if isinstance(s, ast.AnnAssign) and isinstance(s.target, ast.Name) and (dotted(s.annotation) or "") in SCALAR_ANN:
                    self.scalar_attrs.add(s.target.id)
        self.builtin_attrs = {a for a, k in init_kinds.items() if k == {"builtin"}}
        # who reads which attribute (a field written by one function and read by no other is a private cache)
        self.attr_readers: Dict[str, Set[str]] = {}
        for fi in repo.functions.values():
            top = fi
            while top.parent is not None:
                top = top.parent
            for n in ast.walk(fi.node):
                if isinstance(n, ast.Attribute) and isinstance(n.ctx, ast.Load):
                    self.attr_readers.setdefault(n.attr, set()).add(top.short)
                elif isinstance(n, ast.Call) and isinstance(n.func, ast.Name) and n.func.id in ("getattr", "hasattr") and len(n.args) >= 2 and isinstance(n.args[1], ast.Constant):
                    self.attr_readers.setdefault(str(n.args[1].value), set()).add(top.short)
        # closures stored in attributes through constructors: self.X = <param k>
        for c in repo.classes.values():
            init = c.methods.get("__init__")
            if init is None:
                continue
            ps = init.params
            for n in ast.walk(init.node):
                if (
                    isinstance(n, ast.Assign)
                    and isinstance(n.targets[0], ast.Attribute)
                    and isinstance(n.targets[0].value, ast.Name)
                    and n.targets[0].value.id == "self"
                    and isinstance(n.value, ast.Name)
                    and n.value.id in ps
                ):
                    k = ps.index(n.value.id)
                    attr = n.targets[0].attr
                    for fi in repo.functions.values():
                        for call in ast.walk(fi.node):
                            if isinstance(call, ast.Call) and isinstance(call.func, ast.Name) and call.func.id == c.name:
                                if k - 1 < len(call.args) and isinstance(call.args[k - 1], ast.Name):
                                    tgt = self._lookup_func_name(fi, call.args[k - 1].id)
                                    if tgt is not None and tgt not in self.attr_closures.get((c.qualname, attr), []):
                                        self.attr_closures.setdefault((c.qualname, attr), []).append(tgt)

    def _lookup_func_name(self, fi: FuncInfo, name: str) -> Optional[FuncInfo]:
        cur: Optional[FuncInfo] = fi
        while cur is not None:
            if name in cur.nested:
                return cur.nested[name]
            cur = cur.parent
        r = self.repo.resolve_name(fi.module, name)
        return r if isinstance(r, FuncInfo) else None

    # ------------------------------------------------------------------ driver
    def run(self, max_rounds: int = 10):
        tops = [f for f in self.repo.functions.values() if f.parent is None]
        for f in tops:
            self.summaries[f.qualname] = Summary()
        for rnd in range(max_rounds):
            changed = False
            self.calls_total = self.calls_resolved = 0
            self.unresolved_names = {}
            for f in tops:
                s = self.analyse(f)
                if s.size() != self.summaries[f.qualname].size():
                    changed = True
                self.summaries[f.qualname] = s
            self.rounds = rnd + 1
            if not changed:
                break
        return self

    def analyse(self, fi: FuncInfo) -> Summary:
        fr = Frame(self, fi)
        env: Dict[str, Value] = {}
        a = fi.node.args
        anns = {x.arg: x.annotation for x in a.posonlyargs + a.args + a.kwonlyargs}
        for i, p in enumerate(fi.all_params):
            ann = anns.get(p)
            if ann is not None and (dotted(ann) or "") in SCALAR_ANN:
                env[p] = EMPTY
            else:
                env[p] = frozenset({("P", i, 0, None)})
        ex = Exec(self, fr, fi, env)
        ex.block(fi.body)
        s = fr.summary
        for t in ex.ret:
            if t[0] == "P":
                s.ret.add((t[1], t[2], t[3]))
            elif t[0] == "F":
                s.ret_fresh = True
                if t[1][3] not in CONTAINER_SITES:
                    s.ret_container = False
                seen = set()
                todo = [(attr, hd, h) for attr, hs in fr.holds.get(t[1], {}).items() for (h, hd) in hs]
                while todo:
                    attr, hd, h = todo.pop()
                    if (attr, hd, h) in seen:
                        continue
                    seen.add((attr, hd, h))
                    if h[0] == "P":
                        s.ret_holds.add((attr, hd, h[1], h[2], h[3]))
                    elif h[0] == "F" and h[1] != t[1]:
                        for a2, hs in fr.holds.get(h[1], {}).items():
                            for (h2, hd2) in hs:
                                todo.append((attr, min(hd + hd2, 2), h2))
        self.frames[fi.qualname] = (fr, ex)
        return s

    def summary(self, short: str) -> Summary:
        q = short if short.startswith("qlasskit.") else "qlasskit." + short
        return self.summaries[q]


class Exec:
    """abstract execution of one function body inside a frame"""

    def __init__(self, an: Effects, fr: Frame, fi: FuncInfo, env: Dict[str, Value], outer: Optional["Exec"] = None):
        self.an = an
        self.fr = fr
        self.fi = fi
        self.env = env
        self.tenv: Dict[str, ClassInfo] = {}
        self.outer = outer
        self.ret: Set[Token] = set()
        self.local_funcs: Dict[str, FuncInfo] = dict(fi.nested)
        self._cur_nkw = 0

    # ----------------------------------------------------------------- value helpers
    def deepen(self, v: Value, how: str = "*", _guard: int = 0) -> Value:
        out = set()
        for t in v:
            if t[0] == "P":
                out.add(p_deepen(t, how))
            elif t[0] == "F":
                _, site, d, a = t
                nd = min(d + 1, 2)
                A = a if d > 0 else how
                # a field of a constructed object may be a sub-object allocated with it; an element of a
                # builtin container is exactly something stored in it
                if site[3] not in CONTAINER_SITES:
                    out.add(("F", site, nd, A))
                if _guard < 4:
                    for (h, hd) in self.fr.held(site, A):
                        if hd > nd:
                            continue
                        hv: Value = frozenset({h})
                        for _ in range(nd - hd):
                            hv = self.deepen(hv, "*", _guard + 1)
                        out |= hv
            else:
                out.add(t)
        return frozenset(out)

    def transform(self, v: Value, d: int, a: Optional[str]) -> Value:
        """value reached from v by d access steps, the first through attribute a"""
        for k in range(min(d, 2)):
            v = self.deepen(v, (a or "*") if k == 0 else "*")
        return v

    def fresh(self, node, holds: Value = EMPTY, kind: Optional[str] = None, attr: str = "*") -> Value:
        # `_ord` keeps sites of inlined code apart (normalisation gives them the position of their call site)
        site = (self.fi.short, getattr(node, "lineno", 0), getattr(node, "col_offset", 0), kind or type(node).__name__, getattr(node, "_ord", 0))
        h = self.fr.holds.setdefault(site, {})
        if holds:
            h.setdefault(attr, set()).update((t, 1) for t in holds)
        return frozenset({("F", site, 0, None)})

    # ----------------------------------------------------------------- events
    def origin(self, node, what: str) -> Origin:
        stmt = node
        pm = self.fi.pm
        while not isinstance(stmt, ast.stmt) and stmt in pm:
            stmt = pm[stmt]
        return Origin(self.fi.short, self.fi.loc(node), norm(stmt)[:140], what)

    def mutate(self, v: Value, node, what: str, attr: Optional[str] = None):
        """the objects in v are themselves modified (their field `attr`)"""
        org = self.origin(node, what)
        org.fld = attr or ""
        for t in v:
            self.mutate_token(t, 0, attr, org)

    def mutate_token(self, t: Token, extra: int, attr: Optional[str], org: Origin, _seen=None):
        s = self.fr.summary
        if t[0] == "P":
            d = min(t[2] + extra, 2)
            a = t[3] if t[2] > 0 else attr
            slot = s.mut.setdefault(t[1], {})
            k = org.key() + (d, a)
            if k not in slot and len(slot) < 40:
                slot[k] = (d, a, org)
        elif t[0] == "G":
            s.gmut.setdefault(org.key() + (t[1],), org)
        elif t[0] == "F":
            _, site, d, a = t
            D = min(d + extra, 2)
            A = a if d > 0 else attr
            if D == 0:
                return
            _seen = _seen or set()
            if (site, D, A) in _seen:
                return
            _seen.add((site, D, A))
            for (h, hd) in self.fr.held(site, A):
                if hd <= D:
                    self.mutate_token(h, D - hd, None, org, _seen)

    def store(self, container: Value, attr: str, stored: Value):
        """`stored` becomes reachable from the objects in `container` (as their field/element `attr`)"""
        if not stored:
            return
        flat = set()
        for t in stored:
            if t[0] == "P":
                flat.add(t)
            elif t[0] == "F":
                for (h, hd) in self.fr.held(t[1], None):
                    if h[0] == "P":
                        flat.add(h)
        for c in container:
            if c[0] == "F":
                _, site, cd, ca = c
                A = ca if cd > 0 else attr
                self.fr.holds.setdefault(site, {}).setdefault(A, set()).update((t, min(cd + 1, 2)) for t in stored if not (t[0] == "F" and t[1] == site))
            elif c[0] == "P":
                _, j, cd, ca = c
                A = ca if cd > 0 else attr
                for t in flat:
                    self.fr.summary.stores.add((j, A, min(cd + 1, 2), t[1], t[2], t[3]))

    def store_at(self, container: Value, attr: str, hd: int, stored: Value):
        """like store(), for a callee that put `stored` hd levels below its parameter"""
        if hd <= 1:
            self.store(container, attr, stored)
            return
        deeper = set()
        for c in container:
            if c[0] == "F":
                deeper.add(("F", c[1], min(c[2] + hd - 1, 2), c[3] if c[2] > 0 else attr))
            elif c[0] == "P":
                deeper.add(("P", c[1], min(c[2] + hd - 1, 2), c[3] if c[2] > 0 else attr))
        self.store(frozenset(deeper), attr, stored)

    # ----------------------------------------------------------------- statements
    def block(self, stmts: Sequence[ast.stmt]):
        for s in stmts:
            self.stmt(s)

    def join_envs(self, envs: List[Dict[str, Value]]):
        keys = set()
        for e in envs:
            keys |= set(e)
        out = {}
        for k in keys:
            v = set()
            for e in envs:
                v |= e.get(k, EMPTY)
            out[k] = frozenset(v)
        self.env = out

    def stmt(self, s: ast.stmt):
        if isinstance(s, ast.Assign):
            v = self.eval(s.value)
            for t in s.targets:
                self.assign(t, v, s)
                if isinstance(t, ast.Name):
                    c = self.class_of(s.value)
                    if _TRACE and _TRACE == self.fi.short:
                        print("TRACE type", t.id, "<-", getattr(c, "qualname", None))
                    if c is not None:
                        self.tenv[t.id] = c
                    else:
                        self.tenv.pop(t.id, None)
        elif isinstance(s, ast.AnnAssign):
            if s.value is not None:
                self.assign(s.target, self.eval(s.value), s)
        elif isinstance(s, ast.AugAssign):
            self.augassign(s)
        elif isinstance(s, ast.Expr):
            self.eval(s.value)
        elif isinstance(s, ast.Return):
            if s.value is not None:
                self.ret |= self.eval(s.value)
        elif isinstance(s, ast.If):
            self.eval(s.test)
            e0 = dict(self.env)
            self.block(s.body)
            e1 = self.env
            self.env = dict(e0)
            self.block(s.orelse)
            self.join_envs([e1, self.env])
        elif isinstance(s, (ast.For, ast.AsyncFor)):
            it = self.eval(s.iter)
            e0 = dict(self.env)
            for _ in range(2):
                self.assign(s.target, self.deepen(it, "*"), s, unpack=False)
                self.block(s.body)
                self.join_envs([e0, self.env])
                e0 = dict(self.env)
            self.block(s.orelse)
        elif isinstance(s, ast.While):
            e0 = dict(self.env)
            for _ in range(2):
                self.eval(s.test)
                self.block(s.body)
                self.join_envs([e0, self.env])
                e0 = dict(self.env)
            self.block(s.orelse)
        elif isinstance(s, ast.Try):
            e0 = dict(self.env)
            self.block(s.body)
            envs = [self.env]
            for h in s.handlers:
                self.env = dict(e0)
                for k, v in envs[0].items():
                    self.env[k] = self.env.get(k, EMPTY) | v
                self.block(h.body)
                envs.append(self.env)
            self.join_envs(envs)
            self.block(s.orelse)
            self.block(s.finalbody)
        elif isinstance(s, (ast.With, ast.AsyncWith)):
            for it in s.items:
                v = self.eval(it.context_expr)
                if it.optional_vars is not None:
                    self.assign(it.optional_vars, v, s)
            self.block(s.body)
        elif isinstance(s, ast.Delete):
            for t in s.targets:
                if isinstance(t, ast.Attribute):
                    self.mutate(self.eval(t.value), t, f"del {norm(t)}", t.attr)
                elif isinstance(t, ast.Subscript):
                    self.mutate(self.eval(t.value), t, f"del {norm(t)}")
                elif isinstance(t, ast.Name):
                    self.env.pop(t.id, None)
        elif isinstance(s, ast.Global):
            self.fr.global_decls |= set(s.names)
        elif isinstance(s, ast.Assert):
            self.eval(s.test)
        elif isinstance(s, ast.Raise):
            if s.exc is not None:
                self.eval(s.exc)
        elif isinstance(s, ast.Match):
            self.eval(s.subject)
            e0 = dict(self.env)
            envs = []
            for c in s.cases:
                self.env = dict(e0)
                self.block(c.body)
                envs.append(self.env)
            self.join_envs(envs + [e0])
        # FunctionDef (registered in local_funcs), Pass, Break, Continue, Import, ClassDef: nothing

    def assign(self, target, v: Value, node, unpack=True):
        if _TRACE and _TRACE == self.fi.short:
            print("TRACE assign", norm(target)[:40], "<-", sorted(v, key=str)[:6])
        if isinstance(target, ast.Name):
            if target.id in self.fr.global_decls:
                self.fr.summary.gmut.setdefault((self.fi.short, norm(node)[:140], target.id), self.origin(node, f"global {target.id} rebound"))
            self.env[target.id] = v
        elif isinstance(target, (ast.Tuple, ast.List)):
            dv = self.deepen(v, "*")
            for e in target.elts:
                self.assign(e.value if isinstance(e, ast.Starred) else e, dv, node)
        elif isinstance(target, ast.Attribute):
            base = self.eval(target.value)
            self.mutate(base, target, f"attribute store `{norm(target)} = ...`", target.attr)
            self.store(base, target.attr, v)
            d = dotted(target)
            if d and d.count(".") == 1:
                self.env[d] = v
        elif isinstance(target, ast.Subscript):
            base = self.eval(target.value)
            if isinstance(target.slice, ast.Slice):
                for x in (target.slice.lower, target.slice.upper, target.slice.step):
                    self.eval(x)
                v = self.deepen(v, "*")
            else:
                self.eval(target.slice)
            self.mutate(base, target, f"item store `{norm(target)} = ...`")
            self.store(base, "*", v)
        elif isinstance(target, ast.Starred):
            self.assign(target.value, v, node)

    def augassign(self, s: ast.AugAssign):
        rhs = self.eval(s.value)
        listy = any(isinstance(n, (ast.List, ast.ListComp, ast.Set, ast.Dict)) for n in ast.walk(s.value)) or (
            isinstance(s.value, ast.Call) and isinstance(s.value.func, ast.Name) and s.value.func.id in ("list", "dict", "set")
        )
        if isinstance(s.target, ast.Name):
            cur = self.lookup(s.target.id) or EMPTY
            if listy:
                self.mutate(cur, s, f"in-place `{norm(s)}` extends the list object itself")
                self.store(cur, "*", self.deepen(rhs, "*"))
            elif isinstance(s.op, ast.Add) and not isinstance(s.value, (ast.Constant, ast.JoinedStr)):
                self._apply_dunder(cur, "__iadd__", [rhs], s)
            if s.target.id in self.fr.global_decls:
                self.fr.summary.gmut.setdefault((self.fi.short, norm(s)[:140], s.target.id), self.origin(s, f"global {s.target.id} updated"))
        elif isinstance(s.target, ast.Attribute):
            base = self.eval(s.target.value)
            self.mutate(base, s, f"in-place update `{norm(s)}`", s.target.attr)
            if not isinstance(s.value, (ast.Constant, ast.JoinedStr)):
                cur = self.eval(s.target)
                if isinstance(s.op, ast.Add):
                    self._apply_dunder(cur, "__iadd__", [rhs], s)
                self.store(base, s.target.attr, rhs)
        else:
            base = self.eval(s.target.value)
            self.mutate(base, s, f"in-place update `{norm(s)}`")
            if not isinstance(s.value, (ast.Constant, ast.JoinedStr)):
                self.store(base, "*", rhs)

    def _apply_dunder(self, recv: Value, name: str, args: List[Value], node):
        if not recv:
            return
        for c in self.an.repo.classes.values():
            if name in c.methods:
                self.apply_summary(c.methods[name], [recv] + args, {}, node)

    # ----------------------------------------------------------------- lookups
    def lookup(self, name: str) -> Optional[Value]:
        cur: Optional[Exec] = self
        while cur is not None:
            if name in cur.env:
                return cur.env[name]
            cur = cur.outer
        return None

    def lookup_type(self, name: str) -> Optional[ClassInfo]:
        cur: Optional[Exec] = self
        while cur is not None:
            if name in cur.tenv:
                return cur.tenv[name]
            if name in cur.env:
                return None
            cur = cur.outer
        return None

    def lookup_func(self, name: str) -> Optional[FuncInfo]:
        cur: Optional[Exec] = self
        while cur is not None:
            if name in cur.local_funcs:
                return cur.local_funcs[name]
            cur = cur.outer
        return None

    def class_of(self, e) -> Optional[ClassInfo]:
        if isinstance(e, ast.Call):
            d = dotted(e.func)
            if d and self.lookup(d.split(".")[0]) is None:
                r = self.an.repo.resolve_dotted(self.fi.module, d)
                if isinstance(r, ClassInfo):
                    return r
                if isinstance(r, FuncInfo) and r.parent is None:
                    # a factory: every return is a constructor call -> the most specific common class
                    ks = []
                    for n in ast.walk(r.node):
                        if isinstance(n, ast.Return) and n.value is not None:
                            if isinstance(n.value, ast.Call):
                                k = self.an.repo.resolve_dotted(r.module, dotted(n.value.func) or "")
                                if isinstance(k, ClassInfo):
                                    ks.append(k)
                                    continue
                            ks = None
                            break
                    if ks:
                        common = None
                        for a in ks[0].mro():
                            if all(a in k.mro() for k in ks):
                                common = a
                                break
                        if common is not None:
                            return common
        if isinstance(e, ast.Name):
            return self.lookup_type(e.id)
        return None

    # ----------------------------------------------------------------- expressions
    def eval(self, e) -> Value:
        if e is None:
            return EMPTY
        if isinstance(e, ast.Name):
            v = self.lookup(e.id)
            if v is not None:
                return v
            lf = self.lookup_func(e.id)
            if lf is not None:
                self.escape_closure(lf, e)
                return EMPTY
            r = self.an.repo.resolve_name(self.fi.module, e.id)
            if isinstance(r, tuple) and r and r[0] == "global":
                val = self.an.repo.modules[r[1]].globals_assigned.get(r[2])
                if isinstance(val, (ast.List, ast.Dict, ast.Set, ast.Call, ast.ListComp, ast.DictComp, ast.BinOp)):
                    return frozenset({("G", f"{r[1]}.{r[2]}")})
            return EMPTY
        if isinstance(e, ast.Constant):
            return EMPTY
        if isinstance(e, ast.Attribute):
            d = dotted(e)
            if d is not None:
                v = self.lookup(d)
                if v is not None:
                    return v
            base = self.eval(e.value)
            if e.attr in self.an.scalar_attrs or (e.attr.isupper() and "SIZE" in e.attr):
                return EMPTY
            return self.deepen(base, e.attr)
        if isinstance(e, ast.Subscript):
            base = self.eval(e.value)
            if isinstance(e.slice, ast.Slice):
                for x in (e.slice.lower, e.slice.upper, e.slice.step):
                    self.eval(x)
                return self.fresh(e, self.deepen(base, "*"))
            self.eval(e.slice)
            return self.deepen(base, "*")
        if isinstance(e, ast.Call):
            return self.call(e)
        if isinstance(e, (ast.List, ast.Tuple, ast.Set)):
            hv = set()
            for x in e.elts:
                hv |= self.eval(x)
            return self.fresh(e, frozenset(hv))
        if isinstance(e, ast.Dict):
            hv = set()
            for k in e.keys:
                if k is not None:
                    self.eval(k)
            for x in e.values:
                hv |= self.eval(x)
            return self.fresh(e, frozenset(hv))
        if isinstance(e, (ast.ListComp, ast.SetComp, ast.GeneratorExp, ast.DictComp)):
            saved = dict(self.env)
            for g in e.generators:
                it = self.eval(g.iter)
                self.assign(g.target, self.deepen(it, "*"), e)
                for c in g.ifs:
                    self.eval(c)
            if isinstance(e, ast.DictComp):
                self.eval(e.key)  # keys are hashable values: evaluated, not held (as for `d[k] = v`)
                hv = self.eval(e.value)
            else:
                hv = self.eval(e.elt)
            self.env = saved
            return self.fresh(e, hv)
        if isinstance(e, ast.BinOp):
            l, r = self.eval(e.left), self.eval(e.right)
            if isinstance(e.op, (ast.Add, ast.Mult, ast.BitOr, ast.Sub, ast.BitAnd)) and (l or r):
                out = self.fresh(e, self.deepen(l, "*") | self.deepen(r, "*"))
                if isinstance(e.op, ast.Add) and l and not self.listish(e.left) and not self.listish(e.right) and self.maybe_circuit(e.left):
                    # the operands may be repository objects defining __add__
                    for c in self.an.repo.classes.values():
                        if "__add__" in c.methods and c.methods["__add__"].qualname.startswith("qlasskit.qcircuit"):
                            out = out | self.apply_summary(c.methods["__add__"], [l, r], {}, e)
                return out
            return EMPTY
        if isinstance(e, ast.BoolOp):
            v = set()
            for x in e.values:
                v |= self.eval(x)
            return frozenset(v)
        if isinstance(e, ast.IfExp):
            self.eval(e.test)
            return self.eval(e.body) | self.eval(e.orelse)
        if isinstance(e, ast.UnaryOp):
            self.eval(e.operand)
            return EMPTY
        if isinstance(e, ast.Compare):
            self.eval(e.left)
            for c in e.comparators:
                self.eval(c)
            return EMPTY
        if isinstance(e, ast.Starred):
            return self.deepen(self.eval(e.value), "*")
        if isinstance(e, ast.Lambda):
            self.escape_lambda(e)
            return EMPTY
        if isinstance(e, ast.NamedExpr):
            v = self.eval(e.value)
            self.assign(e.target, v, e)
            return v
        if isinstance(e, (ast.JoinedStr, ast.FormattedValue)):
            for n in ast.iter_child_nodes(e):
                if isinstance(n, ast.expr):
                    self.eval(n)
            return EMPTY
        if isinstance(e, (ast.Await, ast.YieldFrom, ast.Yield)):
            return self.eval(e.value) if e.value is not None else EMPTY
        return EMPTY

    # ----------------------------------------------------------------- closures
    def inline(self, fn: FuncInfo, args: List[Value], kwargs: Dict[str, Value], node) -> Value:
        if self.fr.inline_depth > 6:
            return EMPTY
        env: Dict[str, Value] = {}
        ps = fn.params
        for i, p in enumerate(ps):
            env[p] = args[i] if i < len(args) else kwargs.get(p, EMPTY)
        for p in fn.all_params[len(ps):]:
            env[p] = kwargs.get(p, EMPTY)
        if fn.node.args.vararg and len(args) > len(ps):
            extra = set()
            for a in args[len(ps):]:
                extra |= a
            env[fn.node.args.vararg.arg] = self.fresh(node, frozenset(extra), "Tuple")
        self.fr.inline_depth += 1
        try:
            sub = Exec(self.an, self.fr, fn, env, outer=self)
            sub.block(fn.body)
        finally:
            self.fr.inline_depth -= 1
        return frozenset(sub.ret)

    def inline_lambda(self, lam: ast.Lambda, args: List[Value], node) -> Value:
        if self.fr.inline_depth > 6:
            return EMPTY
        saved = dict(self.env)
        for i, a in enumerate(lam.args.args):
            self.env[a.arg] = args[i] if i < len(args) else EMPTY
        self.fr.inline_depth += 1
        try:
            v = self.eval(lam.body)
        finally:
            self.fr.inline_depth -= 1
            self.env = saved
        return v

    def escape_closure(self, fn: FuncInfo, node):
        key = ("closure", fn.qualname)
        if key in self.fr.escaped:
            return
        self.fr.escaped.add(key)
        self.inline(fn, [], {}, node)

    def escape_lambda(self, lam: ast.Lambda):
        key = ("lambda", lam.lineno, lam.col_offset, getattr(lam, "_ord", 0))
        if key in self.fr.escaped:
            return
        self.fr.escaped.add(key)
        self.inline_lambda(lam, [], lam)

    # ----------------------------------------------------------------- calls
    def _unres(self, name: str):
        self.an.unresolved_names[name] = self.an.unresolved_names.get(name, 0) + 1

    def callable_arg(self, a) -> Optional[object]:
        if isinstance(a, ast.Lambda):
            return a
        if isinstance(a, ast.Name):
            lf = self.lookup_func(a.id)
            if lf is not None:
                return lf
            if self.lookup(a.id) is None:
                r = self.an.repo.resolve_name(self.fi.module, a.id)
                if isinstance(r, FuncInfo):
                    return r
        if isinstance(a, ast.Attribute):
            tg = self.resolve_attr_call(a, None)
            if len(tg) == 1:
                return tg[0][0]
        return None

    def apply_callable(self, fn, per: List[Value], node) -> Value:
        if isinstance(fn, ast.Lambda):
            return self.inline_lambda(fn, per, node)
        if fn.parent is not None:
            return self.inline(fn, per, {}, node)
        if fn.cls is not None and fn.has_self:
            return self.apply_summary(fn, [EMPTY] + per, {}, node)
        return self.apply_summary(fn, per, {}, node)

    def call(self, c: ast.Call) -> Value:
        an = self.an
        an.calls_total += 1
        f = c.func
        args = [self.eval(a) for a in c.args]
        kwargs = {k.arg: self.eval(k.value) for k in c.keywords if k.arg}
        for k in c.keywords:
            if k.arg is None:
                self.eval(k.value)

        if isinstance(f, ast.Name):
            name = f.id
            lf = self.lookup_func(name)
            if lf is not None:
                an.calls_resolved += 1
                return self.inline(lf, args, kwargs, c)
            if self.lookup(name) is not None:
                self._unres(f"<local callable {name}>")
                return self.fresh(c, kind="unknown")
            if name in ("map", "filter") and c.args:
                an.calls_resolved += 1
                fn = self.callable_arg(c.args[0])
                per = [self.deepen(a, "*") for a in args[1:]]
                elems = set()
                for a in per:
                    elems |= a
                res: Value = frozenset(elems)
                if fn is not None:
                    r = self.apply_callable(fn, per, c)
                    if name == "map":
                        res = r
                return self.fresh(c, res, "shallow")
            if name == "reduce" and len(c.args) >= 2:
                an.calls_resolved += 1
                fn = self.callable_arg(c.args[0])
                per = self.deepen(args[1], "*")
                init = args[2] if len(args) > 2 else EMPTY
                if fn is not None:
                    return self.apply_callable(fn, [init | per, per], c) | init
                return init | per
            if name == "partial" and c.args:
                an.calls_resolved += 1
                hv = set()
                for a in args + list(kwargs.values()):
                    hv |= a
                return self.fresh(c, frozenset(hv), "shallow")
            if name in SHALLOW_COPIERS:
                an.calls_resolved += 1
                hv = set()
                for a in args:
                    hv |= self.deepen(a, "*")
                return self.fresh(c, frozenset(hv), "shallow")
            if name == "getattr" and args:
                an.calls_resolved += 1
                return self.deepen(args[0], "*")
            if name in ("setattr", "delattr") and args:
                an.calls_resolved += 1
                self.mutate(args[0], c, f"{name}() on its first argument", "*")
                if len(args) > 2:
                    self.store(args[0], "*", args[2])
                return EMPTY
            if name in ("exec", "eval"):
                an.calls_resolved += 1
                return self.fresh(c, kind="unknown")
            if name in PURE_BUILTINS:
                an.calls_resolved += 1
                return EMPTY
            if name == "cast" and len(args) == 2:
                an.calls_resolved += 1
                return args[1]
            r = an.repo.resolve_name(self.fi.module, name)
            if isinstance(r, FuncInfo):
                an.calls_resolved += 1
                return self.apply_summary(r, args, kwargs, c)
            if isinstance(r, ClassInfo):
                an.calls_resolved += 1
                return self.construct(r, args, kwargs, c)
            if isinstance(r, tuple) and r and r[0] == "ext":
                an.calls_resolved += 1
                return self.external(r[1], args, kwargs, c)
            self._unres(name)
            self.escape(f"<unresolved {name}>", args, kwargs, c)
            return self.fresh(c, kind="unknown")

        if isinstance(f, ast.Attribute):
            d = dotted(f)
            if d is not None and self.lookup(d.split(".")[0]) is None and self.lookup_func(d.split(".")[0]) is None:
                r = an.repo.resolve_dotted(self.fi.module, d)
                if isinstance(r, FuncInfo):
                    an.calls_resolved += 1
                    if r.cls is not None and (r.is_classmethod or (r.has_self and not r.is_static)) and len(d.split(".")) >= 2:
                        # Class.method(...): classmethod gets the class; plain method called unbound gets args
                        rr = an.repo.resolve_dotted(self.fi.module, ".".join(d.split(".")[:-1]))
                        if isinstance(rr, ClassInfo) and r.is_classmethod:
                            return self.apply_summary(r, [EMPTY] + args, kwargs, c)
                    return self.apply_summary(r, args, kwargs, c)
                if isinstance(r, ClassInfo):
                    an.calls_resolved += 1
                    return self.construct(r, args, kwargs, c)
                if isinstance(r, tuple) and r and r[0] == "ext":
                    an.calls_resolved += 1
                    return self.external(r[1], args, kwargs, c)
            recv = self.eval(f.value)
            m = f.attr
            if isinstance(f.value, ast.Call) and isinstance(f.value.func, ast.Name) and f.value.func.id == "super":
                an.calls_resolved += 1
                top = self.top_func()
                selfv = self.lookup(top.params[0]) if top.params else EMPTY
                if top.cls is not None:
                    for b in top.cls.mro()[1:]:
                        if m in b.methods:
                            return self.apply_summary(b.methods[m], [selfv or EMPTY] + args, kwargs, c)
                if m in ("generic_visit", "visit") and args:
                    self.mutate(args[0], c, "ast.NodeTransformer traversal rewrites the tree in place", "*")
                    self.mutate_deep(args[0], c, "ast.NodeTransformer traversal rewrites the tree in place")
                    return args[0] | self.fresh(c, kind="unknown")
                return EMPTY
            self._cur_nkw = len(c.keywords)
            targets = [] if self.receiver_is_builtin(f.value, recv) else self.resolve_attr_call(f, c.args)
            out = set()
            handled = False
            if m in ("visit", "generic_visit") and args and self.receiver_is_transformer(f.value):
                self.mutate(args[0], c, "ast.NodeTransformer.visit rewrites the tree in place", "*")
                self.mutate_deep(args[0], c, "ast.NodeTransformer.visit rewrites the tree in place")
                out |= args[0] | self.fresh(c, kind="unknown")
                handled = True
            if m in BUILTIN_MUTATORS and not (m == "add" and len(c.args) + len(c.keywords) != 1):
                known_repo = self.class_of(f.value) is not None or (isinstance(f.value, ast.Name) and f.value.id in ("self", "cls"))
                if not known_repo:
                    self.mutate(recv, c, f"`{norm(f)}(...)` modifies its receiver")
                    for i in BUILTIN_MUTATORS[m]:
                        if i < len(args):
                            v = args[i]
                            if m in ("extend", "update"):
                                v = self.deepen(v, "*")
                            self.store(recv, "*", v)
                    if m in ("pop", "popitem", "setdefault"):
                        out |= self.deepen(recv, "*")
                    # repo methods with the builtin's own shape add nothing but noise
                    targets = [(fn, b) for fn, b in targets if not self.same_shape_as_builtin(m, fn)]
                    handled = True
            if targets:
                for fn, bound in targets:
                    if fn.parent is not None:
                        out |= self.inline(fn, args, kwargs, c)
                    elif bound:
                        out |= self.apply_summary(fn, [recv] + args, kwargs, c)
                    else:
                        out |= self.apply_summary(fn, args, kwargs, c)
                handled = True
            if handled:
                an.calls_resolved += 1
                return frozenset(out)
            if m in SHALLOW_METHODS:
                an.calls_resolved += 1
                return self.fresh(c, self.deepen(recv, "*"), "shallow")
            if m in ALIAS_METHODS:
                an.calls_resolved += 1
                return self.deepen(recv, "*")
            if m in PURE_METHODS:
                an.calls_resolved += 1
                return EMPTY
            self._unres(f".{m}")
            return self.fresh(c, self.deepen(recv, "*"), "unknown")

        self.eval(f)
        self._unres("<computed callee>")
        return self.fresh(c, kind="unknown")

    def maybe_circuit(self, e) -> bool:
        """the operand of `+` may be a QCircuit (the only repository class with a working __add__): its class is
        known, or it is obtained from / named like a circuit (qc, *_qc, *circuit*) - the repository's naming"""
        c = self.class_of(e)
        if c is not None:
            return any(k.name == "QCircuit" for k in c.mro())
        t = norm(e).lower()
        return "qc" in t or "circuit" in t

    def listish(self, e) -> bool:
        """syntactically a builtin sequence / string / number (so `+` is not a repository __add__)"""
        if isinstance(e, (ast.List, ast.Tuple, ast.Constant, ast.JoinedStr, ast.ListComp, ast.GeneratorExp, ast.Dict, ast.Set)):
            return True
        if isinstance(e, ast.BinOp):
            return self.listish(e.left) or self.listish(e.right)
        if isinstance(e, ast.Call) and isinstance(e.func, ast.Name) and e.func.id in ("list", "tuple", "str", "sorted", "len", "int", "float", "range", "reversed", "map", "zip"):
            return True
        if isinstance(e, ast.Subscript) and isinstance(e.slice, ast.Slice):
            return True
        if isinstance(e, ast.Attribute) and e.attr in self.an.builtin_attrs:
            return True
        if isinstance(e, ast.Name):
            v = self.lookup(e.id)
            if v and all(t[0] == "F" and t[1][3] in CONTAINER_SITES for t in v):
                return True
        return False

    def mutate_deep(self, v: Value, node, what: str):
        org = self.origin(node, what)
        for t in v:
            self.mutate_token(t, 1, "*", org)
            self.mutate_token(t, 2, "*", org)

    def top_func(self) -> FuncInfo:
        top = self.fi
        while top.parent is not None:
            top = top.parent
        return top

    def same_shape_as_builtin(self, m: str, fn: FuncInfo) -> bool:
        n = len(fn.params) - (0 if fn.is_static else 1)
        want = {"append": 1, "extend": 1, "remove": 1, "add": 1, "discard": 1, "update": 1, "insert": 2, "pop": 0, "clear": 0, "sort": 0, "reverse": 0}.get(m)
        return want is not None and n == want

    def receiver_is_builtin(self, recv_expr, recv: Value) -> bool:
        if isinstance(recv_expr, ast.Attribute) and recv_expr.attr in self.an.builtin_attrs:
            return True
        if isinstance(recv_expr, (ast.List, ast.Dict, ast.Set, ast.ListComp, ast.Constant, ast.JoinedStr)):
            return True
        if recv and all(t[0] == "F" and t[1][3] in CONTAINER_SITES for t in recv):
            return True
        return False

    def receiver_is_transformer(self, recv_expr) -> bool:
        an = self.an
        c = self.class_of(recv_expr)
        if c is not None:
            return c.qualname in an.transformer_classes
        top = self.top_func()
        if isinstance(recv_expr, ast.Name) and top.params and recv_expr.id == top.params[0] and top.cls is not None:
            return top.cls.qualname in an.transformer_classes
        return False

    def resolve_attr_call(self, f: ast.Attribute, call_args) -> List[Tuple[FuncInfo, bool]]:
        """[(callee, receiver_is_bound_as_param0)]"""
        an = self.an
        m = f.attr
        v = f.value
        out: List[Tuple[FuncInfo, bool]] = []
        top = self.top_func()
        if isinstance(v, ast.Name) and top.cls is not None and top.params and v.id == top.params[0] and top.has_self and self.lookup_type(v.id) is None:
            for c in top.cls.mro():
                for fn in an.attr_closures.get((c.qualname, m), []):
                    out.append((fn, False))
            if out:
                return out
            seen = set()
            for c in [top.cls] + an.repo.subclasses(top.cls):
                fn = c.find_method(m)
                if fn is not None and fn.qualname not in seen:
                    seen.add(fn.qualname)
                    out.append((fn, not fn.is_static))
            return out
        c0 = self.class_of(v)
        if c0 is None and isinstance(v, ast.Name) and self.lookup(v.id) is None:
            # `ClassName.method`: the class itself is named
            r = an.repo.resolve_name(self.fi.module, v.id)
            if isinstance(r, ClassInfo):
                fn = r.find_method(m)
                if fn is not None:
                    return [(fn, False)]
        if c0 is not None:
            seen = set()
            for c in [c0] + an.repo.subclasses(c0):
                fn = c.find_method(m)
                if fn is not None and fn.qualname not in seen:
                    seen.add(fn.qualname)
                    out.append((fn, not fn.is_static))
            return out
        if m.startswith("__") and m.endswith("__"):
            return []
        seen = set()
        npos = len(call_args) if call_args is not None else 0
        for c in an.repo.classes.values():
            if m in c.methods:
                fn = c.methods[m]
                if fn.qualname in seen or fn.is_property:
                    continue
                seen.add(fn.qualname)
                want = len(fn.params) - (0 if fn.is_static else 1)
                ndef = len(fn.node.args.defaults)
                if call_args is not None and fn.node.args.vararg is None and not any(isinstance(a, ast.Starred) for a in call_args):
                    if npos > want or npos + self._cur_nkw < want - ndef:
                        continue
                out.append((fn, not fn.is_static))
        return out

    def construct(self, cls: ClassInfo, args, kwargs, node) -> Value:
        obj = self.fresh(node, kind="object")
        init = cls.find_method("__init__")
        if init is not None:
            self.apply_summary(init, [obj] + args, kwargs, node)
        decos = " ".join(dotted(d) or "" for d in cls.node.decorator_list)
        if init is None or "dataclass" in decos:
            hv = set()
            for a in list(args) + list(kwargs.values()):
                hv |= a
            self.store(obj, "*", frozenset(hv))
        return obj

    def escape(self, name: str, args, kwargs, node):
        for v in list(args) + list(kwargs.values()):
            for t in v:
                if t[0] == "P":
                    k = (t[1], t[2], name)
                    if k not in self.fr.summary.escapes and len(self.fr.summary.escapes) < 60:
                        self.fr.summary.escapes[k] = (t[1], t[2], name, self.fi.loc(node))

    def external(self, name: str, args, kwargs, node) -> Value:
        last = name.split(".")[-1]
        if not (last == "deepcopy" or name.startswith("ast.") or name.startswith("typing.") or last in ("copy", "partial", "reduce", "getsource", "isclass", "cast", "get_args")):
            self.escape(name, args, kwargs, node)
        if last == "deepcopy":
            return self.fresh(node, kind="object")
        if name == "copy.copy" or (last == "copy" and name.startswith("copy")):
            hv = set()
            for a in args:
                hv |= self.deepen(a, "<fields>")
            return self.fresh(node, frozenset(hv), "shallow")
        if name in ("ast.fix_missing_locations", "ast.increment_lineno", "ast.copy_location") and args:
            self.mutate(args[0], node, f"{name} writes positions into the tree", "*")
            self.mutate_deep(args[0], node, f"{name} writes positions into the tree")
            return args[0]
        if name in ("ast.Constant", "ast.Name", "ast.Load", "ast.Store"):
            # leaf nodes: their payload (a Python value / a string) is not a syntax node, and the only mutators of
            # trees in this repository (NodeTransformer, fix_missing_locations) touch syntax nodes only
            return self.fresh(node, kind="object")
        if name.startswith("ast.") and last[:1].isupper():
            hv = set()
            for a in list(args) + list(kwargs.values()):
                hv |= a
            return self.fresh(node, frozenset(hv), "shallow")
        if last in ("partial",):
            hv = set()
            for a in list(args) + list(kwargs.values()):
                hv |= a
            return self.fresh(node, frozenset(hv), "shallow")
        if last == "reduce" and len(node.args) >= 2:
            fn = self.callable_arg(node.args[0])
            per = self.deepen(args[1], "*")
            init = args[2] if len(args) > 2 else EMPTY
            if fn is not None:
                return self.apply_callable(fn, [init | per, per], node) | init
            return init | per
        return self.fresh(node, kind="unknown")

    def apply_summary(self, fn: FuncInfo, args: List[Value], kwargs: Dict[str, Value], node) -> Value:
        an = self.an
        if fn.parent is not None:
            return self.inline(fn, args, kwargs, node)
        s = an.summaries.get(fn.qualname)
        if s is None:
            return self.fresh(node, kind="unknown")
        ps = fn.all_params
        actual: Dict[int, Value] = {}
        npos = len(fn.params)
        for i, a in enumerate(args):
            if i < npos:
                actual[i] = a
            elif fn.node.args.vararg is not None:
                vi = ps.index(fn.node.args.vararg.arg)
                actual[vi] = actual.get(vi, EMPTY) | a
        for k, v in kwargs.items():
            if k in ps:
                actual[ps.index(k)] = v
            elif fn.node.args.kwarg is not None:
                ki = ps.index(fn.node.args.kwarg.arg)
                actual[ki] = actual.get(ki, EMPTY) | v
        for pi, slot in s.mut.items():
            v = actual.get(pi, EMPTY)
            if not v:
                continue
            for (d, a, org) in slot.values():
                for t in v:
                    self.mutate_token(t, d, a, org)
        for (j, attr_j, hd, i, d, a_i) in s.stores:
            if j in actual and i in actual:
                self.store_at(actual[j], attr_j, hd, self.transform(actual[i], d, a_i))
        out = set()
        for (i, d, a) in s.ret:
            if i in actual:
                out |= self.transform(actual[i], d, a)
        if s.ret_fresh:
            obj = self.fresh(node, kind="shallow" if s.ret_container else "object")
            for (attr, hd, i, d, a) in s.ret_holds:
                if i in actual:
                    self.store_at(obj, attr, hd, self.transform(actual[i], d, a))
            out |= obj
        for org_k, org in s.gmut.items():
            self.fr.summary.gmut.setdefault(org_k, org)
        for (pi, d, name), (_, _, _, where) in s.escapes.items():
            for t in actual.get(pi, EMPTY):
                if t[0] == "P":
                    k = (t[1], min(t[2] + d, 2), name)
                    if k not in self.fr.summary.escapes and len(self.fr.summary.escapes) < 60:
                        self.fr.summary.escapes[k] = (t[1], min(t[2] + d, 2), name, where)
        return frozenset(out)
