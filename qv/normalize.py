"""Normalisation toward the reference tree, applied at load (before indexing, before any rule).

The rule tables were confirmed on a reference tree whose function inventory (`functions.json`) and per-function
locals (`names.json`) are frozen.  Two behaviour-preserving refactorings are undone syntactically so that they are
neither an alarm nor a reason to give up:

* NEW HELPERS.  A function that is not in the frozen inventory and is called from a function that is, is inlined at
  the call site when that is a purely syntactic operation:
    - expression helper: the body is `return E`, or a chain of `if t: return r` ending in `return r` (optionally
      preceded by single-use local bindings) - the call is replaced by the corresponding expression;
    - statement helper at `return H(...)`: the body is spliced in (its returns stay returns);
    - statement helper at `x = H(...)` / `H(...)`: the body has no return except as its last statement.
  Parameters are bound by position / keyword / default; `self.H(...)`, `cls.H(...)`, `Class.H(...)` bind the
  receiver.  Anything else (varargs, recursion, decorators other than static/classmethod, generators) is left alone.
* NEW ALIASES.  A local that is not in the frozen list of its function, is bound exactly once, to a pure path
  expression (`self.marked_ancillas`, `ws[-1]`, `fun_ast.body[0]`) none of whose parts is re-bound or stored to in
  the function, is replaced by that expression.

Both work on the parsed tree only.  Nothing is executed.  The original text is not changed; positions of inlined
code point at the call site.
"""
from __future__ import annotations

import ast
import copy
import json
import os
from typing import Dict, List, Optional, Set, Tuple

_FUNCS: Optional[Set[str]] = None


def frozen_functions() -> Set[str]:
    global _FUNCS
    if _FUNCS is None:
        p = os.path.join(os.path.dirname(os.path.abspath(__file__)), "functions.json")
        _FUNCS = set()
        if os.path.exists(p) and not os.environ.get("QV_NO_NAME_NORMALISATION"):
            with open(p) as fh:
                _FUNCS = set(json.load(fh))
    return _FUNCS


# new functions of the whole package, by bare name: name -> [(node, class node or None, module name)]
FOREIGN: Dict[str, List[Tuple[ast.AST, Optional[ast.ClassDef], str]]] = {}


def set_foreign(trees: Dict[str, ast.Module]):
    """index the functions of every module that are not in the reference inventory, so that a helper moved to another
    module (a base class, a utility module) can still be inlined where it is called"""
    FOREIGN.clear()
    ff = frozen_functions()
    if not ff:
        return

    def go(body, prefix, cls, modname):
        for s_ in body:
            if isinstance(s_, (ast.FunctionDef, ast.AsyncFunctionDef)):
                if f"{prefix}.{s_.name}" not in ff:
                    FOREIGN.setdefault(s_.name, []).append((s_, cls, modname))
            elif isinstance(s_, ast.ClassDef):
                go(s_.body, f"{prefix}.{s_.name}", s_, modname)
            elif isinstance(s_, (ast.If, ast.Try)):
                go(getattr(s_, "body", []), prefix, cls, modname)

    for modname, tree in trees.items():
        go(tree.body, modname, None, modname)


# ------------------------------------------------------------------------------------------------ helpers


def _docless(body: List[ast.stmt]) -> List[ast.stmt]:
    if body and isinstance(body[0], ast.Expr) and isinstance(body[0].value, ast.Constant) and isinstance(body[0].value.value, str):
        return body[1:]
    return body


def _is_generator(fn) -> bool:
    for n in ast.walk(fn):
        if isinstance(n, (ast.Yield, ast.YieldFrom, ast.Await)):
            return True
    return False


def _names_stored(fn) -> Set[str]:
    out = set()
    for n in ast.walk(fn):
        if isinstance(n, ast.Name) and isinstance(n.ctx, (ast.Store, ast.Del)):
            out.add(n.id)
    return out


def _names_used(node) -> Set[str]:
    return {n.id for n in ast.walk(node) if isinstance(n, ast.Name)}


class _Subst(ast.NodeTransformer):
    def __init__(self, mp: Dict[str, ast.expr]):
        self.mp = mp

    def visit_Name(self, node):
        if isinstance(node.ctx, ast.Load) and node.id in self.mp:
            return ast.copy_location(copy.deepcopy(self.mp[node.id]), node)
        return node

    # do not descend into nested scopes that re-bind the name
    def visit_Lambda(self, node):
        shadow = {a.arg for a in node.args.args}
        inner = _Subst({k: v for k, v in self.mp.items() if k not in shadow})
        node.body = inner.visit(node.body)
        return node


def _subst(node, mp):
    return _Subst(mp).visit(copy.deepcopy(node))


def _relocate(node, at):
    for n in ast.walk(node):
        if hasattr(n, "lineno") or isinstance(n, (ast.expr, ast.stmt)):
            n.lineno = getattr(at, "lineno", 1)
            n.col_offset = getattr(at, "col_offset", 0)
            n.end_lineno = getattr(at, "end_lineno", n.lineno)
            n.end_col_offset = getattr(at, "end_col_offset", n.col_offset)
    return node


def _simple_arg(e) -> bool:
    """expressions that may be duplicated / moved freely"""
    if isinstance(e, (ast.Name, ast.Constant)):
        return True
    if isinstance(e, ast.Attribute):
        return _simple_arg(e.value)
    if isinstance(e, ast.Subscript):
        return _simple_arg(e.value) and isinstance(e.slice, (ast.Constant, ast.Name)) or (isinstance(e.slice, ast.UnaryOp) and isinstance(e.slice.operand, ast.Constant) and _simple_arg(e.value))
    return False


PURE_FUNCS = {"isinstance", "issubclass", "len", "hasattr", "type", "getattr", "bool", "int", "str", "tuple", "abs", "min", "max"}
PURE_METHODS = {"startswith", "endswith", "get", "keys", "values", "items", "index", "count", "isdigit", "lower", "upper"}


def _pure_expr(e) -> bool:
    """expressions without side effects that may be moved to their (later) uses as long as what they read is stable"""
    if isinstance(e, (ast.Name, ast.Constant)):
        return True
    if isinstance(e, ast.Attribute):
        return _pure_expr(e.value)
    if isinstance(e, ast.Subscript):
        return _pure_expr(e.value) and _pure_expr(e.slice)
    if isinstance(e, ast.Slice):
        return all(x is None or _pure_expr(x) for x in (e.lower, e.upper, e.step))
    if isinstance(e, ast.BoolOp):
        return all(_pure_expr(v) for v in e.values)
    if isinstance(e, ast.UnaryOp):
        return _pure_expr(e.operand)
    if isinstance(e, ast.BinOp):
        return _pure_expr(e.left) and _pure_expr(e.right)
    if isinstance(e, ast.Compare):
        return _pure_expr(e.left) and all(_pure_expr(c) for c in e.comparators)
    if isinstance(e, ast.IfExp):
        return _pure_expr(e.test) and _pure_expr(e.body) and _pure_expr(e.orelse)
    if isinstance(e, (ast.Tuple, ast.List)):
        return all(_pure_expr(x) for x in e.elts)
    if isinstance(e, ast.Call) and not e.keywords:
        if isinstance(e.func, ast.Name) and e.func.id in PURE_FUNCS:
            return all(_pure_expr(a) for a in e.args)
        if isinstance(e.func, ast.Attribute) and e.func.attr in PURE_METHODS:
            return _pure_expr(e.func.value) and all(_pure_expr(a) for a in e.args)
    return False


def _bind_params(fn, call: ast.Call, receiver: Optional[ast.expr], skip_first: bool) -> Optional[Dict[str, ast.expr]]:
    a = fn.args
    if a.vararg or a.kwarg or a.posonlyargs or a.kwonlyargs:
        return None
    params = [x.arg for x in a.args]
    mp: Dict[str, ast.expr] = {}
    if skip_first:
        if not params:
            return None
        mp[params[0]] = receiver if receiver is not None else ast.Name(id=params[0], ctx=ast.Load())
        params = params[1:]
    if any(isinstance(x, ast.Starred) for x in call.args) or any(k.arg is None for k in call.keywords):
        return None
    if len(call.args) > len(params):
        return None
    for p, v in zip(params, call.args):
        mp[p] = v
    for k in call.keywords:
        if k.arg not in params or k.arg in mp:
            return None
        mp[k.arg] = k.value
    defaults = a.defaults
    dparams = [x.arg for x in a.args][len(a.args) - len(defaults):] if defaults else []
    for p, d in zip(dparams, defaults):
        if p not in mp:
            if isinstance(d, (ast.List, ast.Dict, ast.Set, ast.ListComp, ast.DictComp, ast.SetComp, ast.Call)):
                # one shared object per definition, not a fresh one per call: substituting the display would change
                # (and hide) what the helper does to it
                return None
            mp[p] = d
    if any(p not in mp for p in params):
        return None
    return mp


def _expr_of_body(body: List[ast.stmt]) -> Optional[ast.expr]:
    """expression computed by a body made of single-assignment local bindings, `if t: return r` steps and a final
    `return r`; None when the body is anything else"""
    body = _docless(body)
    binds: Dict[str, ast.expr] = {}
    steps: List[Tuple[ast.expr, ast.expr]] = []
    final = None
    for i, s in enumerate(body):
        if isinstance(s, ast.Assign) and len(s.targets) == 1 and isinstance(s.targets[0], ast.Name) and s.targets[0].id not in binds:
            binds[s.targets[0].id] = _subst(s.value, binds)
        elif (
            isinstance(s, ast.Assign)
            and len(s.targets) == 1
            and isinstance(s.targets[0], (ast.Tuple, ast.List))
            and isinstance(s.value, (ast.Tuple, ast.List))
            and len(s.targets[0].elts) == len(s.value.elts)
            and all(isinstance(t, ast.Name) and t.id not in binds for t in s.targets[0].elts)
            and len({t.id for t in s.targets[0].elts}) == len(s.targets[0].elts)
            and not any(t.id in _names_used(v) for t in s.targets[0].elts for v in s.value.elts)
        ):
            # `a, b = x, y` of fresh names that the right-hand sides do not read
            vals = [_subst(v, binds) for v in s.value.elts]
            for t, v in zip(s.targets[0].elts, vals):
                binds[t.id] = v
        elif isinstance(s, ast.If) and not s.orelse and len(s.body) == 1 and isinstance(s.body[0], ast.Return) and s.body[0].value is not None:
            steps.append((_subst(s.test, binds), _subst(s.body[0].value, binds)))
        elif isinstance(s, ast.If) and len(s.body) == 1 and isinstance(s.body[0], ast.Return) and s.body[0].value is not None and i == len(body) - 1:
            e2 = _expr_of_body(s.orelse)
            if e2 is None:
                return None
            steps.append((_subst(s.test, binds), _subst(s.body[0].value, binds)))
            final = _subst(e2, binds)
        elif isinstance(s, ast.Return) and s.value is not None and i == len(body) - 1:
            final = _subst(s.value, binds)
        else:
            return None
    if final is None:
        return None
    acc = final
    for t, r in reversed(steps):
        if isinstance(r, ast.Constant) and r.value is True:
            acc = ast.BoolOp(op=ast.Or(), values=[t, acc])
        elif isinstance(r, ast.Constant) and r.value is False:
            acc = ast.BoolOp(op=ast.And(), values=[ast.UnaryOp(op=ast.Not(), operand=t), acc])
        else:
            acc = ast.IfExp(test=t, body=r, orelse=acc)
    return acc


def _has_inner_return(body: List[ast.stmt]) -> bool:
    """a Return anywhere except as the very last top-level statement"""
    for i, s in enumerate(body):
        for n in ast.walk(s):
            if isinstance(n, ast.Return) and not (n is s and i == len(body) - 1):
                if not _inside_nested_def(s, n):
                    return True
    return False


def _inside_nested_def(root, node) -> bool:
    for d in ast.walk(root):
        if isinstance(d, (ast.FunctionDef, ast.AsyncFunctionDef, ast.Lambda)) and d is not root:
            if any(x is node for x in ast.walk(d)):
                return True
    return False


def _own_nodes(fn):
    """nodes of fn, nested defs included as nodes but not entered"""
    todo = list(ast.iter_child_nodes(fn))
    while todo:
        n = todo.pop()
        yield n
        if isinstance(n, (ast.FunctionDef, ast.AsyncFunctionDef, ast.ClassDef, ast.Lambda)):
            continue
        todo.extend(ast.iter_child_nodes(n))


def _preorder(root):
    todo = [root]
    while todo:
        n = todo.pop()
        yield n
        todo.extend(reversed(list(ast.iter_child_nodes(n))))


def _same_pos(a, b) -> bool:
    return (getattr(a, "lineno", None), getattr(a, "col_offset", None)) == (getattr(b, "lineno", None), getattr(b, "col_offset", None))


def _returns_to_chain(body: List[ast.stmt], make_assign) -> Optional[List[ast.stmt]]:
    """body = [s..., if t1: ...; return a, if t2: ...; return b, ..., return z | raise]  ->  the same computation
    with every `return v` replaced by make_assign(v) and the early exits turned into an if/elif/else chain.
    None when a return sits anywhere else (in a loop, in a nested branch that falls through, in a try)."""
    def no_return(stmts) -> bool:
        return not any(isinstance(n, ast.Return) for s_ in stmts for n in ast.walk(s_) if not _inside_nested_def(s_, n))

    def go(stmts: List[ast.stmt]) -> Optional[List[ast.stmt]]:
        out: List[ast.stmt] = []
        for i, s_ in enumerate(stmts):
            if isinstance(s_, ast.Return):
                if i != len(stmts) - 1:
                    return None
                return out + (make_assign(s_.value) if s_.value is not None else make_assign(ast.Constant(value=None)))
            if isinstance(s_, ast.Raise) and i == len(stmts) - 1:
                return out + [s_]
            if isinstance(s_, ast.If) and not no_return([s_]):
                b = go(s_.body)
                if b is None:
                    return None
                if s_.orelse:
                    o = go(s_.orelse)
                    if o is None:
                        return None
                    rest_needed = not (_ends(b) and _ends(o))
                    new_if = ast.If(test=s_.test, body=b, orelse=o)
                    if rest_needed:
                        return None
                    return out + [new_if]
                if not _ends_in_exit(s_.body):
                    return None
                rest = go(stmts[i + 1 :])
                if rest is None:
                    return None
                return out + [ast.If(test=s_.test, body=b, orelse=rest)]
            if not no_return([s_]):
                return None
            out.append(s_)
        return out

    def _ends(stmts) -> bool:
        return bool(stmts)

    def _ends_in_exit(stmts) -> bool:
        return bool(stmts) and isinstance(stmts[-1], (ast.Return, ast.Raise))

    return go(body)


def _split_parallel(target, value) -> List[ast.stmt]:
    """`a, b, c = x, b, c`  ->  `a = x` (self-assignments dropped) when the parallel assignment can be done in
    sequence: no right-hand side reads a target assigned before it"""
    if isinstance(target, (ast.Tuple, ast.List)) and isinstance(value, (ast.Tuple, ast.List)) and len(target.elts) == len(value.elts) and all(isinstance(t, ast.Name) for t in target.elts):
        pairs = [(t, v) for t, v in zip(target.elts, value.elts) if not (isinstance(v, ast.Name) and v.id == t.id)]
        done: Set[str] = set()
        ok = True
        for t, v in pairs:
            if _names_used(v) & done:
                ok = False
            done.add(t.id)
        if ok:
            return [ast.Assign(targets=[ast.Name(id=t.id, ctx=ast.Store())], value=v) for t, v in pairs]
    return [ast.Assign(targets=[target], value=value)]


_NEG_OPS = {ast.Is: ast.IsNot, ast.IsNot: ast.Is, ast.Eq: ast.NotEq, ast.NotEq: ast.Eq, ast.In: ast.NotIn, ast.NotIn: ast.In, ast.Lt: ast.GtE, ast.GtE: ast.Lt, ast.Gt: ast.LtE, ast.LtE: ast.Gt}


def _negate(test):
    """`not (a is not b)` is `a is b`: one spelling for the negation of a single comparison"""
    if isinstance(test, ast.UnaryOp) and isinstance(test.op, ast.Not):
        return test.operand
    if isinstance(test, ast.Compare) and len(test.ops) == 1 and type(test.ops[0]) in _NEG_OPS and not isinstance(test.ops[0], (ast.Lt, ast.GtE, ast.Gt, ast.LtE)):
        return ast.Compare(left=test.left, ops=[_NEG_OPS[type(test.ops[0])]()], comparators=test.comparators)
    return ast.UnaryOp(op=ast.Not(), operand=test)


def _split_parallel_any(target, value) -> Optional[List[ast.stmt]]:
    """`a, b = x, y` and `a, b = (x1, y1) if c else (x2, y2)` as a sequence of single assignments, in an order in
    which no right-hand side reads a name assigned before it (self-assignments dropped); None when there is no such
    order (a swap) or the value is not made of tuples"""
    if not (isinstance(target, (ast.Tuple, ast.List)) and all(isinstance(t, ast.Name) for t in target.elts)):
        return None
    n = len(target.elts)
    if isinstance(value, (ast.Tuple, ast.List)) and len(value.elts) == n:
        rhs = list(value.elts)
    elif isinstance(value, ast.IfExp) and all(isinstance(b, (ast.Tuple, ast.List)) and len(b.elts) == n for b in (value.body, value.orelse)) and _pure_expr(value.test):
        rhs = []
        for k in range(n):
            a, b = value.body.elts[k], value.orelse.elts[k]
            if isinstance(a, ast.Constant) and isinstance(b, ast.Constant) and a.value is True and b.value is False:
                rhs.append(copy.deepcopy(value.test))
            elif isinstance(a, ast.Constant) and isinstance(b, ast.Constant) and a.value is False and b.value is True:
                rhs.append(_negate(copy.deepcopy(value.test)))
            elif ast.dump(a) == ast.dump(b):
                rhs.append(a)
            else:
                rhs.append(ast.IfExp(test=copy.deepcopy(value.test), body=a, orelse=b))
    else:
        return None
    comps = [(t.id, v) for t, v in zip(target.elts, rhs)]
    if len({t for t, _ in comps}) != n:
        return None
    out = []
    remaining = list(comps)
    while remaining:
        pick = None
        for c in remaining:
            if not any(c[0] in _names_used(o[1]) for o in remaining if o is not c):
                pick = c
                break
        if pick is None:
            return None
        remaining.remove(pick)
        if isinstance(pick[1], ast.Name) and pick[1].id == pick[0]:
            continue
        if isinstance(pick[1], ast.IfExp) and isinstance(pick[1].orelse, ast.Name) and pick[1].orelse.id == pick[0] and False:
            continue
        out.append(ast.Assign(targets=[ast.Name(id=pick[0], ctx=ast.Store())], value=pick[1]))
    return out


class _GetattrConst(ast.NodeTransformer):
    """getattr(o, 'name') with a literal identifier -> o.name ; partial(f, *a, **k)(*b, **l) -> f(*a, *b, **k, **l)"""

    def visit_Call(self, node):
        self.generic_visit(node)
        f = node.func
        if isinstance(f, ast.Call) and ((isinstance(f.func, ast.Name) and f.func.id == "partial") or (isinstance(f.func, ast.Attribute) and f.func.attr == "partial")) and f.args and not any(isinstance(a, ast.Starred) for a in f.args + node.args) and not any(k.arg is None for k in f.keywords + node.keywords):
            kw = {k.arg: k for k in f.keywords}
            kw.update({k.arg: k for k in node.keywords})
            return ast.copy_location(ast.Call(func=f.args[0], args=list(f.args[1:]) + list(node.args), keywords=list(kw.values())), node)
        if isinstance(node.func, ast.Name) and node.func.id == "getattr" and len(node.args) == 2 and not node.keywords and isinstance(node.args[1], ast.Constant) and isinstance(node.args[1].value, str) and node.args[1].value.isidentifier():
            return ast.copy_location(ast.Attribute(value=node.args[0], attr=node.args[1].value, ctx=ast.Load()), node)
        return node


class _Rename(ast.NodeTransformer):
    def __init__(self, mp):
        self.mp = mp

    def visit_Name(self, node):
        if node.id in self.mp:
            node.id = self.mp[node.id]
        return node


def _stmt_inline(fn, mp: Dict[str, ast.expr], caller_names: Set[str], at) -> Optional[Tuple[List[ast.stmt], List[ast.stmt]]]:
    """(prologue assignments, substituted body) of helper fn for a call with parameter map mp"""
    body = copy.deepcopy(_docless(fn.body))
    stored = _names_stored(fn)
    params = [a.arg for a in fn.args.args]
    # locals of the helper that clash with names of the caller are renamed
    locs = stored - set(params)
    ren = {}
    for l in sorted(locs):
        if l in caller_names:
            k = l + "_h"
            while k in caller_names or k in locs:
                k += "_"
            ren[l] = k
    prologue = []
    direct: Dict[str, ast.expr] = {}
    for p in params:
        v = mp[p]
        if p in stored or not _simple_arg(v):
            # parameter re-assigned in the helper, or an argument that must be evaluated once: bind it
            name = p
            if p in caller_names and not (isinstance(v, ast.Name) and v.id == p):
                name = p + "_h"
                while name in caller_names or name in locs:
                    name += "_"
                ren[p] = name
            if not (isinstance(v, ast.Name) and v.id == name):
                prologue.append(ast.Assign(targets=[ast.Name(id=name, ctx=ast.Store())], value=copy.deepcopy(v)))
        else:
            direct[p] = v
    mod = ast.Module(body=body, type_ignores=[])
    if ren:
        _Rename(ren).visit(mod)
    if direct:
        mod = _Subst(direct).visit(mod)
    out = mod.body
    for s in prologue + out:
        _relocate(s, at)
    return prologue, out


# ------------------------------------------------------------------------------------------------ driver


class ModuleNormalizer:
    def __init__(self, tree: ast.Module, modname: str, frozen_funcs: Set[str], frozen_names: Dict[str, List[str]]):
        self.tree = tree
        self.mod = modname
        self.ff = frozen_funcs
        self.fn = frozen_names
        self.log: List[str] = []
        # qualname -> (node, class node or None)
        self.funcs: Dict[str, Tuple[ast.AST, Optional[ast.ClassDef]]] = {}
        self._cur = None
        self._collect(tree.body, modname, None)

    def _collect(self, body, prefix, cls):
        for s in body:
            if isinstance(s, (ast.FunctionDef, ast.AsyncFunctionDef)):
                self.funcs[f"{prefix}.{s.name}"] = (s, cls)
            elif isinstance(s, ast.ClassDef):
                self._collect(s.body, f"{prefix}.{s.name}", s)
            elif isinstance(s, (ast.If, ast.Try)):
                self._collect(getattr(s, "body", []), prefix, cls)

    def is_new(self, q: str) -> bool:
        return bool(self.ff) and q not in self.ff

    def run(self):
        if not self.ff:
            return
        known = [(q, n, c) for q, (n, c) in self.funcs.items() if not self.is_new(q)]
        for q, node, cls in known:
            inlined = False
            for _ in range(4):
                if not self._inline_calls(q, node, cls):
                    break
                inlined = True
            if inlined:
                # a helper called with a literal flag leaves `x if True else y` / `if False:` behind
                self._fold_constant_tests(q, node)
            self._drop_unused_nested(q, node)
            self._drop_self_assignments(node)
            self._unroll_table_loops(q, node)
            self._ifelse_blocks_to_ifexp(q, node)
            self._split_tuple_assigns(q, node)
            self._loops_to_comprehensions(q, node)
            self._inline_aliases(q, node)
            # a second round: inlining temporaries can expose an appending loop, and the other way round
            self._loops_to_comprehensions(q, node)
            self._inline_aliases(q, node)

    def _fold_constant_tests(self, q: str, node):
        log = self.log

        class Fold(ast.NodeTransformer):
            def visit_FunctionDef(self, n):
                if n is node:
                    self.generic_visit(n)
                return n

            visit_AsyncFunctionDef = visit_FunctionDef

            def visit_Lambda(self, n):
                return n

            def visit_IfExp(self, n):
                self.generic_visit(n)
                if isinstance(n.test, ast.Constant) and isinstance(n.test.value, bool):
                    log.append(f"{q}: conditional expression on the literal {n.test.value} folded")
                    return n.body if n.test.value else n.orelse
                return n

            def visit_If(self, n):
                self.generic_visit(n)
                if isinstance(n.test, ast.Constant) and isinstance(n.test.value, bool):
                    log.append(f"{q}: `if {n.test.value}:` folded")
                    keep = n.body if n.test.value else n.orelse
                    return keep if keep else ast.copy_location(ast.Pass(), n)
                return n

        Fold().visit(node)
        for parent in ast.walk(node):
            for field in ("body", "orelse", "finalbody"):
                stmts = getattr(parent, field, None)
                if isinstance(stmts, list) and len(stmts) > 1 and any(isinstance(x, ast.Pass) for x in stmts):
                    stmts[:] = [x for x in stmts if not isinstance(x, ast.Pass)] or [stmts[0]]

    # ---- resolving a call to a new helper
    def _resolve(self, call: ast.Call, q: str, cls: Optional[ast.ClassDef]):
        """(helper node, receiver expr or None, skip_first) for a call to a NEW function of this module"""
        f = call.func
        cprefix = q.rsplit(".", 1)[0]
        if isinstance(f, ast.Name) and self._cur is not None:
            for d in _own_nodes(self._cur):
                if isinstance(d, (ast.FunctionDef, ast.AsyncFunctionDef)) and d.name == f.id and d is not self._cur:
                    if self.is_new(f"{q}.{d.name}") and not d.decorator_list:
                        return d, None, False
                    return None
        if isinstance(f, ast.Name):
            hq = f"{self.mod}.{f.id}"
            if hq in self.funcs and self.is_new(hq) and self.funcs[hq][1] is None:
                return self.funcs[hq][0], None, False
            if hq not in self.funcs:
                # a new module-level helper of another module, imported here under its own name
                cands = [c for c in FOREIGN.get(f.id, []) if c[1] is None and c[2] != self.mod]
                if len(cands) == 1 and self._imports_name(f.id) and not cands[0][0].decorator_list:
                    return cands[0][0], None, False
            return None
        if isinstance(f, ast.Attribute) and isinstance(f.value, ast.Name) and cls is not None:
            recv = f.value.id
            hq = f"{cprefix}.{f.attr}"
            mangled = f"{cprefix}._{cls.name.lstrip('_')}{f.attr}" if f.attr.startswith("__") and not f.attr.endswith("__") else None
            if hq not in self.funcs and mangled:
                hq = mangled
            if hq in self.funcs and self.is_new(hq) and self.funcs[hq][1] is cls and recv in ("self", "cls", cls.name):
                h = self.funcs[hq][0]
                decos = {(d.id if isinstance(d, ast.Name) else getattr(d, "attr", "")) for d in h.decorator_list}
                if decos - {"staticmethod", "classmethod"}:
                    return None
                if "staticmethod" in decos:
                    return h, None, False
                if "classmethod" in decos:
                    return h, ast.Name(id=recv if recv != "self" else "self.__class__", ctx=ast.Load()) if recv != "self" else ast.Attribute(value=ast.Name(id="self", ctx=ast.Load()), attr="__class__", ctx=ast.Load()), True
                if recv in ("self",):
                    return h, ast.Name(id="self", ctx=ast.Load()), True
            if hq not in self.funcs and recv == "self" and not (f.attr.startswith("__")):
                # a new method of a base class defined in another module
                bases = {b.id if isinstance(b, ast.Name) else getattr(b, "attr", None) for b in cls.bases}
                cands = [c for c in FOREIGN.get(f.attr, []) if c[1] is not None and c[1].name in bases and c[2] != self.mod]
                if len(cands) == 1 and not cands[0][0].decorator_list:
                    return cands[0][0], ast.Name(id="self", ctx=ast.Load()), True
        return None

    def _imports_name(self, name: str) -> bool:
        for s_ in ast.walk(self.tree):
            if isinstance(s_, ast.ImportFrom) and any((a.asname or a.name) == name and a.name == name for a in s_.names):
                return True
        return False

    def _inline_calls(self, q: str, node, cls) -> bool:
        changed = False
        self._cur = node
        caller_names = _names_stored(node) | {a.arg for a in node.args.args}
        # 0. a statement helper called inside a larger expression: `return a + self.H()` -> `_h = self.H()` /
        #    `return a + _h` when nothing else in the statement is a call (evaluation order is then unobservable)
        for parent in ast.walk(node):
            for field in ("body", "orelse", "finalbody"):
                stmts = getattr(parent, field, None)
                if not isinstance(stmts, list) or not stmts or not isinstance(stmts[0], ast.stmt):
                    continue
                i = 0
                while i < len(stmts):
                    s = stmts[i]
                    i += 1
                    if not isinstance(s, (ast.Return, ast.Assign, ast.AugAssign, ast.Expr)) or getattr(s, "value", None) is None:
                        continue
                    if isinstance(s.value, ast.Call) and self._resolve(s.value, q, cls) is not None:
                        continue  # a direct call: handled at statement position below
                    if any(isinstance(n, (ast.Lambda, ast.ListComp, ast.SetComp, ast.DictComp, ast.GeneratorExp, ast.IfExp, ast.BoolOp, ast.NamedExpr, ast.Await, ast.Yield, ast.YieldFrom)) for n in ast.walk(s.value)):
                        continue
                    calls = [n for n in ast.walk(s.value) if isinstance(n, ast.Call)]
                    hc = [c for c in calls if self._resolve(c, q, cls) is not None and _expr_of_body(self._resolve(c, q, cls)[0].body) is None]
                    if len(hc) != 1:
                        continue
                    inside = {id(n) for n in ast.walk(hc[0])}
                    # other calls may only be the ones the helper's result is an argument of (they run afterwards)
                    # ... or calls of plain functions (`int(..)`, a module-level helper): they share no receiver with it
                    if any(id(c) not in inside and not any(x is hc[0] for x in ast.walk(c)) and not isinstance(c.func, ast.Name) for c in calls):
                        continue
                    h = self._resolve(hc[0], q, cls)[0]
                    if _expr_of_body(h.body) is not None or _is_generator(h) or h is node or any(isinstance(n, ast.While) for n in ast.walk(h)):
                        continue
                    k = 1
                    while f"_h{k}" in caller_names:
                        k += 1
                    tmp = f"_h{k}"
                    caller_names.add(tmp)
                    pre = _relocate(ast.Assign(targets=[ast.Name(id=tmp, ctx=ast.Store())], value=hc[0]), s)

                    class Put(ast.NodeTransformer):
                        def visit_Call(self, c):
                            if c is hc[0]:
                                return ast.copy_location(ast.Name(id=tmp, ctx=ast.Load()), c)
                            return self.generic_visit(c)

                    s.value = Put().visit(s.value)
                    stmts.insert(i - 1, pre)
                    i += 1
                    self.log.append(f"{q}: call of new helper {h.name} hoisted out of an expression")
                    changed = True
        # 1. statement positions
        for parent in ast.walk(node):
            for field in ("body", "orelse", "finalbody"):
                stmts = getattr(parent, field, None)
                if not isinstance(stmts, list) or not stmts or not isinstance(stmts[0], ast.stmt):
                    continue
                i = 0
                while i < len(stmts):
                    s = stmts[i]
                    call = None
                    kind = None
                    if isinstance(s, ast.Return) and isinstance(s.value, ast.Call):
                        call, kind = s.value, "return"
                    elif isinstance(s, ast.Assign) and len(s.targets) == 1 and isinstance(s.value, ast.Call):
                        call, kind = s.value, "assign"
                    elif isinstance(s, ast.Expr) and isinstance(s.value, ast.Call):
                        call, kind = s.value, "expr"
                    r = self._resolve(call, q, cls) if call is not None else None
                    if r is None:
                        i += 1
                        continue
                    h, recv, skip = r
                    if any(isinstance(n, ast.While) for n in ast.walk(h)):
                        # an iterative algorithm of its own: kept as a function (the rules look at it as one)
                        i += 1
                        continue
                    if _is_generator(h) or h is node or any(isinstance(n, ast.Call) and self._resolve(n, q, cls) and self._resolve(n, q, cls)[0] is h for n in ast.walk(h)):
                        i += 1
                        continue
                    mp = self._bind(h, call, recv, skip)
                    if mp is None:
                        i += 1
                        continue
                    hbody = _docless(h.body)
                    as_continue = False
                    if kind != "return" and _has_inner_return(hbody):
                        # the call is the last statement of a loop body and the helper returns nothing: its
                        # `return`s are `continue`s there
                        bare = all(r.value is None or (isinstance(r.value, ast.Constant) and r.value.value is None) for r in ast.walk(ast.Module(body=hbody, type_ignores=[])) if isinstance(r, ast.Return))
                        loops_inside = any(isinstance(n, (ast.For, ast.While)) and any(isinstance(r, ast.Return) for r in ast.walk(n)) for b_ in hbody for n in ast.walk(b_))
                        if kind == "expr" and isinstance(parent, (ast.For, ast.While)) and field == "body" and i == len(stmts) - 1 and bare and not loops_inside:
                            as_continue = True
                        elif kind == "expr" and bare and not loops_inside:
                            # guard clauses of a procedure: `if c: return` / rest  ->  `if c: pass` / `else: rest`
                            res0 = _stmt_inline(h, mp, caller_names, s)
                            chain = _returns_to_chain(res0[1], lambda v: [ast.Pass()]) if res0 is not None else None
                            if chain is None:
                                i += 1
                                continue
                            new = list(res0[0]) + chain
                            for x in new:
                                _relocate(x, s)
                            stmts[i : i + 1] = new
                            self.log.append(f"{q}: inlined new procedure {h.name} (guard clauses as an if/else chain)")
                            caller_names |= _names_stored(ast.Module(body=new, type_ignores=[]))
                            changed = True
                            i += len(new)
                            continue
                        elif kind == "assign":
                            res0 = _stmt_inline(h, mp, caller_names, s)
                            chain = _returns_to_chain(res0[1], lambda v, _t=s.targets: [ast.Assign(targets=copy.deepcopy(_t), value=v)]) if res0 is not None else None
                            if chain is None:
                                i += 1
                                continue
                            new = list(res0[0]) + chain
                            for x in new:
                                _relocate(x, s)
                            stmts[i : i + 1] = new
                            self.log.append(f"{q}: inlined new helper {h.name} at an assign statement (early returns as an if/else chain)")
                            caller_names |= _names_stored(ast.Module(body=new, type_ignores=[]))
                            changed = True
                            i += len(new)
                            continue
                        else:
                            i += 1
                            continue
                    res = _stmt_inline(h, mp, caller_names, s)
                    if res is None:
                        i += 1
                        continue
                    pro, body = res
                    if as_continue:
                        class R2C(ast.NodeTransformer):
                            def visit_Return(self, n):
                                return ast.copy_location(ast.Continue(), n)

                            def visit_FunctionDef(self, n):
                                return n

                            def visit_Lambda(self, n):
                                return n

                        body = [R2C().visit(b_) for b_ in body]
                    new: List[ast.stmt] = list(pro)
                    if kind == "return":
                        new += body
                        if not body or not isinstance(body[-1], (ast.Return, ast.Raise)):
                            new.append(_relocate(ast.Return(value=None), s))
                    else:
                        last = body[-1] if body else None
                        if isinstance(last, ast.Return):
                            new += body[:-1]
                            if kind == "assign" and last.value is not None:
                                new += [_relocate(x, s) for x in _split_parallel(s.targets[0], last.value)]
                            elif kind == "assign":
                                new.append(_relocate(ast.Assign(targets=s.targets, value=ast.Constant(value=None)), s))
                            elif last.value is not None and not isinstance(last.value, (ast.Name, ast.Constant)):
                                new.append(_relocate(ast.Expr(value=last.value), s))
                        else:
                            new += body
                            if kind == "assign":
                                new.append(_relocate(ast.Assign(targets=s.targets, value=ast.Constant(value=None)), s))
                    stmts[i : i + 1] = new
                    self.log.append(f"{q}: inlined new helper {h.name} at a {kind} statement")
                    caller_names |= _names_stored(ast.Module(body=new, type_ignores=[]))
                    changed = True
                    i += len(new)
        # 2. expression positions (predicates and other expression helpers)
        class ExprInliner(ast.NodeTransformer):
            def __init__(self, outer):
                self.outer = outer
                self.changed = False

            def visit_FunctionDef(self, n):
                if n is node:
                    self.generic_visit(n)
                return n

            visit_AsyncFunctionDef = visit_FunctionDef

            def visit_Call(self, c):
                self.generic_visit(c)
                r = self.outer._resolve(c, q, cls)
                if r is None:
                    return c
                h, recv, skip = r
                if _is_generator(h) or h is node:
                    return c
                if any((isinstance(n, ast.Name) and n.id == h.name) or (isinstance(n, ast.Attribute) and n.attr == h.name) for b_ in h.body for n in ast.walk(b_)):
                    return c  # recursive helper (calls or passes itself): left as a function
                e = _expr_of_body(h.body)
                if e is None:
                    return c
                mp = self.outer._bind(h, c, recv, skip)
                if mp is None:
                    return c
                # every argument used more than once must be duplicable
                uses = {}
                for n in ast.walk(e):
                    if isinstance(n, ast.Name) and n.id in mp:
                        uses[n.id] = uses.get(n.id, 0) + 1
                if any(uses.get(p, 0) > 1 and not _simple_arg(v) for p, v in mp.items()):
                    return c
                out = _relocate(_subst(e, mp), c)
                self.changed = True
                self.outer.log.append(f"{q}: inlined new expression helper {h.name}")
                return out

        ei = ExprInliner(self)
        ei.visit(node)
        return changed or ei.changed

    def _drop_unused_nested(self, q, node):
        for parent in [node] + [n for n in _own_nodes(node) if not isinstance(n, (ast.FunctionDef, ast.AsyncFunctionDef, ast.ClassDef, ast.Lambda))]:
            for field in ("body", "orelse", "finalbody"):
                stmts = getattr(parent, field, None)
                if not isinstance(stmts, list):
                    continue
                for s_ in list(stmts):
                    if isinstance(s_, (ast.FunctionDef, ast.AsyncFunctionDef)) and s_ is not node and self.is_new(f"{q}.{s_.name}"):
                        used = any(isinstance(n, ast.Name) and n.id == s_.name and isinstance(n.ctx, ast.Load) for n in ast.walk(node))
                        if not used:
                            stmts.remove(s_)
                            if not stmts:
                                stmts.append(ast.Pass())
                            self.log.append(f"{q}: removed inlined nested helper {s_.name}")

    def _drop_self_assignments(self, node):
        for parent in ast.walk(node):
            for field in ("body", "orelse", "finalbody"):
                stmts = getattr(parent, field, None)
                if not isinstance(stmts, list):
                    continue
                keep = [s_ for s_ in stmts if not (isinstance(s_, ast.Assign) and len(s_.targets) == 1 and isinstance(s_.targets[0], ast.Name) and isinstance(s_.value, ast.Name) and s_.value.id == s_.targets[0].id)]
                if len(keep) != len(stmts):
                    stmts[:] = keep or [ast.Pass()]

    def _split_tuple_assigns(self, q: str, node):
        frozen = set(self.fn.get(q, []))
        for parent in [node] + [n for n in _own_nodes(node) if not isinstance(n, (ast.FunctionDef, ast.AsyncFunctionDef, ast.ClassDef, ast.Lambda))]:
            for field in ("body", "orelse", "finalbody"):
                stmts = getattr(parent, field, None)
                if not isinstance(stmts, list):
                    continue
                i = 0
                while i < len(stmts):
                    s_ = stmts[i]
                    if q in self.fn and isinstance(s_, ast.Assign) and len(s_.targets) == 1 and isinstance(s_.targets[0], (ast.Tuple, ast.List)) and all(isinstance(t, ast.Name) for t in s_.targets[0].elts) and (any(t.id not in frozen and t.id not in {a.arg for a in node.args.args} for t in s_.targets[0].elts) or getattr(s_, "_qv_inlined", False) or isinstance(s_.value, ast.IfExp)):
                        # a parallel assignment that involves a name the reference function does not have, or that
                        # chooses between two tuples (no reference function does that)
                        parts = _split_parallel_any(s_.targets[0], s_.value)
                        if parts is not None:
                            parts = [_relocate(x, s_) for x in parts]
                            stmts[i : i + 1] = parts
                            self.log.append(f"{q}: parallel assignment `{ast.unparse(s_)[:60]}` split")
                            i += len(parts)
                            continue
                    if q in self.fn and isinstance(s_, ast.Assign) and len(s_.targets) == 1 and isinstance(s_.targets[0], (ast.Tuple, ast.List)) and isinstance(s_.value, (ast.Tuple, ast.List)) and all(isinstance(t, ast.Name) and t.id not in frozen and t.id not in {a.arg for a in node.args.args} for t in s_.targets[0].elts):
                        parts = _split_parallel(s_.targets[0], s_.value)
                        if len(parts) > 1 or (len(parts) == 1 and isinstance(parts[0].targets[0], ast.Name)):
                            parts = [_relocate(x, s_) for x in parts]
                            stmts[i : i + 1] = parts
                            self.log.append(f"{q}: tuple assignment of new names split")
                            i += len(parts)
                            continue
                    i += 1

    def _loops_to_comprehensions(self, q: str, node):
        """`x = []` / `for t in it: [if c:] x.append(e)`  ->  `x = [e for t in it if c]` when the loop variable is
        not a local of the reference function (the loop is new)"""
        frozen = set(self.fn.get(q, []))
        for parent in [node] + [n for n in _own_nodes(node) if not isinstance(n, (ast.FunctionDef, ast.AsyncFunctionDef, ast.ClassDef, ast.Lambda))]:
            for field in ("body", "orelse", "finalbody"):
                stmts = getattr(parent, field, None)
                if not isinstance(stmts, list):
                    continue
                i = 0
                while i + 1 < len(stmts):
                    a, l = stmts[i], stmts[i + 1]
                    i += 1
                    if not (isinstance(a, ast.Assign) and len(a.targets) == 1 and isinstance(a.targets[0], ast.Name) and isinstance(a.value, ast.List) and not a.value.elts):
                        continue
                    if not (isinstance(l, ast.For) and not l.orelse and len(l.body) == 1):
                        continue
                    tv = {n.id for n in ast.walk(l.target) if isinstance(n, ast.Name)}
                    x = a.targets[0].id
                    if tv & frozen and x in frozen:
                        continue
                    inner = l.body[0]
                    cond = None
                    if isinstance(inner, ast.If) and not inner.orelse and len(inner.body) == 1:
                        cond, inner = inner.test, inner.body[0]
                    if (
                        cond is None
                        and (
                            (isinstance(inner, ast.Expr) and isinstance(inner.value, ast.Call) and isinstance(inner.value.func, ast.Attribute) and inner.value.func.attr == "extend" and isinstance(inner.value.func.value, ast.Name) and inner.value.func.value.id == x and len(inner.value.args) == 1 and not inner.value.keywords)
                            or (isinstance(inner, ast.AugAssign) and isinstance(inner.op, ast.Add) and isinstance(inner.target, ast.Name) and inner.target.id == x)
                        )
                    ):
                        # `x.extend(E)` per step  ->  `[v for t in it for v in E]`
                        ext = inner.value.args[0] if isinstance(inner, ast.Expr) else inner.value
                        if x in _names_used(ext) or x in _names_used(l.iter):
                            continue
                        v = "_elt"
                        comp = ast.ListComp(
                            elt=ast.Name(id=v, ctx=ast.Load()),
                            generators=[
                                ast.comprehension(target=l.target, iter=l.iter, ifs=[], is_async=0),
                                ast.comprehension(target=ast.Name(id=v, ctx=ast.Store()), iter=ext, ifs=[], is_async=0),
                            ],
                        )
                        new = _relocate(ast.Assign(targets=[ast.Name(id=x, ctx=ast.Store())], value=comp), a)
                        stmts[i - 1 : i + 1] = [new]
                        self.log.append(f"{q}: loop extending {x} rewritten as a two-level comprehension")
                        continue
                    if not (isinstance(inner, ast.Expr) and isinstance(inner.value, ast.Call) and isinstance(inner.value.func, ast.Attribute) and inner.value.func.attr == "append" and isinstance(inner.value.func.value, ast.Name) and inner.value.func.value.id == x and len(inner.value.args) == 1):
                        continue
                    elt = inner.value.args[0]
                    if x in _names_used(elt) or (cond is not None and x in _names_used(cond)) or x in _names_used(l.iter):
                        continue
                    comp = ast.ListComp(elt=elt, generators=[ast.comprehension(target=l.target, iter=l.iter, ifs=[cond] if cond is not None else [], is_async=0)])
                    new = _relocate(ast.Assign(targets=[ast.Name(id=x, ctx=ast.Store())], value=comp), a)
                    stmts[i - 1 : i + 1] = [new]
                    self.log.append(f"{q}: loop appending to {x} rewritten as a comprehension")

    def _ifelse_assign_to_ifexp(self, q: str, node):
        """`if c: x = a` / `else: x = b`  ->  `x = a if c else b` (one spelling for a two-way choice of a value)"""
        for parent in [node] + [n for n in _own_nodes(node) if not isinstance(n, (ast.FunctionDef, ast.AsyncFunctionDef, ast.ClassDef, ast.Lambda))]:
            for field in ("body", "orelse", "finalbody"):
                stmts = getattr(parent, field, None)
                if not isinstance(stmts, list):
                    continue
                for i, s_ in enumerate(stmts):
                    if not (isinstance(s_, ast.If) and len(s_.body) == 1 and len(s_.orelse) == 1):
                        continue
                    a, b = s_.body[0], s_.orelse[0]
                    if not (isinstance(a, ast.Assign) and isinstance(b, ast.Assign) and len(a.targets) == 1 and len(b.targets) == 1 and isinstance(a.targets[0], ast.Name) and isinstance(b.targets[0], ast.Name) and a.targets[0].id == b.targets[0].id):
                        continue
                    new = ast.Assign(targets=[ast.Name(id=a.targets[0].id, ctx=ast.Store())], value=ast.IfExp(test=s_.test, body=a.value, orelse=b.value))
                    stmts[i] = ast.copy_location(new, s_)
                    ast.fix_missing_locations(stmts[i])
                    self.log.append(f"{q}: if/else assignment of {a.targets[0].id} written as a conditional expression")

    def _ifelse_blocks_to_ifexp(self, q: str, node):
        """`if c: a = x; b = y` / `else: a = z`  ->  `a = x if c else z; b = y if c else b`, when both branches are
        made of plain assignments to distinct names (at least one branch assigns a tuple of them), c is pure and an
        order exists in which neither c nor a later right-hand side reads a name assigned before it"""
        for parent in [node] + [n for n in _own_nodes(node) if not isinstance(n, (ast.FunctionDef, ast.AsyncFunctionDef, ast.ClassDef, ast.Lambda))]:
            for field in ("body", "orelse", "finalbody"):
                stmts = getattr(parent, field, None)
                if not isinstance(stmts, list):
                    continue
                i = 0
                while i < len(stmts):
                    s_ = stmts[i]
                    i += 1
                    if not (isinstance(s_, ast.If) and s_.body and s_.orelse and _pure_expr(s_.test)):
                        continue

                    def simple(block):
                        out = {}
                        tupled = False
                        for b in block:
                            if not (isinstance(b, ast.Assign) and len(b.targets) == 1):
                                return None, False
                            t = b.targets[0]
                            if isinstance(t, ast.Name):
                                parts = [b]
                            elif isinstance(t, (ast.Tuple, ast.List)):
                                parts = _split_parallel_any(t, b.value)
                                tupled = True
                                if parts is None:
                                    return None, False
                            else:
                                return None, False
                            for p_ in parts:
                                nm = p_.targets[0].id
                                if nm in out or any(nm in _names_used(v) for v in out.values()) or any(k in _names_used(p_.value) for k in out):
                                    return None, False
                                out[nm] = p_.value
                        return out, tupled

                    A, ta = simple(s_.body)
                    B, tb = simple(s_.orelse)
                    if A is None or B is None or not (ta or tb):
                        continue
                    names = list(dict.fromkeys(list(A) + list(B)))
                    comps = []
                    for nm in names:
                        a = A.get(nm, ast.Name(id=nm, ctx=ast.Load()))
                        b = B.get(nm, ast.Name(id=nm, ctx=ast.Load()))
                        if isinstance(a, ast.Constant) and isinstance(b, ast.Constant) and a.value is True and b.value is False:
                            v = copy.deepcopy(s_.test)
                        elif isinstance(a, ast.Constant) and isinstance(b, ast.Constant) and a.value is False and b.value is True:
                            v = _negate(copy.deepcopy(s_.test))
                        else:
                            v = ast.IfExp(test=copy.deepcopy(s_.test), body=a, orelse=b)
                        comps.append((nm, v))
                    order = []
                    remaining = list(comps)
                    ok = True
                    while remaining:
                        pick = next((c for c in remaining if not any(c[0] in _names_used(o[1]) for o in remaining if o is not c)), None)
                        if pick is None:
                            ok = False
                            break
                        remaining.remove(pick)
                        order.append(pick)
                    if not ok:
                        continue
                    new = [_relocate(ast.Assign(targets=[ast.Name(id=nm, ctx=ast.Store())], value=v), s_) for nm, v in order]
                    stmts[i - 1 : i] = new
                    i += len(new) - 1
                    self.log.append(f"{q}: if/else blocks assigning {names} written as conditional expressions")

    def _module_table(self, name: str):
        for s_ in self.tree.body:
            if isinstance(s_, ast.Assign) and len(s_.targets) == 1 and isinstance(s_.targets[0], ast.Name) and s_.targets[0].id == name:
                return s_.value
            if isinstance(s_, ast.AnnAssign) and isinstance(s_.target, ast.Name) and s_.target.id == name and s_.value is not None:
                return s_.value
        return None

    def _unroll_table_loops(self, q: str, node):
        """`for cls, impl in TABLE: if isinstance(x, cls): return impl(x)` (TABLE a literal of rows, at module level or
        bound once in the function, loop variables not locals of the reference function)  ->  the same tests written
        out row by row; a for/else becomes the final else.  `getattr(o, 'name')` with a literal name becomes `o.name`."""
        frozen = set(self.fn.get(q, []))
        changed = False
        for parent in [node] + [n for n in _own_nodes(node) if not isinstance(n, (ast.FunctionDef, ast.AsyncFunctionDef, ast.ClassDef, ast.Lambda))]:
            for field in ("body", "orelse", "finalbody"):
                stmts = getattr(parent, field, None)
                if not isinstance(stmts, list):
                    continue
                i = 0
                while i < len(stmts):
                    l = stmts[i]
                    i += 1
                    if not (isinstance(l, ast.For) and len(l.body) == 1 and isinstance(l.body[0], ast.If) and not l.body[0].orelse and l.body[0].body):
                        continue
                    tg = l.target
                    names = [tg.id] if isinstance(tg, ast.Name) else ([e.id for e in tg.elts] if isinstance(tg, ast.Tuple) and all(isinstance(e, ast.Name) for e in tg.elts) else None)
                    if not names or any(nm in frozen for nm in names):
                        continue
                    tbl = l.iter
                    if isinstance(tbl, ast.Name):
                        loc = [a.value for a in _own_nodes(node) if isinstance(a, ast.Assign) and len(a.targets) == 1 and isinstance(a.targets[0], ast.Name) and a.targets[0].id == tbl.id]
                        tbl = loc[0] if len(loc) == 1 else (self._module_table(tbl.id) if not loc else None)
                    elif isinstance(tbl, ast.Attribute) and isinstance(tbl.value, ast.Name) and tbl.value.id in ("self", "cls"):
                        tbl = None
                    if not isinstance(tbl, (ast.Tuple, ast.List)) or not (1 <= len(tbl.elts) <= 16):
                        continue
                    rows = []
                    for r in tbl.elts:
                        if isinstance(tg, ast.Name):
                            rows.append({names[0]: r})
                        elif isinstance(r, (ast.Tuple, ast.List)) and len(r.elts) == len(names):
                            rows.append(dict(zip(names, r.elts)))
                        else:
                            rows = None
                            break
                    if not rows:
                        continue
                    iff = l.body[0]
                    last = iff.body[-1]
                    if any(isinstance(x, ast.Continue) for b in iff.body for x in ast.walk(b)):
                        continue
                    if isinstance(last, ast.Return):
                        new = []
                        for mp in rows:
                            new.append(ast.If(test=_subst(iff.test, mp), body=[_subst(b, mp) for b in iff.body], orelse=[]))
                        new += [copy.deepcopy(x) for x in l.orelse]
                    elif isinstance(last, ast.Break) and not any(isinstance(x, ast.Break) for b in iff.body[:-1] for x in ast.walk(b)):
                        chain = [copy.deepcopy(x) for x in l.orelse]
                        for mp in reversed(rows):
                            body = [_subst(b, mp) for b in iff.body[:-1]] or [ast.Pass()]
                            chain = [ast.If(test=_subst(iff.test, mp), body=body, orelse=chain)]
                        new = chain
                    else:
                        continue
                    new = [_relocate(_GetattrConst().visit(x), l) for x in new]
                    stmts[i - 1 : i] = new
                    i += len(new) - 1
                    changed = True
                    self.log.append(f"{q}: table-driven loop over {ast.unparse(l.iter)[:30]} ({len(rows)} rows) written out as tests")
        return changed

    def _mutation_free(self, node, stmts, i, v) -> bool:
        """between the binding stmts[i] of a pure-expression local v and its uses nothing can change what the
        expression reads: conservatively, the statements from the binding to the last use (within the same block)
        contain no call except pure ones and gate/`append`-free code is not required - we only demand that they do
        not store to any attribute/subscript and do not call methods on the names the expression reads"""
        e = stmts[i].value
        reads = {n.id for n in ast.walk(e) if isinstance(n, ast.Name)}
        last = i
        for k in range(i + 1, len(stmts)):
            if any(isinstance(n, ast.Name) and n.id == v for n in ast.walk(stmts[k])):
                last = k
        for k in range(i + 1, last + 1):
            for n in ast.walk(stmts[k]):
                if isinstance(n, (ast.Attribute, ast.Subscript)) and isinstance(n.ctx, (ast.Store, ast.Del)):
                    base = n
                    while isinstance(base, (ast.Attribute, ast.Subscript)):
                        base = base.value
                    if isinstance(base, ast.Name) and base.id in reads:
                        return False
                if isinstance(n, ast.Call) and isinstance(n.func, ast.Attribute) and n.func.attr not in PURE_METHODS:
                    base = n.func.value
                    while isinstance(base, (ast.Attribute, ast.Subscript)):
                        base = base.value
                    if isinstance(base, ast.Name) and base.id in reads:
                        return False
        return True

    def _uses_precede_stores(self, node, v: str, paths: List[str]) -> bool:
        order = {id(n): k for k, n in enumerate(_preorder(node))}
        parents = {}
        for p_ in ast.walk(node):
            for c in ast.iter_child_nodes(p_):
                parents[id(c)] = p_
        def loops_of(n):
            out = []
            x = parents.get(id(n))
            while x is not None:
                if isinstance(x, (ast.For, ast.While, ast.AsyncFor)):
                    out.append(id(x))
                x = parents.get(id(x))
            return set(out)
        uses = [n for n in ast.walk(node) if isinstance(n, ast.Name) and n.id == v and isinstance(n.ctx, ast.Load)]
        stores = [n for n in ast.walk(node) if isinstance(n, ast.Attribute) and isinstance(n.ctx, (ast.Store, ast.Del)) and ast.unparse(n) in paths]
        if not uses or not stores:
            return True
        def stmt_of(n):
            x = n
            while x is not None and not isinstance(x, ast.stmt):
                x = parents.get(id(x))
            return x
        # a use in the right-hand side of the storing statement itself is evaluated before the store
        ends = []
        for s_ in stores:
            st = stmt_of(s_)
            ends.append(max(order[id(n)] for n in ast.walk(st)) if st is not None else order[id(s_)])
        first_end = min(ends)
        first_store = min(order[id(s_)] for s_ in stores)
        first_stmt = stmt_of(min(stores, key=lambda s_: order[id(s_)]))
        inside_first = {id(n) for n in ast.walk(first_stmt)} if first_stmt is not None else set()
        if any(order[id(u)] > first_store and id(u) not in inside_first for u in uses):
            return False
        return not any(loops_of(u) & loops_of(s_) for u in uses for s_ in stores)

    def _bind(self, h, call, recv, skip):
        return _bind_params(h, call, recv, skip)

    # ---- aliases
    def _inline_aliases(self, q: str, node):
        frozen = set(self.fn.get(q, []))
        if q not in self.ff:
            return
        for _ in range(6):
            if not self._inline_one_alias(q, node, frozen):
                break

    def _inline_one_alias(self, q, node, frozen) -> bool:
        params = {a.arg for a in node.args.args}
        stores: Dict[str, List[ast.AST]] = {}
        for n in ast.walk(node):
            if isinstance(n, ast.Name) and isinstance(n.ctx, (ast.Store, ast.Del)):
                stores.setdefault(n.id, []).append(n)
        attr_stores = set()
        for n in ast.walk(node):
            tg = []
            if isinstance(n, ast.Assign):
                tg = n.targets
            elif isinstance(n, (ast.AugAssign, ast.AnnAssign)):
                tg = [n.target]
            elif isinstance(n, ast.Delete):
                tg = n.targets
            for t in tg:
                for x in ast.walk(t):
                    if isinstance(x, ast.Attribute) and isinstance(x.ctx, (ast.Store, ast.Del)):
                        attr_stores.add(ast.unparse(x))
        for parent in ast.walk(node):
            for field in ("body", "orelse", "finalbody"):
                stmts = getattr(parent, field, None)
                if not isinstance(stmts, list) or not stmts or not isinstance(stmts[0], ast.stmt):
                    continue
                for i, s in enumerate(stmts):
                    if not (isinstance(s, ast.Assign) and len(s.targets) == 1 and isinstance(s.targets[0], ast.Name)):
                        continue
                    v = s.targets[0].id
                    e = s.value
                    # copy coalescing: `x = y_new` where both are bound once -> y_new is x
                    if isinstance(e, ast.Name) and e.id not in frozen and e.id not in params and len(stores.get(e.id, [])) >= 1 and len(stores.get(v, [])) == 1 and v not in params:
                        order = {id(n): k for k, n in enumerate(_preorder(node))}
                        used_before = any(isinstance(n, ast.Name) and n.id == v and n is not s.targets[0] and order[id(n)] < order[id(s)] for n in ast.walk(node))
                        y_after = any(isinstance(n, ast.Name) and n.id == e.id and n is not e and order[id(n)] > order[id(s)] for n in ast.walk(node))
                        in_loop = any(isinstance(p_, (ast.For, ast.While)) and any(x is s for x in ast.walk(p_)) for p_ in ast.walk(node))
                        if not used_before and not y_after and not in_loop:
                            _Rename({e.id: v}).visit(node)
                            del stmts[i]
                            if not stmts:
                                stmts.append(_relocate(ast.Pass(), s))
                            self.log.append(f"{q}: coalesced {e.id} into {v}")
                            return True
                    if v in frozen or v in params or len(stores.get(v, [])) != 1:
                        continue
                    if not _simple_arg(e) and not isinstance(e, ast.Constant) and not (_pure_expr(e) and self._mutation_free(node, stmts, i, v)):
                        # single-use temporary consumed by the very next statement
                        loads = [n for n in ast.walk(node) if isinstance(n, ast.Name) and n.id == v and isinstance(n.ctx, ast.Load)]
                        if len(loads) == 1 and i + 1 < len(stmts) and any(n is loads[0] for n in ast.walk(stmts[i + 1])) and not isinstance(stmts[i + 1], (ast.For, ast.While, ast.If, ast.With, ast.Try, ast.FunctionDef)) and not _inside_nested_def(stmts[i + 1], loads[0]):
                            stmts[i + 1] = _Subst({v: e}).visit(stmts[i + 1])
                            del stmts[i]
                            self.log.append(f"{q}: inlined single-use temporary {v}")
                            return True
                        continue
                    if isinstance(e, (ast.List, ast.Dict, ast.Set, ast.ListComp, ast.DictComp, ast.SetComp)) or (isinstance(e, ast.Constant) and not isinstance(e.value, (str, int, float, bool, type(None)))):
                        continue  # a container literal is a new object, not a name for an existing one
                    if isinstance(e, ast.Name) and (len(stores.get(e.id, [])) > 1):
                        continue
                    # parts must be stable: base names bound at most once (parameters: never), attribute paths never stored
                    bases = [n.id for n in ast.walk(e) if isinstance(n, ast.Name)]
                    if any(len(stores.get(b, [])) > (0 if b in params else 1) for b in bases):
                        continue
                    txt = ast.unparse(e)
                    paths = [ast.unparse(n) for n in ast.walk(e) if isinstance(n, (ast.Attribute, ast.Subscript))] or [txt]
                    clash = [a for a in attr_stores for t_ in paths if a == t_ or t_.startswith(a + ".") or t_.startswith(a + "[") or a.startswith(t_ + ".")]
                    if clash and not self._uses_precede_stores(node, v, clash):
                        continue
                    # uses must come after the binding, in the same block or deeper
                    later = stmts[i + 1 :]
                    used_elsewhere = False
                    inside = set()
                    for l in later:
                        for n in ast.walk(l):
                            inside.add(id(n))
                    for n in ast.walk(node):
                        if isinstance(n, ast.Name) and n.id == v and isinstance(n.ctx, ast.Load) and id(n) not in inside:
                            used_elsewhere = True
                    if used_elsewhere:
                        continue
                    sub = _Subst({v: e})
                    for k in range(i + 1, len(stmts)):
                        stmts[k] = sub.visit(stmts[k])
                    del stmts[i]
                    if not stmts:
                        stmts.append(_relocate(ast.Pass(), s))
                    self.log.append(f"{q}: inlined new alias {v} = {txt}")
                    return True
        return False


def normalize_tree(tree: ast.Module, modname: str, frozen_names: Dict[str, List[str]]) -> List[str]:
    ff = frozen_functions()
    if not ff:
        return []
    mn = ModuleNormalizer(tree, modname, ff, frozen_names)
    mn.run()
    ast.fix_missing_locations(tree)
    return mn.log
