"""Constructor-term matching.

Much of the front end *builds* syntax: `ast.BinOp(left=node.target, op=node.op, right=node.value)`.  The rules
about such code are statements about which expression ends up in which field of the constructed node.  Matching
the source text of the constructor call would make the rule fire on any respelling (positional arguments, a local
alias, another keyword order), so the call is matched as a term:

* fields are read by keyword or by position (the positional order of `ast` node classes is their `_fields`);
* a field value that is a local name bound exactly once in the enclosing function is looked through;
* the verdict is three-valued: a constructor call with the expected wiring -> ok; constructor calls of that kind
  exist but none has the expected wiring -> violated (the construct is there and is wired differently); no such
  constructor call -> undecided (the code was restructured beyond what the tables describe).
"""
from __future__ import annotations

import ast
from typing import Callable, Dict, List, Optional, Sequence, Union

from .core import FuncInfo, dotted, norm

# positional field order of the ast constructors the repository uses
FIELDS = {
    "BinOp": ["left", "op", "right"],
    "BoolOp": ["op", "values"],
    "UnaryOp": ["op", "operand"],
    "Compare": ["left", "ops", "comparators"],
    "IfExp": ["test", "body", "orelse"],
    "Constant": ["value", "kind"],
    "Assign": ["targets", "value", "type_comment"],
    "Subscript": ["value", "slice", "ctx"],
    "Name": ["id", "ctx"],
    "Tuple": ["elts", "ctx"],
    "List": ["elts", "ctx"],
    "Call": ["func", "args", "keywords"],
    "Attribute": ["value", "attr", "ctx"],
}


def bindings(fn_node) -> Dict[str, ast.expr]:
    """local names bound exactly once (Assign to a plain name) anywhere in the function, nested defs included"""
    seen: Dict[str, List[ast.expr]] = {}
    for n in ast.walk(fn_node):
        if isinstance(n, ast.Assign):
            for t in n.targets:
                for x in ast.walk(t):
                    if isinstance(x, ast.Name) and isinstance(x.ctx, ast.Store):
                        seen.setdefault(x.id, []).append(n.value if t is x else None)
        elif isinstance(n, (ast.AugAssign, ast.AnnAssign)) and isinstance(n.target, ast.Name):
            seen.setdefault(n.target.id, []).append(None)
        elif isinstance(n, (ast.For, ast.comprehension)):
            for x in ast.walk(n.target):
                if isinstance(x, ast.Name):
                    seen.setdefault(x.id, []).append(None)
        elif isinstance(n, ast.NamedExpr) and isinstance(n.target, ast.Name):
            seen.setdefault(n.target.id, []).append(None)
    return {k: v[0] for k, v in seen.items() if len(v) == 1 and v[0] is not None}


def look_through(e, binds: Dict[str, ast.expr], depth: int = 6):
    while depth and isinstance(e, ast.Name) and e.id in binds:
        e = binds[e.id]
        depth -= 1
    return e


def ctor_name(call) -> Optional[str]:
    if not isinstance(call, ast.Call):
        return None
    d = dotted(call.func)
    return d.split(".")[-1] if d else None


def field(call: ast.Call, name: str, binds: Optional[Dict[str, ast.expr]] = None):
    for k in call.keywords:
        if k.arg == name:
            return look_through(k.value, binds or {})
    order = FIELDS.get(ctor_name(call) or "", [])
    if name in order:
        i = order.index(name)
        if i < len(call.args) and not any(isinstance(a, ast.Starred) for a in call.args[: i + 1]):
            return look_through(call.args[i], binds or {})
    return None


def ctor_calls(root, ctor: str) -> List[ast.Call]:
    return [n for n in ast.walk(root) if isinstance(n, ast.Call) and ctor_name(n) == ctor]


def t(e) -> str:
    """normalised text of an expression without blanks (None -> '')"""
    return "" if e is None else norm(e).replace(" ", "")


Want = Union[str, Sequence[str], Callable[[Optional[ast.expr]], bool]]


def _field_ok(val, want: Want) -> bool:
    if callable(want):
        return bool(want(val))
    if isinstance(want, str):
        return t(val) == want.replace(" ", "")
    return t(val) in [w.replace(" ", "") for w in want]


def match(call: ast.Call, wants: Dict[str, Want], binds) -> bool:
    return all(_field_ok(field(call, f, binds), w) for f, w in wants.items())


def term_rule(ctx, rule: str, fi: FuncInfo, role: str, ctor: str, wants: Dict[str, Want], fail_msg: str, root=None, select: Optional[Callable[[ast.Call], bool]] = None, ok_detail: str = ""):
    """three-valued verdict described in the module docstring; returns the matching call or None"""
    root = root if root is not None else fi.node
    binds = bindings(fi.node)
    cands = [c for c in ctor_calls(root, ctor) if select is None or select(c)]
    if not cands:
        ctx.undecided(fi.short, f"{role}: no `{ctor}(...)` node is constructed here any more - restructured beyond the tables")
        return None
    for c in cands:
        if match(c, wants, binds):
            ctx.ok(rule, fi, role, ok_detail or norm(c)[:100], c)
            return c
    shown = "; ".join(f"{ctor}({', '.join(f'{f}={t(field(c, f, binds))}' for f in wants)})" for c in cands[:3])
    ctx.fail(rule, fi, role, f"{fail_msg} (found {shown})", cands[0])
    return None


def args_rule(ctx, rule: str, fi: FuncInfo, role: str, select: Callable[[ast.Call], bool], want_args: Sequence[Want], fail_msg: str, root=None, what: str = "call"):
    """same three-valued verdict for ordinary calls matched by their positional arguments (looked through single
    bindings): e.g. the folded operator must be applied as op(<left>, <right>)"""
    root = root if root is not None else fi.node
    binds = bindings(fi.node)
    cands = [c for c in ast.walk(root) if isinstance(c, ast.Call) and select(c)]
    if not cands:
        ctx.undecided(fi.short, f"{role}: no {what} found - restructured beyond the tables")
        return None
    for c in cands:
        args = [look_through(a, binds) for a in c.args]
        if len(args) == len(want_args) and all(_field_ok(a, w) for a, w in zip(args, want_args)):
            ctx.ok(rule, fi, role, norm(c)[:100], c)
            return c
    shown = "; ".join(norm(c)[:80] for c in cands[:3])
    ctx.fail(rule, fi, role, f"{fail_msg} (found {shown})", cands[0])
    return None


def frag_rule(ctx, rule: str, fi: FuncInfo, role: str, ok: bool, deviants: Sequence, node=None, ok_detail: str = ""):
    """for idioms that are recognised as a whole: ok -> pass; a recognised wrong form (deviants: [(bool, message)])
    -> violated; anything else -> undecided"""
    if ok:
        ctx.ok(rule, fi, role, ok_detail, node)
        return True
    for cond, msg in deviants:
        if cond:
            ctx.fail(rule, fi, role, msg, node)
            return False
    ctx.undecided(fi.short, f"{role}: the idiom is written in a form outside the tables")
    return False


def only_elt(e):
    """[x] -> x"""
    if isinstance(e, (ast.List, ast.Tuple)) and len(e.elts) == 1:
        return e.elts[0]
    return None


def is_ctor(e, ctor: str, wants: Dict[str, Want], binds=None) -> bool:
    return isinstance(e, ast.Call) and ctor_name(e) == ctor and match(e, wants, binds or {})


def is_const_of(e, value_text: Union[str, Sequence[str]], binds=None) -> bool:
    """e is ast.Constant(value=<value_text>)"""
    return is_ctor(e, "Constant", {"value": value_text}, binds)


def is_name_of(e, id_text: Union[str, Sequence[str]], binds=None) -> bool:
    """e is ast.Name(id=<id_text>, ...)"""
    return is_ctor(e, "Name", {"id": id_text}, binds)


def path_aliases(fn_node) -> Dict[str, ast.expr]:
    """single-binding locals that merely name a path (`value = node.value`): a matching aid - the rules that use it
    compare what an expression denotes, and say so"""
    out = {}
    for k, v in bindings(fn_node).items():
        x = v
        ok = True
        while isinstance(x, (ast.Attribute, ast.Subscript)):
            if isinstance(x, ast.Subscript) and not isinstance(x.slice, (ast.Constant, ast.UnaryOp, ast.Name)):
                ok = False
            x = x.value
        if ok and isinstance(x, ast.Name) and not isinstance(v, ast.Name):
            out[k] = v
    return out


def tx(e, aliases: Dict[str, ast.expr]) -> str:
    """t(e) with path aliases expanded"""
    import copy as _copy

    if e is None:
        return ""

    class S(ast.NodeTransformer):
        def visit_Name(self, n):
            if isinstance(n.ctx, ast.Load) and n.id in aliases:
                return _copy.deepcopy(aliases[n.id])
            return n

    return t(S().visit(_copy.deepcopy(e)))
