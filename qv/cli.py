"""Command line: ./check <ID> [--tier quick|thorough] | ./check all | ./check explain <replay.json>

Exit codes: 0 = every obligation held or is a listed known finding;
            1 = at least one finding not listed (one VIOLATION line each);
            2 = ANALYSIS-ERROR (vanished anchor, undecided shape, self-check failure, internal error).
"""
from __future__ import annotations

import argparse
import importlib
import json
import os
import sys
import time
import traceback

from .core import AnchorError, Ctx, Repo, load_known_findings, repo_root

HERE = os.path.dirname(os.path.dirname(os.path.abspath(__file__)))
EVID = os.path.join(HERE, "evidence")
KNOWN = os.path.join(HERE, "known_findings.json")
PROPS = [f"C{i:02d}" for i in range(1, 19)]


def load_prop(pid: str):
    return importlib.import_module(f"qv.props.{pid.lower()}")


def match_known(pid: str, ob, known):
    for k in known:
        if (
            k.get("property") == pid
            and k.get("rule") == ob.rule
            and k.get("construct") == ob.construct
            and k.get("role") == ob.role
        ):
            return k
    return None


def run_property(pid: str, tier: str, write_evidence=True, quiet=False) -> int:
    t0 = time.time()
    seed = int(os.environ.get("VERIF_SEED", "0") or 0)
    out = sys.stdout
    try:
        mod = load_prop(pid)
    except ModuleNotFoundError:
        print(f"ANALYSIS-ERROR property={pid} anchor=qv.props.{pid.lower()} reason=no such property module")
        return 2
    try:
        repo = Repo()
        if os.environ.get("QV_DEBUG_NORM"):
            for line in repo.normalized:
                print("NORMALIZED", line)
        ctx = Ctx(pid, repo, tier)
        aborted = False
        try:
            mod.run(ctx)
        except AnchorError as e:
            # an undecidable shape met outside a section: what was decided before it still counts (a violation found
            # earlier is reported, with this as a note); with no violation the run is undecided
            ctx.anchor_errors.append(e)
            aborted = True
        # contradiction rules over every function of the modules the property is anchored in (lints.py)
        from . import lints as _lints

        ctx.section(_lints.check, ctx, pid)
        if tier == "thorough" and hasattr(mod, "run_thorough"):
            mod.run_thorough(ctx)
        n = len(ctx.obligations)
        if n < getattr(mod, "MIN_OBLIGATIONS", 1) and not aborted:
            # undecided - unless a violation was found by the rules that did run (then this is listed as a note)
            ctx.anchor_errors.append(AnchorError(
                f"{pid}.obligations",
                f"only {n} obligations were generated, at least {mod.MIN_OBLIGATIONS} were confirmed by hand "
                "when the rule tables were frozen: a rule is matching vacuously",
            ))
        selfcheck = None
        if tier == "thorough":
            from . import selfcheck as sc

            selfcheck = sc.run_for_property(pid, ctx)
    except AnchorError as e:
        print(f"ANALYSIS-ERROR property={pid} anchor={e.anchor} reason={e.reason}")
        return 2
    except Exception as e:  # tracebacks are not verdicts
        tb = traceback.format_exc().strip().splitlines()
        print(f"ANALYSIS-ERROR property={pid} anchor=internal reason={type(e).__name__}: {e}")
        for line in tb[-12:]:
            print("    " + line)
        return 2

    known = load_known_findings(KNOWN)
    failures = ctx.failures
    if ctx.anchor_errors and not [ob for ob in failures if match_known(pid, ob, known) is None]:
        for e in ctx.anchor_errors:
            print(f"ANALYSIS-ERROR property={pid} anchor={e.anchor} reason={e.reason}")
        return 2
    for e in ctx.anchor_errors:
        print(f"ANALYSIS-NOTE property={pid} anchor={e.anchor} undecided: {e.reason}")
    new, matched = [], []
    for ob in failures:
        k = match_known(pid, ob, known)
        if k is None:
            new.append(ob)
        else:
            matched.append((ob, k))

    seen_known = set()
    for ob, k in matched:
        key = ob.key()
        if key in seen_known:
            continue
        seen_known.add(key)
        print(
            f"KNOWN-FINDING: property={pid} {ob.rule} {ob.construct} [{ob.role}] - {k.get('what_fails', ob.detail)}"
        )

    rc = 0
    if new:
        rc = 1
        os.makedirs(os.path.join(EVID, "replay"), exist_ok=True)
        for i, ob in enumerate(new):
            rp = os.path.join(EVID, "replay", f"{pid}-{i}.json")
            with open(rp, "w") as fh:
                json.dump(
                    {
                        "property": pid,
                        "rule": ob.rule,
                        "construct": ob.construct,
                        "role": ob.role,
                        "where": ob.where,
                        "detail": ob.detail,
                        "tier": tier,
                        "repo": repo_root(),
                    },
                    fh,
                    indent=1,
                )
            print(f"{ob.where}: {ob.construct}: rule {ob.rule} [{ob.role}] - {ob.detail}")
            print(f"VIOLATION property={pid} replay={rp}")
    for u in ctx.untriaged:
        print(f"UNTRIAGED property={pid} {u}")

    wall = time.time() - t0
    if write_evidence:
        write_evidence_file(pid, mod, ctx, tier, seed, wall, matched, new, selfcheck)
    if not quiet:
        oks = sum(1 for o in ctx.obligations if o.status == "ok")
        print(
            f"[{pid}] tier={tier} repo={repo_root()} modules={repo.stats()['modules']} functions={repo.stats()['functions']} "
            f"obligations={len(ctx.obligations)} ok={oks} known={len(matched)} new={len(new)} wall={wall:.2f}s"
        )
    return rc


def write_evidence_file(pid, mod, ctx, tier, seed, wall, matched, new, selfcheck):
    os.makedirs(EVID, exist_ok=True)
    obs = ctx.obligations
    distinct = {o.key() for o in obs if o.nontrivial}
    samples = []
    seen_rules = set()
    for o in obs:  # one sample per rule first, then fill
        if o.rule not in seen_rules:
            seen_rules.add(o.rule)
            samples.append(o)
    for o in obs:
        if len(samples) >= 40:
            break
        if o not in samples:
            samples.append(o)
    rules = {}
    for o in obs:
        r = rules.setdefault(o.rule, {"ok": 0, "violated": 0})
        r[o.status] += 1
    st = ctx.repo.stats()
    cov = {
        "explanation": getattr(mod, "EXPLANATION", ""),
        "technique": "static analysis over the repository's AST (no execution): " + getattr(mod, "TECHNIQUE", ""),
        "modules": st["modules"],
        "functions": st["functions"],
        "classes": st["classes"],
        "obligations": len(obs),
        "discharged": sum(1 for o in obs if o.status == "ok"),
        "evaluations": len(obs),
        "distinct_nontrivial": len(distinct),
        "rule": "one evaluation per (rule, construct, role) obligation generated from the current source; "
        "an obligation is non-trivial when its premise matched a real site in the tree (vacuous instances are "
        "not generated); distinct = distinct (rule, construct, role) keys",
        "rules": rules,
        "samples": [
            {
                "rule": o.rule,
                "construct": o.construct,
                "role": o.role,
                "where": o.where,
                "verdict": o.status,
                "detail": o.detail[:300],
            }
            for o in samples
        ],
        "known_findings_matched": [
            {"rule": o.rule, "construct": o.construct, "role": o.role} for o, _ in matched
        ],
        "new_findings": [{"rule": o.rule, "construct": o.construct, "role": o.role, "where": o.where} for o in new],
        "untriaged": ctx.untriaged,
        "notes": ctx.notes,
        "not_decided": getattr(mod, "NOT_DECIDED", ""),
        "exhaustive": False,
    }
    cov.update(ctx.extra)
    if selfcheck is not None:
        cov["selfcheck"] = selfcheck
    ev = {
        "property_id": pid,
        "tier": tier,
        "seed": seed,
        "level": "other",
        "coverage": cov,
        "assumptions": [
            "CPython's ast module is the grammar of the repository",
            "the fixed tables of Python operator semantics, sympy head arities and single-qubit gate action",
            "sympy itself (simplify_logic, cse, to_cnf, xreplace) and the foreign frameworks are trusted",
            "a green run means every structural clause listed in `explanation` holds on every construct of the "
            "current tree apart from listed known findings; it does not mean the behavioural property holds",
        ],
        "wall_s": round(wall, 3),
        "violations": len(new),
    }
    with open(os.path.join(EVID, f"{pid}.json"), "w") as fh:
        json.dump(ev, fh, indent=1)


def explain(path: str) -> int:
    with open(path) as fh:
        rp = json.load(fh)
    pid = rp["property"]
    try:
        repo = Repo()
        ctx = Ctx(pid, repo, rp.get("tier", "quick"))
        load_prop(pid).run(ctx)
    except AnchorError as e:
        print(f"ANALYSIS-ERROR property={pid} anchor={e.anchor} reason={e.reason}")
        return 2
    hits = [
        o
        for o in ctx.obligations
        if o.rule == rp["rule"] and o.construct == rp["construct"] and o.role == rp["role"]
    ]
    if not hits:
        print(f"obligation ({rp['rule']}, {rp['construct']}, {rp['role']}) is no longer generated on {repo_root()}")
        return 0
    rc = 0
    for o in hits:
        print(f"property  : {pid}")
        print(f"rule      : {o.rule}")
        print(f"construct : {o.construct}")
        print(f"role      : {o.role}")
        print(f"where     : {o.where}")
        print(f"verdict   : {o.status}")
        print(f"detail    : {o.detail}")
        try:
            f, ln = o.where.rsplit(":", 1)
            with open(os.path.join(repo_root(), f)) as fh:
                lines = fh.read().splitlines()
            ln = int(ln)
            for i in range(max(0, ln - 3), min(len(lines), ln + 6)):
                print(f"   {i + 1:4d} | {lines[i]}")
        except Exception:
            pass
        if o.status == "violated":
            rc = 1
    return rc


def main(argv=None) -> int:
    ap = argparse.ArgumentParser(prog="check")
    ap.add_argument("target", help="property id (C01..C18), 'all', or 'explain'")
    ap.add_argument("path", nargs="?", help="replay file for 'explain'")
    ap.add_argument("--tier", default=os.environ.get("VERIF_TIER", "quick"), choices=["quick", "thorough"])
    ap.add_argument("--no-evidence", action="store_true")
    args = ap.parse_args(argv)
    if args.target == "explain":
        if not args.path:
            print("usage: check explain <replay.json>")
            return 2
        return explain(args.path)
    if args.target == "all":
        worst = 0
        for pid in PROPS:
            rc = run_property(pid, args.tier, not args.no_evidence)
            worst = max(worst, rc)
        return worst
    pid = args.target.upper()
    return run_property(pid, args.tier, not args.no_evidence)


if __name__ == "__main__":
    sys.exit(main())
