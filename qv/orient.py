"""A2 - orientation qualifiers for bit sequences (units-of-measure style).

Every expression that denotes a sequence of bits gets a layout qualifier:

    LE      index 0 = least significant bit (qlasskit's internal convention; every TExp bit list)
    BE      index 0 = most significant bit (what bin() produces, int(s, 2) consumes, measurement strings)
    QF      fixed-point pattern: LE integer part ++ MSB-first fraction  (an LE pattern as far as bit k of
            the encoding is concerned)
    LEint / FR / LEfrac   the pieces of QF: integer part (LE), fraction MSB-first, fraction LSB-first
    PAD     a run of zeros (orientation-free)
    ANY(a)  polymorphic: same layout as parameter a
    NA      not a bit sequence;  ?  unknown

plus the position of a `0b` prefix (none / front / back).  Transfer functions follow Python's own
semantics of bin, int(., 2), slicing, reversal, concatenation; repository functions have declared
signatures (taken from the repository's docstrings, confirmed by reading) which are both used at call
sites and re-inferred from their bodies.
"""
from __future__ import annotations

import ast
from dataclasses import dataclass
from typing import Callable, Dict, List, Optional, Tuple

from .core import FuncInfo, dotted, norm
from . import q

FLIP = {"LE": "BE", "BE": "LE", "FR": "LEfrac", "LEfrac": "FR", "LEint": "BEint", "BEint": "LEint", "PAD": "PAD", "QF": "QFrev", "QFrev": "QF", "?": "?", "NA": "NA"}
PFLIP = {"none": "none", "front": "back", "back": "front"}
LE_LIKE = {"LE", "QF", "LEint", "SCALED"}
BE_LIKE = {"BE", "BEint", "QFrev"}


@dataclass(frozen=True)
class Qual:
    lay: str = "?"
    pre: str = "none"

    def flip(self) -> "Qual":
        return Qual(FLIP.get(self.lay, "?"), PFLIP[self.pre])

    def is_bits(self) -> bool:
        return self.lay not in ("NA", "?") and not self.lay.startswith("TEXP")

    def __str__(self):
        return self.lay + ("" if self.pre == "none" else f"+0b@{self.pre}")


NA = Qual("NA")
UNK = Qual("?")


@dataclass
class Sig:
    params: Dict[str, str]  # param -> required layout ("LE", "BE", "QF", "ANY", ...)
    ret: str  # layout of result ("LE", "BE", "QF", "ANY:<param>", "NA")


class Issue:
    def __init__(self, rule: str, node, msg: str):
        self.rule, self.node, self.msg = rule, node, msg


def compatible(have: Qual, want: str) -> bool:
    if want in ("ANY", "?") or have.lay in ("?", "PAD"):
        return True
    if want == "LE":
        return have.lay in LE_LIKE
    if want == "BE":
        return have.lay in BE_LIKE
    if want == "QF":
        return have.lay in ("QF", "LE")
    return have.lay == want


class Orient:
    """abstract evaluation of one function body"""

    def __init__(self, fi: FuncInfo, sigs: Dict[str, Sig], env: Optional[Dict[str, Qual]] = None, texp_layout: str = "LE", int_attr: str = "BIT_SIZE_INTEGER", frac_attr: str = "BIT_SIZE_FRACTIONAL"):
        self.fi = fi
        self.sigs = sigs
        self.env: Dict[str, Qual] = dict(env or {})
        self.issues: List[Issue] = []
        self.returns: List[Tuple[ast.Return, Qual]] = []
        self.texp_layout = texp_layout
        self.int_attr, self.frac_attr = int_attr, frac_attr
        self.trace: List[str] = []
        self.texp_args: List[Tuple[ast.Call, str, str, Qual]] = []
        self.bit_loops: List[Tuple[ast.AST, str, Qual]] = []
        self.index_stores: List[Tuple[ast.AST, Qual]] = []

    # ------------------------------------------------------------------ driver
    def run(self):
        self.block(self.fi.body)
        return self

    def block(self, stmts):
        for s in stmts:
            if isinstance(s, ast.Assign) and len(s.targets) == 1 and isinstance(s.targets[0], (ast.Tuple, ast.List)) and isinstance(s.value, (ast.Tuple, ast.List)) and len(s.targets[0].elts) == len(s.value.elts) and not any(isinstance(x, ast.Starred) for x in s.targets[0].elts + s.value.elts):
                # parallel assignment: every right-hand side is read first, then each name gets its own value
                vals = [self.ev(x) for x in s.value.elts]
                for t, v, x in zip(s.targets[0].elts, vals, s.value.elts):
                    self.bind(t, v, x)
            elif isinstance(s, ast.Assign):
                v = self.ev(s.value)
                for t in s.targets:
                    self.bind(t, v, s.value)
            elif isinstance(s, ast.AnnAssign) and s.value is not None:
                self.bind(s.target, self.ev(s.value), s.value)
            elif isinstance(s, ast.AugAssign):
                if isinstance(s.target, ast.Name) and isinstance(s.op, ast.Add):
                    cur = self.env.get(s.target.id, UNK)
                    add = self.ev(s.value)
                    self.env[s.target.id] = self.concat(cur, add, s, norm(s.target), norm(s.value))
                else:
                    self.ev(s.value)
            elif isinstance(s, ast.Return):
                if s.value is not None:
                    self.returns.append((s, self.ev(s.value)))
            elif isinstance(s, ast.Expr):
                self.ev(s.value)
            elif isinstance(s, ast.If):
                self.ev(s.test)
                self.block(s.body)
                self.block(s.orelse)
            elif isinstance(s, (ast.For, ast.While)):
                if isinstance(s, ast.For):
                    it = self.ev(s.iter)
                    if it.is_bits():
                        self.bit_loops.append((s, norm(s.iter), it))
                    self.bind_loop(s.target, s.iter, it)
                self.block(s.body)
                self.block(s.orelse)
            elif isinstance(s, ast.Try):
                self.block(s.body)
                for h in s.handlers:
                    self.block(h.body)
                self.block(s.orelse)
                self.block(s.finalbody)
            elif isinstance(s, ast.With):
                self.block(s.body)

    def bind(self, target, v: Qual, value_node):
        if isinstance(target, ast.Name):
            self.env[target.id] = v
        elif isinstance(target, (ast.Tuple, ast.List)):
            for e in target.elts:
                self.bind(e, UNK, value_node)
        elif isinstance(target, ast.Subscript):
            # ampl[index] = 1  -> index must be the integer whose bit k is bit k of the encoding
            self.index_stores.append((target, self.ev(target.slice)))

    def bind_loop(self, target, it_node, it: Qual):
        # enumerate(x): (i, bit)
        if isinstance(target, ast.Tuple):
            for e in target.elts:
                self.bind(e, NA, it_node)
        elif isinstance(target, ast.Name):
            self.env[target.id] = NA

    # ------------------------------------------------------------------ expressions
    def issue(self, rule, node, msg):
        self.issues.append(Issue(rule, node, msg))

    def concat(self, a: Qual, b: Qual, node, ta: str, tb: str) -> Qual:
        la, lb = a.lay, b.lay
        if la == "NA" and lb == "NA":
            return NA
        if la in ("?",) or lb in ("?",):
            return Qual(lb if la == "?" else la, a.pre if a.pre != "none" else b.pre) if (la == "PAD" or lb == "PAD") else UNK
        if la == "PAD" and lb == "PAD":
            return Qual("PAD")
        if la == "PAD":
            return Qual(lb, b.pre).__class__(lb + "", b.pre) if False else Qual("FRONTPAD:" + lb, b.pre)
        if lb == "PAD":
            return Qual("ENDPAD:" + la, a.pre)
        if la == "LEint" and lb == "FR":
            return Qual("QF")
        if la == "LEfrac" and lb == "LEint":
            return Qual("SCALED")
        if la == lb and la in ("LE", "BE", "NA"):
            return Qual(la)
        if la in LE_LIKE and lb in LE_LIKE:
            return Qual("LE")  # low part ++ high part
        if la in BE_LIKE and lb in BE_LIKE:
            return Qual("BE")
        if la == "NA" or lb == "NA":
            return Qual(lb if la == "NA" else la)
        self.issue("OR-FLOW", node, f"concatenation of `{ta}` ({a}) and `{tb}` ({b}): the two halves are oriented differently")
        return UNK

    def resolve_pad(self, v: Qual, node, context: str) -> Qual:
        """FRONTPAD:x / ENDPAD:x -> x, checking that the padding side suits zero-extension of x"""
        if v.lay.startswith("FRONTPAD:"):
            base = v.lay.split(":", 1)[1]
            if base in LE_LIKE:
                self.issue("OR-EXT", node, f"{context}: zeros are put in FRONT of an LSB-first sequence: that multiplies the value by a power of two (a shift), it does not zero-extend it")
            return Qual(base, v.pre)
        if v.lay.startswith("ENDPAD:"):
            base = v.lay.split(":", 1)[1]
            if base in BE_LIKE:
                self.issue("OR-EXT", node, f"{context}: zeros are appended AFTER an MSB-first sequence: that multiplies the value by a power of two, it does not zero-extend it")
            return Qual(base, v.pre)
        return v

    def ev(self, e) -> Qual:
        v = self._ev(e)
        return v

    def _ev(self, e) -> Qual:
        if e is None:
            return NA
        if isinstance(e, ast.Name):
            return self.env.get(e.id, UNK)
        if isinstance(e, ast.Constant):
            return NA
        if isinstance(e, ast.IfExp):
            a, b = self.ev(e.body), self.ev(e.orelse)
            return a if a.is_bits() else b
        if isinstance(e, ast.Tuple) and len(e.elts) == 2 and isinstance(e.elts[0], (ast.Name, ast.Attribute, ast.Subscript)) and not isinstance(e.elts[1], ast.Constant):
            inner = self.ev(e.elts[1])
            if inner.is_bits() or inner.lay.startswith(("FRONTPAD", "ENDPAD")):
                return Qual("TEXP:" + inner.lay)
        if isinstance(e, (ast.List, ast.Tuple)):
            if all(isinstance(x, ast.Constant) for x in e.elts):
                return Qual("PAD") if e.elts and all(x.value in (False, 0, "0") for x in e.elts) else NA
            return NA
        if isinstance(e, ast.BinOp):
            if isinstance(e.op, ast.Mult):
                l, r = self.ev(e.left), self.ev(e.right)
                if l.lay == "PAD" or r.lay == "PAD":
                    return Qual("PAD")
                return NA
            if isinstance(e.op, ast.Add):
                l, r = self.ev(e.left), self.ev(e.right)
                if not l.is_bits() and not r.is_bits() and not (l.lay == "PAD" or r.lay == "PAD"):
                    return NA if (l.lay == "NA" and r.lay == "NA") else UNK
                return self.concat(l, r, e, norm(e.left), norm(e.right))
            self.ev(e.left)
            self.ev(e.right)
            return NA
        if isinstance(e, ast.Subscript):
            base = self.ev(e.value)
            if isinstance(e.slice, ast.Slice):
                return self.slice(base, e)
            # TExp convention: v[1] is the bit list
            if isinstance(e.slice, ast.Constant) and e.slice.value == 1 and base.lay.startswith("TEXP"):
                return Qual(base.lay.split(":", 1)[1] if ":" in base.lay else self.texp_layout)
            if isinstance(e.slice, ast.Constant) and e.slice.value == 0 and base.lay.startswith("TEXP"):
                return NA
            return NA
        if isinstance(e, ast.Call):
            return self.call(e)
        if isinstance(e, (ast.ListComp, ast.GeneratorExp)):
            if len(e.generators) == 1:
                src = self.ev(e.generators[0].iter)
                self.bind_loop(e.generators[0].target, e.generators[0].iter, src)
                elt = self.ev(e.elt)
                if src.is_bits():
                    return src
                # pieces that each carry an orientation, produced in iteration order (to be joined / concatenated):
                # like `acc += piece` in a loop, the whole has the orientation of the pieces
                if elt.is_bits() and src.lay in ("NA",) and not e.generators[0].ifs:
                    return elt
                return UNK
            return UNK
        if isinstance(e, ast.Attribute):
            return UNK if e.attr not in ("value",) else NA
        if isinstance(e, ast.Compare):
            self.ev(e.left)
            for c in e.comparators:
                self.ev(c)
            return NA
        if isinstance(e, ast.BoolOp):
            for v in e.values:
                self.ev(v)
            return NA
        if isinstance(e, ast.UnaryOp):
            self.ev(e.operand)
            return NA
        if isinstance(e, ast.JoinedStr):
            return NA
        if isinstance(e, ast.Lambda):
            return NA
        return UNK

    def slice(self, base: Qual, e: ast.Subscript) -> Qual:
        s = e.slice
        if q.is_reversed(e) is not None:
            return self.resolve_pad(base, e, norm(e)).flip()
        lo, up = s.lower, s.upper
        lo_t = norm(lo) if lo is not None else None
        up_t = norm(up) if up is not None else None
        # [2:] strips a front prefix
        if s.step is None and up is None and isinstance(lo, ast.Constant) and lo.value == 2:
            if base.pre == "front":
                return Qual(base.lay, "none")
            if base.pre == "back":
                self.issue("OR-PREFIX", e, f"`{norm(e)}` strips two characters from the FRONT of a string whose `0b` prefix is at the BACK (it was reversed first): two value digits are lost and `b0` stays in")
                return Qual(base.lay, "back")
            return base
        if base.lay == "QF":
            if lo is None and up_t is not None and up_t.endswith(self.int_attr):
                return Qual("LEint")
            if up is None and lo_t is not None and lo_t.endswith(self.int_attr):
                return Qual("FR")
        if base.lay in ("SCALED", "LE"):
            if up is None and lo_t is not None and lo_t.endswith(self.frac_attr):
                return Qual("LEint")
            if lo is None and up_t is not None and up_t.endswith(self.frac_attr):
                return Qual("LEfrac")
        # generic sub-range keeps the orientation
        return Qual(base.lay, base.pre if lo is None or (isinstance(lo, ast.Constant) and lo.value == 0) else ("none" if base.pre == "front" else base.pre))

    def call(self, c: ast.Call) -> Qual:
        d = dotted(c.func) or ""
        last = d.split(".")[-1] if d else (c.func.attr if isinstance(c.func, ast.Attribute) else "")
        args = [self.ev(a) for a in c.args]
        for k in c.keywords:
            self.ev(k.value)
        if last == "bin" and isinstance(c.func, ast.Name):
            return Qual("BE", "front")
        if last in ("str", "list", "tuple") and isinstance(c.func, ast.Name) and len(args) == 1:
            return args[0]
        if last == "reversed" and isinstance(c.func, ast.Name) and args:
            return self.resolve_pad(args[0], c, norm(c)).flip()
        if last == "join" and isinstance(c.func, ast.Attribute) and args:
            return args[0]
        if last == "map" and isinstance(c.func, ast.Name) and len(args) >= 2:
            return args[1]
        if last == "filter" and len(args) >= 2:
            return args[1]
        if last == "zip" and isinstance(c.func, ast.Name) and len(args) == 2:
            a, b = args
            if a.is_bits() and b.is_bits() and not (compatible(a, b.lay) or compatible(b, a.lay)):
                self.issue("OR-FLOW", c, f"`{norm(c)}` pairs `{norm(c.args[0])}` ({a}) with `{norm(c.args[1])}` ({b}): bit k of one meets bit n-1-k of the other")
            return NA
        if last == "enumerate" and args:
            return args[0]
        if last == "int" and isinstance(c.func, ast.Name):
            if len(c.args) == 2 and isinstance(c.args[1], ast.Constant) and c.args[1].value == 2:
                a = self.resolve_pad(args[0], c, norm(c))
                if a.pre == "back":
                    self.issue("OR-PREFIX", c, f"`{norm(c)}`: the string still carries a reversed `0b` prefix at its end")
                if a.lay in LE_LIKE:
                    self.issue("OR-FLOW", c, f"`{norm(c)}` reads `{norm(c.args[0])}` as a binary numeral (most significant digit first) but it is LSB-first ({a}): the value obtained is bit-reversed")
                return NA
            return NA
        if last in ("len", "ord", "chr", "float", "range", "isinstance", "issubclass", "hasattr", "print", "type"):
            return NA
        # repository functions with declared signatures
        key = self.sig_key(c)
        if key is not None:
            sig = self.sigs[key]
            pnames = list(sig.params)
            for i, a in enumerate(args):
                if i < len(pnames):
                    want = sig.params[pnames[i]]
                    a2 = self.resolve_pad(a, c, norm(c))
                    if want == "TEXP":
                        node = c.args[i]
                        if isinstance(node, ast.Tuple) and len(node.elts) == 2:
                            bits = self.ev(node.elts[1])
                            self.texp_args.append((c, key, norm(node.elts[1]), bits))
                        continue
                    if a2.is_bits() and not compatible(a2, want):
                        self.issue("OR-FLOW", c, f"`{norm(c)[:70]}`: argument `{norm(c.args[i])}` is {a2} but `{key}` expects a {want} sequence")
                    if want == "BE" and a2.pre == "back":
                        self.issue("OR-PREFIX", c, f"`{norm(c)[:70]}`: `{key}` strips a `0b` prefix from the front, but `{norm(c.args[i])}` carries it at the back (reversed before stripping)")
            if sig.ret.startswith("ANY:"):
                pn = sig.ret.split(":", 1)[1]
                if pn in pnames and pnames.index(pn) < len(args):
                    return Qual(args[pnames.index(pn)].lay, "none")
                return UNK
            return Qual(sig.ret)
        return UNK

    def sig_key(self, c: ast.Call) -> Optional[str]:
        d = dotted(c.func)
        name = d.split(".")[-1] if d else (c.func.attr if isinstance(c.func, ast.Attribute) else None)
        if name is None:
            return None
        if name in self.sigs:
            return name
        return None
