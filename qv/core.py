"""Core: loader, symbol index, resolver, guard facts, reporting.

The tree analysed is $QV_REPO (used by the self-check's scratch copies) or /repo.
It is re-globbed and re-parsed on every run; nothing is cached between runs.
"""
from __future__ import annotations

import ast
import glob
import json
import os
import time
from dataclasses import dataclass, field
from typing import Dict, Iterable, Iterator, List, Optional, Sequence, Set, Tuple

PKG = "qlasskit"


class AnchorError(Exception):
    """An anchor (function, class, table) a rule instance is tied to does not resolve,
    or a body has a shape the analysis cannot type.  -> ANALYSIS-ERROR, exit 2."""

    def __init__(self, anchor: str, reason: str):
        super().__init__(f"anchor={anchor} reason={reason}")
        self.anchor = anchor
        self.reason = reason


def repo_root() -> str:
    return os.environ.get("QV_REPO", "/repo")


# --------------------------------------------------------------------------------------
# small AST helpers


def dotted(node) -> Optional[str]:
    """'a.b.c' for Name/Attribute chains, else None."""
    parts = []
    while isinstance(node, ast.Attribute):
        parts.append(node.attr)
        node = node.value
    if isinstance(node, ast.Name):
        parts.append(node.id)
        return ".".join(reversed(parts))
    return None


def root_name(node) -> Optional[str]:
    """The Name at the root of an attribute/subscript/call-free access path."""
    while isinstance(node, (ast.Attribute, ast.Subscript, ast.Starred)):
        node = node.value
    if isinstance(node, ast.Name):
        return node.id
    return None


def const_value(node):
    if isinstance(node, ast.Constant):
        return node.value
    if (
        isinstance(node, ast.UnaryOp)
        and isinstance(node.op, ast.USub)
        and isinstance(node.operand, ast.Constant)
        and isinstance(node.operand.value, (int, float))
    ):
        return -node.operand.value
    return None


def is_const(node, value=None) -> bool:
    if not isinstance(node, ast.Constant):
        return False
    return value is None or (node.value == value and type(node.value) is type(value))


def call_name(node) -> Optional[str]:
    """dotted name of the callee of a Call node."""
    if isinstance(node, ast.Call):
        return dotted(node.func)
    return None


def norm(node) -> str:
    """normalised source text of a node (never used as a rule's match key for code,
    only for human-readable roles and for equating sub-expressions inside one function)."""
    try:
        return ast.unparse(node)
    except Exception:  # pragma: no cover
        return ast.dump(node)


def same(a, b) -> bool:
    """structural equality of two AST nodes (ignoring positions and ctx)."""
    if type(a) is not type(b):
        if isinstance(a, ast.expr_context) and isinstance(b, ast.expr_context):
            return True
        return False
    if isinstance(a, ast.AST):
        for f in a._fields:
            if f == "ctx":
                continue
            if not same(getattr(a, f, None), getattr(b, f, None)):
                return False
        return True
    if isinstance(a, list):
        return len(a) == len(b) and all(same(x, y) for x, y in zip(a, b))
    return a == b


def walk_no_nested(node) -> Iterator[ast.AST]:
    """ast.walk that does not descend into nested function/class/lambda bodies
    (the node itself is yielded even if it is a def)."""
    todo = [node]
    first = True
    while todo:
        n = todo.pop()
        yield n
        if not first and isinstance(
            n, (ast.FunctionDef, ast.AsyncFunctionDef, ast.ClassDef, ast.Lambda)
        ):
            continue
        first = False
        todo.extend(ast.iter_child_nodes(n))


def parent_map(root) -> Dict[ast.AST, ast.AST]:
    pm: Dict[ast.AST, ast.AST] = {}
    for n in ast.walk(root):
        for c in ast.iter_child_nodes(n):
            pm[c] = n
    return pm


def stmt_terminates(stmts: Sequence[ast.stmt]) -> bool:
    """True iff control cannot fall off the end of the statement list (every path ends in
    return / raise / continue / break)."""
    for s in stmts:
        if isinstance(s, (ast.Return, ast.Raise, ast.Continue, ast.Break)):
            return True
        if isinstance(s, ast.If):
            if s.orelse and stmt_terminates(s.body) and stmt_terminates(s.orelse):
                return True
        if isinstance(s, ast.Try):
            body_t = stmt_terminates(s.body) or (s.orelse and stmt_terminates(s.orelse))
            hand_t = all(stmt_terminates(h.body) for h in s.handlers)
            if s.finalbody and stmt_terminates(s.finalbody):
                return True
            if body_t and hand_t:
                return True
        if isinstance(s, ast.With):
            if stmt_terminates(s.body):
                return True
        if isinstance(s, ast.Match):
            # only if a wildcard case exists and all terminate
            if any(
                isinstance(c.pattern, ast.MatchAs) and c.pattern.pattern is None and c.guard is None
                for c in s.cases
            ) and all(stmt_terminates(c.body) for c in s.cases):
                return True
    return False


def returns_or_raises_everywhere(stmts: Sequence[ast.stmt]) -> Tuple[bool, Optional[ast.stmt]]:
    """(True, None) iff every path through stmts ends in `return <value>` or `raise`;
    else (False, offending stmt or None for fall-off-the-end).  Loops are treated as possibly
    executing zero times.  `return` without a value counts as an offending exit."""

    def go(ss) -> Tuple[bool, Optional[ast.stmt]]:
        for s in ss:
            if isinstance(s, ast.Raise):
                return True, None
            if isinstance(s, ast.Return):
                if s.value is None:
                    return False, s
                return True, None
            if isinstance(s, ast.If):
                # any bare return inside is an offence even if other paths are fine
                b_ok, b_off = go(s.body)
                if s.orelse:
                    o_ok, o_off = go(s.orelse)
                else:
                    o_ok, o_off = False, None
                if b_off is not None:
                    return False, b_off
                if o_off is not None:
                    return False, o_off
                if b_ok and o_ok:
                    return True, None
            elif isinstance(s, ast.Try):
                b_ok, b_off = go(s.body + s.orelse)
                if b_off is not None:
                    return False, b_off
                h_all = True
                for h in s.handlers:
                    h_ok, h_off = go(h.body)
                    if h_off is not None:
                        return False, h_off
                    h_all = h_all and h_ok
                if s.finalbody:
                    f_ok, f_off = go(s.finalbody)
                    if f_off is not None:
                        return False, f_off
                    if f_ok:
                        return True, None
                if b_ok and h_all:
                    return True, None
            elif isinstance(s, (ast.For, ast.While, ast.With)):
                b_ok, b_off = go(s.body)
                if b_off is not None:
                    return False, b_off
                if isinstance(s, ast.With) and b_ok:
                    return True, None
        return False, None

    return go(list(stmts))


# --------------------------------------------------------------------------------------
# symbol index


@dataclass
class FuncInfo:
    qualname: str  # qlasskit.mod.Class.method or qlasskit.mod.func.nested
    node: ast.AST  # FunctionDef | Lambda
    module: "ModuleInfo"
    cls: Optional["ClassInfo"]
    parent: Optional["FuncInfo"]
    nested: Dict[str, "FuncInfo"] = field(default_factory=dict)
    _pm: Optional[Dict[ast.AST, ast.AST]] = None

    @property
    def name(self) -> str:
        return self.qualname.rsplit(".", 1)[-1]

    @property
    def short(self) -> str:
        return self.qualname[len(PKG) + 1 :] if self.qualname.startswith(PKG + ".") else self.qualname

    @property
    def params(self) -> List[str]:
        a = self.node.args
        return [x.arg for x in a.posonlyargs + a.args]

    @property
    def all_params(self) -> List[str]:
        a = self.node.args
        out = [x.arg for x in a.posonlyargs + a.args]
        if a.vararg:
            out.append(a.vararg.arg)
        out += [x.arg for x in a.kwonlyargs]
        if a.kwarg:
            out.append(a.kwarg.arg)
        return out

    @property
    def decorators(self) -> List[str]:
        if isinstance(self.node, ast.Lambda):
            return []
        return [dotted(d) or "" for d in self.node.decorator_list]

    @property
    def is_static(self) -> bool:
        return "staticmethod" in self.decorators

    @property
    def is_classmethod(self) -> bool:
        return "classmethod" in self.decorators

    @property
    def is_property(self) -> bool:
        return "property" in self.decorators

    @property
    def has_self(self) -> bool:
        """True if the first parameter is the receiver (instance or class)."""
        return self.cls is not None and self.parent is None and not self.is_static and bool(self.params)

    @property
    def body(self) -> List[ast.stmt]:
        if isinstance(self.node, ast.Lambda):
            return [ast.Return(value=self.node.body)]
        return self.node.body

    @property
    def pm(self) -> Dict[ast.AST, ast.AST]:
        if self._pm is None:
            self._pm = parent_map(self.node)
        return self._pm

    def loc(self, node=None) -> str:
        n = node if node is not None and hasattr(node, "lineno") else self.node
        return f"{self.module.relpath}:{getattr(n, 'lineno', 0)}"


@dataclass
class ClassInfo:
    qualname: str
    node: ast.ClassDef
    module: "ModuleInfo"
    methods: Dict[str, FuncInfo] = field(default_factory=dict)
    base_names: List[str] = field(default_factory=list)
    bases: List["ClassInfo"] = field(default_factory=list)  # resolved repo bases
    consts: Dict[str, ast.expr] = field(default_factory=dict)  # class-level NAME = <expr>

    @property
    def name(self) -> str:
        return self.qualname.rsplit(".", 1)[-1]

    def mro(self) -> List["ClassInfo"]:
        out: List[ClassInfo] = []
        todo = [self]
        while todo:
            c = todo.pop(0)
            if c in out:
                continue
            out.append(c)
            todo.extend(c.bases)
        return out

    def find_method(self, name: str) -> Optional[FuncInfo]:
        for c in self.mro():
            if name in c.methods:
                return c.methods[name]
        return None

    def const(self, name: str) -> Optional[ast.expr]:
        for c in self.mro():
            if name in c.consts:
                return c.consts[name]
        return None

    def __hash__(self):
        return hash(self.qualname)

    def __eq__(self, o):
        return isinstance(o, ClassInfo) and o.qualname == self.qualname


@dataclass
class ModuleInfo:
    name: str  # qlasskit.types.qint
    path: str
    relpath: str
    tree: ast.Module
    src: str
    is_pkg: bool
    functions: Dict[str, FuncInfo] = field(default_factory=dict)
    classes: Dict[str, ClassInfo] = field(default_factory=dict)
    # local name -> ("module", modname) | ("symbol", modname, symbol) | ("ext", dotted)
    imports: Dict[str, Tuple] = field(default_factory=dict)
    star_imports: List[str] = field(default_factory=list)
    globals_assigned: Dict[str, ast.expr] = field(default_factory=dict)

    @property
    def package(self) -> str:
        return self.name if self.is_pkg else self.name.rsplit(".", 1)[0]


class _DropLocalAnnotations(ast.NodeTransformer):
    """`name: T = value` inside a function is `name = value` as far as behaviour goes; the rules are written for the
    plain form (annotations on attributes and at class/module level are kept: they carry type facts the analyses use)"""

    def __init__(self):
        self.depth = 0

    def visit_FunctionDef(self, node):
        self.depth += 1
        self.generic_visit(node)
        self.depth -= 1
        return node

    visit_AsyncFunctionDef = visit_FunctionDef

    def visit_ClassDef(self, node):
        d, self.depth = self.depth, 0
        self.generic_visit(node)
        self.depth = d
        return node

    def visit_AnnAssign(self, node):
        if self.depth > 0 and isinstance(node.target, ast.Name) and node.value is not None:
            new = ast.Assign(targets=[node.target], value=node.value)
            return ast.copy_location(new, node)
        return node


class Repo:
    def __init__(self, root: Optional[str] = None):
        self.root = root or repo_root()
        self.modules: Dict[str, ModuleInfo] = {}
        self.functions: Dict[str, FuncInfo] = {}
        self.classes: Dict[str, ClassInfo] = {}
        self.renamed_back: Dict[str, Dict[str, str]] = {}
        self.normalized: List[str] = []
        self._load()

    # ---- loading
    def _load(self):
        pkgdir = os.path.join(self.root, PKG)
        if not os.path.isdir(pkgdir):
            raise AnchorError(PKG, f"package directory {pkgdir} not found")
        files = sorted(glob.glob(os.path.join(pkgdir, "**", "*.py"), recursive=True))
        if not files:
            raise AnchorError(PKG, "no python files found")
        from . import normalize

        parsed = []
        for path in files:
            rel = os.path.relpath(path, self.root)
            modname = rel[:-3].replace(os.sep, ".")
            is_pkg = False
            if modname.endswith(".__init__"):
                modname = modname[: -len(".__init__")]
                is_pkg = True
            with open(path, "r", encoding="utf-8") as fh:
                src = fh.read()
            try:
                tree = ast.parse(src, filename=path)
            except SyntaxError as e:
                raise AnchorError(modname, f"syntax error: {e}")
            tree = _DropLocalAnnotations().visit(tree)
            parsed.append((path, rel, modname, is_pkg, src, tree))
        normalize.set_foreign({modname: tree for _p, _r, modname, _i, _s, tree in parsed})
        for path, rel, modname, is_pkg, src, tree in parsed:

            # consistent renamings of locals are undone first (so that reference locals are not mistaken for new
            # aliases), then again at indexing time for what normalisation leaves
            def _pre(body, prefix):
                for s_ in body:
                    if isinstance(s_, (ast.FunctionDef, ast.AsyncFunctionDef)):
                        mp = undo_local_renames(f"{prefix}.{s_.name}", s_)
                        if mp:
                            self.renamed_back[f"{prefix}.{s_.name}"] = mp
                    elif isinstance(s_, ast.ClassDef):
                        _pre(s_.body, f"{prefix}.{s_.name}")
                    elif isinstance(s_, (ast.If, ast.Try)):
                        _pre(s_.body, prefix)

            _pre(tree.body, modname)
            for line in normalize.normalize_tree(tree, modname, names_table()):
                self.normalized.append(line)
            assign_order(tree)
            self.modules[modname] = ModuleInfo(modname, path, rel, tree, src, is_pkg)
        for m in self.modules.values():
            self._index_module(m)
        for m in self.modules.values():
            self._index_imports(m)
        for c in self.classes.values():
            for bn in c.base_names:
                r = self.resolve_name(c.module, bn.split(".")[-1]) if bn else None
                if isinstance(r, ClassInfo):
                    c.bases.append(r)

    def _index_module(self, m: ModuleInfo):
        def index_func(node, prefix, cls, parent) -> FuncInfo:
            q = f"{prefix}.{node.name}"
            if parent is None:
                mp = undo_local_renames(q, node)
                if mp:
                    self.renamed_back[q] = mp
            fi = FuncInfo(q, node, m, cls, parent)
            self.functions[q] = fi
            for sub in walk_no_nested_children(node):
                if isinstance(sub, (ast.FunctionDef, ast.AsyncFunctionDef)):
                    fi.nested[sub.name] = index_func(sub, q, cls, fi)
                elif isinstance(sub, ast.ClassDef):
                    index_class(sub, q)
            return fi

        def index_class(node, prefix) -> ClassInfo:
            q = f"{prefix}.{node.name}"
            ci = ClassInfo(q, node, m)
            ci.base_names = [dotted(b) or "" for b in node.bases]
            self.classes[q] = ci
            for s in node.body:
                if isinstance(s, (ast.FunctionDef, ast.AsyncFunctionDef)):
                    ci.methods[s.name] = index_func(s, q, ci, None)
                elif isinstance(s, ast.Assign):
                    for t in s.targets:
                        if isinstance(t, ast.Name):
                            ci.consts[t.id] = s.value
                elif isinstance(s, ast.AnnAssign) and isinstance(s.target, ast.Name) and s.value:
                    ci.consts[s.target.id] = s.value
                elif isinstance(s, ast.ClassDef):
                    index_class(s, q)
            return ci

        for s in iter_module_stmts(m.tree):
            if isinstance(s, (ast.FunctionDef, ast.AsyncFunctionDef)):
                m.functions[s.name] = index_func(s, m.name, None, None)
            elif isinstance(s, ast.ClassDef):
                m.classes[s.name] = index_class(s, m.name)
            elif isinstance(s, ast.Assign):
                for t in s.targets:
                    if isinstance(t, ast.Name):
                        m.globals_assigned[t.id] = s.value
            elif isinstance(s, ast.AnnAssign) and isinstance(s.target, ast.Name) and s.value:
                m.globals_assigned[s.target.id] = s.value

    def _abs_module(self, m: ModuleInfo, level: int, module: Optional[str]) -> str:
        if level == 0:
            return module or ""
        base = m.package.split(".")
        if level > 1:
            base = base[: len(base) - (level - 1)]
        if module:
            base = base + module.split(".")
        return ".".join(base)

    def _index_imports(self, m: ModuleInfo):
        for s in ast.walk(m.tree):
            if isinstance(s, ast.Import):
                for a in s.names:
                    local = a.asname or a.name.split(".")[0]
                    target = a.name if a.asname else a.name.split(".")[0]
                    if target in self.modules:
                        m.imports[local] = ("module", target)
                    else:
                        m.imports[local] = ("ext", target)
            elif isinstance(s, ast.ImportFrom):
                absmod = self._abs_module(m, s.level, s.module)
                for a in s.names:
                    if a.name == "*":
                        m.star_imports.append(absmod)
                        continue
                    local = a.asname or a.name
                    sub = f"{absmod}.{a.name}"
                    if sub in self.modules and absmod in self.modules:
                        # `from pkg import name` takes the attribute `name` of the package when its __init__ binds
                        # one (qlasskit.ast2ast binds the function ast2ast over the submodule of the same name)
                        m.imports[local] = ("symmod", absmod, a.name, sub)
                    elif sub in self.modules:
                        m.imports[local] = ("module", sub)
                    elif absmod in self.modules:
                        m.imports[local] = ("symbol", absmod, a.name)
                    else:
                        m.imports[local] = ("ext", f"{absmod}.{a.name}")

    # ---- resolution
    def resolve_name(self, m: ModuleInfo, name: str, _seen=None):
        """Resolve a module-level name to FuncInfo | ClassInfo | ModuleInfo | ("ext", dotted)
        | ("global", module, name) | None."""
        _seen = _seen or set()
        key = (m.name, name)
        if key in _seen:
            return None
        _seen.add(key)
        if name in m.functions:
            return m.functions[name]
        if name in m.classes:
            return m.classes[name]
        if name in m.imports:
            imp = m.imports[name]
            if imp[0] == "module":
                return self.modules[imp[1]]
            if imp[0] == "symmod":
                pkg = self.modules[imp[1]]
                n2 = imp[2]
                bound = n2 in pkg.functions or n2 in pkg.classes or n2 in pkg.globals_assigned
                pi = pkg.imports.get(n2)
                if pi is not None and not (pi[0] == "module" and pi[1] == imp[3]):
                    bound = True
                if bound and pkg is not m:
                    r = self.resolve_name(pkg, n2, _seen)
                    if r is not None:
                        return r
                return self.modules[imp[3]]
            if imp[0] == "symbol":
                r = self.resolve_name(self.modules[imp[1]], imp[2], _seen)
                if r is not None:
                    return r
                return ("ext", f"{imp[1]}.{imp[2]}")
            return imp
        if name in m.globals_assigned:
            v = m.globals_assigned[name]
            # alias `Toffoli = CCX`
            if isinstance(v, ast.Name) and v.id != name:
                r = self.resolve_name(m, v.id, _seen)
                if isinstance(r, (FuncInfo, ClassInfo)):
                    return r
            return ("global", m.name, name)
        for sm in m.star_imports:
            if sm in self.modules:
                r = self.resolve_name(self.modules[sm], name, _seen)
                if r is not None:
                    return r
        return None

    def resolve_dotted(self, m: ModuleInfo, dn: str):
        parts = dn.split(".")
        cur = self.resolve_name(m, parts[0])
        for p in parts[1:]:
            if isinstance(cur, ModuleInfo):
                cur = self.resolve_name(cur, p)
            elif isinstance(cur, ClassInfo):
                meth = cur.find_method(p)
                if meth is not None:
                    cur = meth
                else:
                    c = cur.const(p)
                    cur = ("classconst", cur.qualname, p) if c is not None else None
            elif isinstance(cur, tuple) and cur and cur[0] == "ext":
                cur = ("ext", f"{cur[1]}.{p}")
            else:
                return None
        return cur

    def subclasses(self, c: ClassInfo) -> List[ClassInfo]:
        return [k for k in self.classes.values() if c in k.mro()]

    # ---- anchors
    def func(self, short: str) -> FuncInfo:
        q = short if short.startswith(PKG + ".") else f"{PKG}.{short}"
        fi = self.functions.get(q)
        if fi is None:
            # tolerate name-mangled private methods given without mangling
            raise AnchorError(short, "function not found in the analysed tree")
        return fi

    def maybe_func(self, short: str) -> Optional[FuncInfo]:
        q = short if short.startswith(PKG + ".") else f"{PKG}.{short}"
        return self.functions.get(q)

    def cls(self, short: str) -> ClassInfo:
        q = short if short.startswith(PKG + ".") else f"{PKG}.{short}"
        ci = self.classes.get(q)
        if ci is None:
            raise AnchorError(short, "class not found in the analysed tree")
        return ci

    def module(self, short: str) -> ModuleInfo:
        q = short if short.startswith(PKG) else f"{PKG}.{short}"
        mi = self.modules.get(q)
        if mi is None:
            raise AnchorError(short, "module not found in the analysed tree")
        return mi

    def stats(self) -> Dict[str, int]:
        return {
            "modules": len(self.modules),
            "functions": len(self.functions),
            "classes": len(self.classes),
        }


def is_noise(s: ast.stmt) -> bool:
    """statements that cannot affect what a function computes: docstrings, bare constants, logging/print calls,
    assignments to `_`, pass"""
    if isinstance(s, ast.Pass):
        return True
    if isinstance(s, ast.Expr):
        if isinstance(s.value, ast.Constant):
            return True
        if isinstance(s.value, ast.Call):
            d = dotted(s.value.func) or ""
            if d == "print" or d.split(".")[0] in ("logging", "logger", "log", "warnings") :
                return True
    if isinstance(s, ast.Assign) and len(s.targets) == 1 and isinstance(s.targets[0], ast.Name) and s.targets[0].id == "_":
        return True
    return False


def real_body(stmts) -> List[ast.stmt]:
    return [s for s in stmts if not is_noise(s)]


def assign_order(root) -> None:
    """number every node in depth-first source order (`_ord`): after normalisation line numbers no longer order the
    statements of a function (inlined code carries the position of its call site)"""
    k = 0
    todo = [root]
    while todo:
        n = todo.pop()
        n._ord = k
        k += 1
        todo.extend(reversed(list(ast.iter_child_nodes(n))))


def order_key(n) -> int:
    o = getattr(n, "_ord", None)
    return o if o is not None else getattr(n, "lineno", 0) * 10000 + getattr(n, "col_offset", 0)


def local_names_in_order(fn) -> List[str]:
    """names bound (Store/Del) inside the function subtree, excluding parameters of any def in it, names declared
    global/nonlocal and names of nested defs, in order of first binding"""
    params = set()
    declared = set()
    nested = set()
    for n in ast.walk(fn):
        if isinstance(n, ast.arguments):
            for a in n.posonlyargs + n.args + n.kwonlyargs:
                params.add(a.arg)
            if n.vararg:
                params.add(n.vararg.arg)
            if n.kwarg:
                params.add(n.kwarg.arg)
        elif isinstance(n, (ast.Global, ast.Nonlocal)):
            declared |= set(n.names)
        elif isinstance(n, (ast.FunctionDef, ast.AsyncFunctionDef, ast.ClassDef)) and n is not fn:
            nested.add(n.name)
    seen: Dict[str, Tuple[int, int]] = {}
    for n in ast.walk(fn):
        if isinstance(n, ast.Name) and isinstance(n.ctx, (ast.Store, ast.Del)):
            if n.id in params or n.id in declared or n.id in nested:
                continue
            pos = (order_key(n), 0)
            if n.id not in seen or pos < seen[n.id]:
                seen[n.id] = pos
    return [k for k, _ in sorted(seen.items(), key=lambda kv: kv[1])]


_NAMES_TABLE: Optional[Dict[str, List[str]]] = None


def names_table() -> Dict[str, List[str]]:
    global _NAMES_TABLE
    if _NAMES_TABLE is None:
        p = os.path.join(os.path.dirname(os.path.abspath(__file__)), "names.json")
        _NAMES_TABLE = {}
        if os.path.exists(p) and not os.environ.get("QV_NO_NAME_NORMALISATION"):
            with open(p) as fh:
                _NAMES_TABLE = json.load(fh)
    return _NAMES_TABLE


_SHAPES: Optional[Dict[str, str]] = None


def shapes_table() -> Dict[str, str]:
    global _SHAPES
    if _SHAPES is None:
        p = os.path.join(os.path.dirname(os.path.abspath(__file__)), "shapes.json")
        _SHAPES = {}
        if os.path.exists(p) and not os.environ.get("QV_NO_NAME_NORMALISATION"):
            with open(p) as fh:
                _SHAPES = json.load(fh)
    return _SHAPES


def alpha_shape(fn) -> str:
    """digest of the function with its locals replaced by their rank of first binding: equal for two functions
    that differ by a consistent renaming of locals only (docstrings and positions ignored)"""
    import copy as _copy
    import hashlib

    f2 = _copy.deepcopy(fn)
    names = local_names_in_order(f2)
    mp = {n: f"v{k}" for k, n in enumerate(names)}
    for n in ast.walk(f2):
        if isinstance(n, ast.Name) and n.id in mp:
            n.id = mp[n.id]
        if isinstance(n, (ast.FunctionDef, ast.AsyncFunctionDef, ast.ClassDef)) and n.body and isinstance(n.body[0], ast.Expr) and isinstance(n.body[0].value, ast.Constant) and isinstance(n.body[0].value.value, str):
            n.body = n.body[1:] or [ast.Pass()]
    return hashlib.md5(ast.dump(f2, annotate_fields=False, include_attributes=False).encode()).hexdigest()


def undo_local_renames(qualname: str, fn) -> Dict[str, str]:
    """If the locals of `fn` differ from the frozen list only by a consistent renaming (same number of new and of
    missing names, in the same first-binding order), rename them back in place.  Returns the mapping applied."""
    frozen = names_table().get(qualname)
    if not frozen:
        return {}
    cur = local_names_in_order(fn)
    new = [n for n in cur if n not in frozen]
    missing = [n for n in frozen if n not in cur]
    if not new or len(new) != len(missing):
        return {}
    mp = dict(zip(new, missing))
    want = shapes_table().get(qualname)
    if want is not None and alpha_shape(fn) != want:
        # not a pure renaming: the function was changed in other ways too, and guessing which new local plays the
        # part of which old one would make the rules read the wrong variables
        return {}
    for n in ast.walk(fn):
        if isinstance(n, ast.Name) and n.id in mp:
            n.id = mp[n.id]
    return mp


def iter_module_stmts(tree: ast.Module) -> Iterator[ast.stmt]:
    """module-level statements, looking through if/try at module level."""
    todo = list(tree.body)
    while todo:
        s = todo.pop(0)
        yield s
        if isinstance(s, ast.If):
            todo = list(s.body) + list(s.orelse) + todo
        elif isinstance(s, ast.Try):
            todo = list(s.body) + [x for h in s.handlers for x in h.body] + list(s.orelse) + list(s.finalbody) + todo


def walk_no_nested_children(fn) -> Iterator[ast.AST]:
    """All nodes inside fn's body, not descending into nested defs/classes (which are yielded)."""
    todo = list(ast.iter_child_nodes(fn))
    while todo:
        n = todo.pop()
        yield n
        if isinstance(n, (ast.FunctionDef, ast.AsyncFunctionDef, ast.ClassDef)):
            continue
        todo.extend(ast.iter_child_nodes(n))


# --------------------------------------------------------------------------------------
# guard facts (syntax-directed dominance)


def split_fact(expr, pol: bool, out: List[Tuple[ast.expr, bool]]):
    if isinstance(expr, ast.UnaryOp) and isinstance(expr.op, ast.Not):
        split_fact(expr.operand, not pol, out)
    elif isinstance(expr, ast.BoolOp) and isinstance(expr.op, ast.And) and pol:
        for v in expr.values:
            split_fact(v, True, out)
    elif isinstance(expr, ast.BoolOp) and isinstance(expr.op, ast.Or) and not pol:
        for v in expr.values:
            split_fact(v, False, out)
    else:
        out.append((expr, pol))


_DUAL_OPS = {ast.NotIn: ast.In, ast.In: ast.NotIn, ast.NotEq: ast.Eq, ast.Eq: ast.NotEq, ast.IsNot: ast.Is, ast.Is: ast.IsNot, ast.Lt: ast.GtE, ast.GtE: ast.Lt, ast.Gt: ast.LtE, ast.LtE: ast.Gt}


def _dual_facts(expr, pol):
    """other spellings of the same fact (marked `_dual`): `a not in s` false == `a in s` true; `len(x) == 0`
    true == `x` false.  They only widen what a rule can match; rules that COUNT conditions use canon_fact."""
    out = []
    if isinstance(expr, ast.Compare) and len(expr.ops) == 1 and type(expr.ops[0]) in _DUAL_OPS:
        d = ast.Compare(left=expr.left, ops=[_DUAL_OPS[type(expr.ops[0])]()], comparators=expr.comparators)
        out.append((ast.copy_location(d, expr), not pol))
        c = expr.comparators[0]
        if isinstance(expr.ops[0], (ast.Eq, ast.NotEq)) and isinstance(c, ast.Constant) and c.value == 0 and isinstance(expr.left, ast.Call) and isinstance(expr.left.func, ast.Name) and expr.left.func.id == "len" and len(expr.left.args) == 1:
            # len(x) == 0  <->  not x
            out.append((expr.left.args[0], (not pol) if isinstance(expr.ops[0], ast.Eq) else pol))
    elif isinstance(expr, (ast.Name, ast.Attribute)):
        ln = ast.Compare(left=ast.Call(func=ast.Name(id="len", ctx=ast.Load()), args=[expr], keywords=[]), ops=[ast.Eq()], comparators=[ast.Constant(value=0)])
        out.append((ast.copy_location(ln, expr), not pol))
    return out


def canon_fact(expr, pol) -> Tuple[str, bool]:
    """one spelling per fact: positive comparison operator, polarity carries the negation"""
    if isinstance(expr, ast.Compare) and len(expr.ops) == 1 and isinstance(expr.ops[0], (ast.NotIn, ast.NotEq, ast.IsNot)):
        d = ast.Compare(left=expr.left, ops=[_DUAL_OPS[type(expr.ops[0])]()], comparators=expr.comparators)
        return norm(d), not pol
    return norm(expr), pol


def primary_facts(facts):
    return [(e, p) for e, p in facts if not getattr(e, "_dual", False)]


def guard_facts(fi: FuncInfo, node: ast.AST, duals: bool = False) -> List[Tuple[ast.expr, bool]]:
    facts = _guard_facts(fi, node)
    if duals:
        # for rules that compare facts by EQUALITY of text and polarity: other spellings of the same fact are added
        # (never for rules that test for a substring of a fact: a dual has the opposite polarity)
        extra = []
        for e, pol in facts:
            for d, dp in _dual_facts(e, pol):
                d._dual = True
                extra.append((d, dp))
        facts = facts + extra
    return facts


def _guard_facts(fi: FuncInfo, node: ast.AST) -> List[Tuple[ast.expr, bool]]:
    """Conditions known to hold whenever `node` is evaluated, derived from enclosing
    if/elif/else, if-expressions, preceding operands of and/or chains, comprehension filters,
    asserts and preceding `if c: raise/return/continue` statements in enclosing blocks.
    Each fact is (expr, polarity).  Facts are purely syntactic: the caller must make sure the
    names involved are not re-bound between guard and use when that matters."""
    pm = fi.pm
    facts: List[Tuple[ast.expr, bool]] = []
    cur = node
    while cur is not fi.node and cur in pm:
        par = pm[cur]
        if isinstance(par, ast.If):
            if cur in par.body:
                split_fact(par.test, True, facts)
            elif cur in par.orelse:
                split_fact(par.test, False, facts)
        elif isinstance(par, ast.IfExp):
            if cur is par.body:
                split_fact(par.test, True, facts)
            elif cur is par.orelse:
                split_fact(par.test, False, facts)
        elif isinstance(par, ast.While):
            if cur in par.body:
                split_fact(par.test, True, facts)
        elif isinstance(par, ast.BoolOp):
            idx = par.values.index(cur)
            for v in par.values[:idx]:
                split_fact(v, isinstance(par.op, ast.And), facts)
        elif isinstance(par, (ast.ListComp, ast.SetComp, ast.GeneratorExp, ast.DictComp)):
            if not isinstance(cur, ast.comprehension):
                for g in par.generators:
                    for c in g.ifs:
                        split_fact(c, True, facts)
        elif isinstance(par, ast.comprehension):
            if cur in par.ifs:
                for c in par.ifs[: par.ifs.index(cur)]:
                    split_fact(c, True, facts)
        # preceding statements in the same block
        for fname in ("body", "orelse", "finalbody"):
            blk = getattr(par, fname, None)
            if isinstance(blk, list) and cur in blk:
                for s in blk[: blk.index(cur)]:
                    if isinstance(s, ast.If):
                        if stmt_terminates(s.body) and not (s.orelse and stmt_terminates(s.orelse)):
                            split_fact(s.test, False, facts)
                        elif s.orelse and stmt_terminates(s.orelse) and not stmt_terminates(s.body):
                            split_fact(s.test, True, facts)
                    elif isinstance(s, ast.Assert):
                        split_fact(s.test, True, facts)
        cur = par
    return facts


def enclosing_stmt(fi: FuncInfo, node: ast.AST) -> ast.stmt:
    cur = node
    while not isinstance(cur, ast.stmt):
        cur = fi.pm[cur]
    return cur


def assigned_names(node) -> Set[str]:
    out: Set[str] = set()
    for n in ast.walk(node):
        if isinstance(n, ast.Name) and isinstance(n.ctx, (ast.Store, ast.Del)):
            out.add(n.id)
        elif isinstance(n, ast.arg):
            out.add(n.arg)
    return out


# --------------------------------------------------------------------------------------
# reporting


@dataclass
class Obligation:
    rule: str
    construct: str
    role: str
    status: str  # ok | violated
    detail: str
    where: str
    nontrivial: bool = True

    def key(self) -> Tuple[str, str, str]:
        return (self.rule, self.construct, self.role)


class Ctx:
    """Per-run context handed to a property module."""

    def __init__(self, prop: str, repo: Repo, tier: str):
        self.prop = prop
        self.repo = repo
        self.tier = tier
        self.obligations: List[Obligation] = []
        self.notes: List[str] = []
        self.untriaged: List[str] = []
        self.extra: Dict[str, object] = {}
        self.anchor_errors: List[AnchorError] = []

    def _where(self, fi: Optional[FuncInfo], node) -> str:
        if fi is not None:
            return fi.loc(node)
        return ""

    def ok(self, rule, fi: Optional[FuncInfo], role: str, detail: str = "", node=None, construct=None, nontrivial=True):
        c = construct or (fi.short if fi else "?")
        self.obligations.append(Obligation(rule, c, role, "ok", detail, self._where(fi, node), nontrivial))

    def fail(self, rule, fi: Optional[FuncInfo], role: str, detail: str, node=None, construct=None):
        c = construct or (fi.short if fi else "?")
        self.obligations.append(Obligation(rule, c, role, "violated", detail, self._where(fi, node), True))

    def check(self, cond: bool, rule, fi, role, ok_detail="", fail_detail="", node=None, construct=None):
        if cond:
            self.ok(rule, fi, role, ok_detail, node, construct)
        elif not fail_detail:
            # a rule instance that cannot say what is wrong is a shape assumption of the checker, not a verdict on the
            # code: the construct is in a form outside the tables -> undecided
            self.undecided(construct or (fi.short if fi else "?"), f"{rule} [{role}]: the construct is written in a form outside the tables ({self._where(fi, node)})")
        else:
            self.fail(rule, fi, role, fail_detail, node, construct)
        return cond

    def note(self, s: str):
        self.notes.append(s)

    def undecided(self, anchor: str, reason: str):
        """a rule instance whose construct is in a form outside the tables: not a violation, not a pass - the run
        ends as ANALYSIS-ERROR unless a violation is found elsewhere (then it is listed as ANALYSIS-NOTE)"""
        self.anchor_errors.append(AnchorError(anchor, reason))

    def section(self, fn, *args, **kw):
        """run one independent group of rule instances; a vanished anchor / undecided shape inside it is
        recorded (the run ends as ANALYSIS-ERROR unless a violation is found elsewhere) instead of hiding
        the verdicts of the other groups"""
        try:
            return fn(*args, **kw)
        except AnchorError as e:
            self.anchor_errors.append(e)
            return None

    @property
    def failures(self) -> List[Obligation]:
        return [o for o in self.obligations if o.status == "violated"]


def load_known_findings(path: str) -> List[dict]:
    if not os.path.exists(path):
        return []
    with open(path) as fh:
        data = json.load(fh)
    return data.get("findings", [])
