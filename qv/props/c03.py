"""C03 - Compiled circuits are clean: inputs preserved, scratch qubits back to zero."""
from __future__ import annotations

import ast
from typing import List, Set

from .. import q
from ..core import canon_fact, primary_facts, AnchorError, Ctx, FuncInfo, dotted, guard_facts, norm, walk_no_nested
from ..rewrite import single_bindings

ID = "C03"
TECHNIQUE = (
    "must-pass-through / dominance rules on the two uncompute replays, reversal-parity dataflow, who-may-emit "
    "and who-may-write tables read from the code"
)
EXPLANATION = (
    "Decides the necessary conditions of the uncomputation mechanism: (MP-reverse) both replays iterate the recorded "
    "gates in reverse and replay the same gate on the same wires; (MP-keep-guard) in uncompute_all the replay is "
    "dominated by the three skip guards (no-op gate, target kept, target already free) and `keep` reaches it from "
    "returns.bitvec through the qubit map; (MP-flag) the final replay runs exactly under the uncompute flag; "
    "(X-FAMILY) the classical synthesis routines emit only x/cx/ccx/mcx, so a reversed replay is an inverse; "
    "(FX-OWNER) only QCircuitEnhanced writes the three ancilla sets and a qubit enters free_ancilla_lst only in "
    "add_ancilla/uncompute/uncompute_all; (MP-rebuild) gates_computed is rebuilt, in original order, from exactly "
    "the gates not replayed; (DP-WIRES) the target is the last wire in both replays.  It does NOT decide that scratch "
    "qubits are |0> at the end on every input: that is a property of the generated gate list (and is known to be "
    "false on this tree for some programs: inline and final uncomputation interact); no rule here reports it."
)
NOT_DECIDED = "final qubit states on every input (dirty-ancilla defects exist only in the dynamic gate list)"
MIN_OBLIGATIONS = 20

QE = "qcircuit.qcircuitenhanced.QCircuitEnhanced"
IC = "compiler.internalcompiler.InternalCompiler"
X_FAMILY = {"x", "cx", "ccx", "mcx"}
NON_GATE = {
    "add_qubit", "add_ancilla", "get_free_ancilla", "mark_ancilla", "map_qubit", "uncompute", "uncompute_all",
    "remove_identities", "get_key_by_index", "copy", "append_circuit",
}
ANC_SETS = ("ancilla_lst", "free_ancilla_lst", "marked_ancillas")


def run(ctx: Ctx):
    from .. import memo as _memo

    ctx.section(_memo.check_memo_keys, ctx, ('compiler.', 'qcircuit.qcircuitenhanced', 'qcircuit.qcircuit.', 'qlassfun.QlassF.compile', 'qlassfun.QlassF.circuit', 'qcircuit.qcircuitwrapper.QCircuitWrapper.circuit'))
    check_uncompute(ctx)
    check_uncompute_all(ctx)
    check_keep_flow(ctx)
    check_x_family(ctx)
    check_owner(ctx)
    check_ancilla_api(ctx)
    check_mark_operands(ctx)
    ctx.section(check_inplace, ctx)
    from . import c06 as _c06

    ctx.section(_c06.check_dest_rebound, ctx, ctx.repo.cls(IC))


def check_inplace(ctx: Ctx):
    """TS-INPLACE: who may be the TARGET of an emitted gate.  The final replay undoes the recorded gates in reverse;
    that is the inverse computation only if every qubit that served as a control still holds, during the replay,
    the value it had when it was used.  So a gate may only write (a) the destination / a qubit allocated by this
    very call, (b) a qubit that the guard shows to be an anonymous ancilla (`q in qc.ancilla_lst`: nothing else
    refers to it), (c) the symbol's own qubit in the self-assignment `a = ~a`, (d) the temporary x ... x sandwich
    of compile_or (checked by its own rule).  Anything else rewrites a qubit other definitions were computed from."""
    ic = ctx.repo.cls(IC)
    TARGET_POS = {"x": 0, "cx": 1, "ccx": 2, "mcx": 1}
    n = 0
    for name, fi in ic.methods.items():
        if not name.startswith("compile"):
            continue
        aliases = c02_dest_aliases(fi)
        fresh = set()
        for a in walk_no_nested(fi.node):
            if isinstance(a, ast.Assign) and isinstance(a.targets[0], ast.Name):
                for v in ([a.value.body, a.value.orelse] if isinstance(a.value, ast.IfExp) else [a.value]):
                    if isinstance(v, ast.Call) and dotted(v.func) in ("qc.get_free_ancilla", "qc.add_qubit", "qc.add_ancilla"):
                        fresh.add(a.targets[0].id)
                    if isinstance(v, ast.Call) and dotted(v.func) == "self.compile_expr" and any(k.arg == "dest" and norm(k.value) in aliases | fresh for k in v.keywords):
                        fresh.add(a.targets[0].id)
        for c in q.calls(fi.node, nested=False):
            d = dotted(c.func) or ""
            if not d.startswith("qc.") or d[3:] not in TARGET_POS or len(c.args) <= TARGET_POS[d[3:]]:
                continue
            n += 1
            tgt = c.args[TARGET_POS[d[3:]]]
            t = norm(tgt)
            facts = [(norm(e).replace(" ", ""), pol) for e, pol in guard_facts(fi, c)]
            pos = [f for f, pol in facts if pol]
            why = None
            if isinstance(tgt, ast.Name) and (t in aliases or t in fresh):
                why = "destination / qubit allocated by this call"
            elif any(f == f"{t}inqc.ancilla_lst" for f in pos):
                why = "guarded: anonymous ancilla"
            elif any("expr.args[0].name==sym.name" in f for f in pos) and any(isinstance(a, ast.Assign) and norm(a.targets[0]) == t and norm(a.value) == "qc[sym.name]" for a in walk_no_nested(fi.node)):
                why = "self-assignment a = ~a writes a's own qubit"
            elif name == "compile_or" and d == "qc.x":
                why = "operand negation sandwich (balanced: DP-WIRES / or-idiom rules)"
            elif name == "compile_expr" and t.startswith("qc['TRUE']") and any(f == "'TRUE'notinqc" for f in pos):
                why = "constant-one qubit initialised when it is created"
            if why is None:
                ctx.fail("TS-INPLACE", fi, f"{norm(c)} writes only a qubit this call owns", f"`{norm(c)}` (guards {pos or 'none'}) writes a qubit that is neither the destination, nor allocated by this call, nor shown by its guard to be an anonymous ancilla: every definition computed from that qubit is later uncomputed against the changed value", c)
            else:
                ctx.ok("TS-INPLACE", fi, f"{norm(c)} writes only a qubit this call owns", why, c)
    if n < 10:
        raise AnchorError(IC, f"only {n} gate emissions found in the compile methods (13 when the tables were frozen)")


def c02_dest_aliases(fi):
    from .c02 import dest_aliases

    return dest_aliases(fi)


def _gate_loop(fi: FuncInfo) -> ast.For:
    loops = [l for l in q.for_loops(fi.node) if isinstance(l.target, ast.Tuple) and len(l.target.elts) == 3]
    if len(loops) != 1:
        raise AnchorError(fi.short, "expected exactly one (gate, wires, param) loop")
    return loops[0]


def check_uncompute(ctx: Ctx, replay_rule: bool = True):
    fi = ctx.repo.func(f"{QE}.uncompute")
    loop = _gate_loop(fi)
    binds = single_bindings(fi)
    core, par, src_filters = q.seq_source(loop.iter, binds)
    if isinstance(core, ast.Subscript) and isinstance(core.slice, ast.Slice) and norm(q.seq_source(core.value, binds)[0]) == "self.gates_computed":
        ctx.check(False, "MP-reverse", fi, "replay walks every recorded gate", "", f"iterates `{norm(loop.iter)}`: only the part `{norm(core)}` of the recorded gates is walked, a marked qubit computed by an earlier gate is released without being reset", loop)
    elif norm(core) != "self.gates_computed":
        ctx.undecided(fi.short, f"the replay loop iterates `{norm(loop.iter)}`, whose elements come from `{norm(core)[:60]}`, not (visibly) from self.gates_computed")
    else:
        ctx.check(par == 1, "MP-reverse", fi, "replay in reverse order", "for ... in reversed(self.gates_computed)", f"iterates `{norm(loop.iter)}` (source `{norm(core)}`, {par} reversal(s)): the inverse of a gate product is the reversed product", loop)
    g, ws, p = (norm(e) for e in loop.target.elts)
    # a filter applied where the replay list is built guards the replay like an `if` in the loop would
    pre_facts = []
    for t_, tgt_ in src_filters:
        if isinstance(tgt_, ast.Tuple) and len(tgt_.elts) == 3:
            ren = {norm(a): b for a, b in zip(tgt_.elts, (g, ws, p))}

            class _Rn(ast.NodeTransformer):
                def visit_Name(self, n):
                    return ast.copy_location(ast.Name(id=ren.get(n.id, n.id), ctx=n.ctx), n)

            import copy as _copy

            pre_facts.append((norm(_Rn().visit(_copy.deepcopy(t_))), True))
    apps = [c for c in q.calls(loop) if dotted(c.func) == "self.append"]
    ba = q.bound_args(ctx.repo, apps[0], ("gate", "qubits", "param")) if len(apps) == 1 else None
    ok = ba is not None and [norm(a) if a is not None else None for a in ba] == [g, ws, p]
    ctx.check(ok, "MP-reverse", fi, "same gate, same wires, same parameter", "", "the replayed gate is not the recorded gate on the recorded wires", apps[0] if apps else loop)
    if apps:
        facts = [(norm(e), pol) for e, pol in guard_facts(fi, apps[0], duals=True)] + pre_facts
        marked_facts = [(f, pol) for f, pol in facts if f.endswith(" in self.marked_ancillas") and " not in " not in f]
        if not marked_facts:
            ctx.undecided(fi.short, f"replay iff the target is marked: the replay is not guarded by a membership test in self.marked_ancillas (guards {facts})")
        else:
            ctx.check((f"{ws}[-1] in self.marked_ancillas", True) in facts, "DP-WIRES", fi, "replay iff the target (last wire) is marked", "", f"replay guard is {marked_facts}: the qubit a gate writes is its LAST wire", apps[0])
    # rebuild of gates_computed: not-replayed gates, original order
    st = [n for n in walk_no_nested(fi.node) if isinstance(n, ast.Assign) and norm(n.targets[0]) == "self.gates_computed"]
    if len(st) != 1:
        raise AnchorError(fi.short, "expected one assignment to self.gates_computed")
    core2, par2 = q.reversal_parity(st[0].value, None)
    keep_app = [c for c in q.method_calls(loop, "append") if isinstance(c.func.value, ast.Name) and c.func.value.id == norm(core2)]
    in_else = False
    if keep_app and apps:
        fk = [(norm(e), pol) for e, pol in guard_facts(fi, keep_app[0], duals=True)]
        in_else = (f"{ws}[-1] in self.marked_ancillas", False) in fk
        elt = keep_app[0].args[0] if keep_app[0].args else None
        same_gate = isinstance(elt, ast.Tuple) and [norm(x) for x in elt.elts] == [g, ws, p]
        ctx.check(same_gate, "MP-rebuild", fi, "kept gates are recorded unchanged", "", "the kept gate record differs from the iterated one", keep_app[0])
    core2s, par2s, f2 = q.seq_source(st[0].value, binds)
    if not keep_app and norm(core2s) == "self.gates_computed" and f2:
        # the kept gates selected by a filter over the recorded list itself
        tests = []
        for t_, tgt_ in f2:
            if isinstance(tgt_, ast.Tuple) and len(tgt_.elts) == 3:
                ren2 = {norm(a): b for a, b in zip(tgt_.elts, (g, ws, p))}

                class _Rn2(ast.NodeTransformer):
                    def visit_Name(self, n):
                        return ast.copy_location(ast.Name(id=ren2.get(n.id, n.id), ctx=n.ctx), n)

                import copy as _copy2

                tests.append(norm(_Rn2().visit(_copy2.deepcopy(t_))))
        if len(tests) != 1 or "self.marked_ancillas" not in tests[0]:
            ctx.undecided(fi.short, f"gates_computed is rebuilt by filtering the recorded list with {tests}: outside the tables")
        else:
            ctx.check(tests[0] == f"{ws}[-1] not in self.marked_ancillas" and par2s == 0, "MP-rebuild", fi, "gates_computed = gates not replayed, original order", f"filter `{tests[0]}`, {par2s} reversals", f"gates_computed is rebuilt as the recorded gates with `{tests[0]}` ({par2s} reversal(s)): it must hold exactly the non-replayed gates in their original order", st[0])
    elif not keep_app and isinstance(core2, (ast.List, ast.Tuple)) and not core2.elts:
        ctx.fail("MP-rebuild", fi, "gates_computed = gates not replayed, original order", f"`{norm(st[0])[:60]}` empties the record after the pass: the gates that were NOT undone (they target qubits that are not marked yet) are forgotten, so an ancilla marked by a later expression has nothing to replay and is handed back to the free list still holding its value", st[0])
    elif not keep_app:
        ctx.undecided(fi.short, f"gates_computed is rebuilt from `{norm(core2)}`, which is not a list appended to in the replay loop: outside the tables")
    else:
        ctx.check(in_else and (par + par2) % 2 == 0, "MP-rebuild", fi, "gates_computed = gates not replayed, original order", f"{par}+{par2} reversals", f"gates_computed is rebuilt from `{norm(core2)}` ({par}+{par2} reversals, kept under {fk if keep_app and apps else '?'}): it must hold exactly the non-replayed gates in their original order (a later uncompute would replay in the wrong order or replay undone gates)", st[0])
    # TS-REPLAY: a gate that stays recorded for a later replay must not be controlled by a qubit released here
    if keep_app and apps and replay_rule:
        fk_all = [(norm(e), pol) for e, pol in guard_facts(fi, keep_app[0], duals=True)]
        looks_at_controls = any(ws in f and f"{ws}[-1]" not in f for f, pol in fk_all) or any(f"{ws}[:-1]" in f or f"{ws}[0:-1]" in f for f, pol in fk_all)
        ctx.check(looks_at_controls, "TS-REPLAY", fi, "gates kept for a later replay are not controlled by a qubit released now", "", f"a gate is kept in gates_computed whenever its TARGET `{ws}[-1]` is not being uncomputed; its controls are not looked at, so gates controlled by the ancillas released here stay recorded and are replayed by the final pass when those qubits hold something else (they are recycled by get_free_ancilla, possibly as an output qubit)", keep_app[0])
    # marked set handling
    txt = [norm(n) for n in fi.body]
    upd = [n for n in ast.walk(fi.node) if (isinstance(n, (ast.Assign, ast.AugAssign)) and norm(n.targets[0] if isinstance(n, ast.Assign) else n.target) == "self.marked_ancillas") or (isinstance(n, ast.Call) and isinstance(n.func, ast.Attribute) and norm(n.func.value) == "self.marked_ancillas" and n.func.attr in ("clear", "difference_update", "discard", "remove"))]
    ctx.check(bool(upd), "TS-ANC", fi, "uncomputed qubits leave the marked set", "; ".join(norm(u)[:60] for u in upd[:2]), "self.marked_ancillas is never updated after the replay: the same qubits would be replayed again by the next uncompute", fi.node)
    rets = q.returns(fi)
    ctx.check(all(r.value is not None for r in rets) and len(rets) >= 1, "TS-ANC", fi, "reports the uncomputed qubits", "", "uncompute() must return the qubits it reset (the compiler drops them from its expression cache)", fi.node)


def check_uncompute_all(ctx: Ctx):
    fi = ctx.repo.func(f"{QE}.uncompute_all")
    loop = _gate_loop(fi)
    binds = single_bindings(fi)
    core, par = q.reversal_parity(loop.iter, binds)
    src = norm(core)
    if isinstance(core, ast.Call) and (dotted(core.func) or "").endswith("deepcopy") and core.args:
        src = norm(core.args[0])
    ctx.check(src == "self.gates" and par == 1, "MP-reverse", fi, "replay in reverse order", "for ... in reversed(copy of self.gates)", f"iterates `{norm(loop.iter)}` (source `{src}`, {par} reversal(s))", loop)
    # iterating self.gates itself while appending would never terminate / replay replays
    ctx.check(src != norm(core) or norm(core) != "self.gates", "MP-reverse", fi, "iterates a snapshot", "", "iterates the live gate list it appends to", loop)
    g, ws, p = (norm(e) for e in loop.target.elts)
    apps = [c for c in q.calls(loop) if dotted(c.func) == "self.append"]
    ba = q.bound_args(ctx.repo, apps[0], ("gate", "qubits", "param")) if len(apps) == 1 else None
    ok = ba is not None and [norm(a) if a is not None else None for a in ba] == [g, ws, p]
    ctx.check(ok, "MP-reverse", fi, "same gate, same wires, same parameter", "", "the replayed gate is not the recorded gate on the recorded wires", apps[0] if apps else loop)
    if not apps:
        return
    facts = [(norm(e), pol) for e, pol in guard_facts(fi, apps[0], duals=True)]
    keep = fi.params[1]
    want = {
        "no-op gates skipped": lambda f, pol: (not pol) and "NopGate" in f,
        "kept (output) targets skipped": lambda f, pol: (not pol) and f == f"{ws}[-1] in {keep}",
        "already-free targets skipped": lambda f, pol: (not pol) and f == f"{ws}[-1] in self.free_ancilla_lst",
    }
    for role, pred in want.items():
        ctx.check(any(pred(f, pol) for f, pol in facts), "MP-keep-guard", fi, role, "dominates the replay", f"the replay `self.append(...)` is not dominated by this guard; guards found: {facts}", apps[0])


def check_keep_flow(ctx: Ctx):
    fi = ctx.repo.func(f"{IC}.compile")
    ua = [c for c in q.calls(fi.node) if dotted(c.func) == "qc.uncompute_all"]
    if len(ua) != 1:
        raise AnchorError(fi.short, "expected one qc.uncompute_all call")
    k = q.arg(ua[0], 0, "keep")
    if k is None:
        ctx.fail("MP-keep-guard", fi, "keep passed to uncompute_all", "uncompute_all is called without the output qubits: the results are uncomputed too", ua[0])
        return
    binds = single_bindings(fi)
    v = binds.get(k.id) if isinstance(k, ast.Name) else k
    ok = False
    why = f"`keep` is `{norm(v) if v is not None else '?'}`"
    if isinstance(v, ast.ListComp) and len(v.generators) == 1:
        gen = v.generators[0]
        tgt = norm(gen.target)
        src = gen.iter
        # filter(lambda r: r in qc, X) -> X
        if isinstance(src, ast.Call) and isinstance(src.func, ast.Name) and src.func.id == "filter" and len(src.args) == 2:
            src = src.args[1]
        conds_ok = all(norm(c).replace(tgt, "r") in ("r in qc",) for c in gen.ifs)
        ok = norm(v.elt) == f"qc[{tgt}]" and norm(src) == "returns.bitvec" and conds_ok
        why = f"`keep` is built from `{norm(src)}`"
    ctx.check(ok, "MP-keep-guard", fi, "keep = qubits of returns.bitvec", "[qc[r] for r in ... returns.bitvec]", why + ": exactly the qubits of the return bits must be excluded from the final replay (leaving them out uncomputes the result; adding other names, which may have been re-bound to scratch qubits, leaves those dirty)", ua[0])
    all_facts = [(norm(e), pol) for e, pol in guard_facts(fi, ua[0])]
    facts = [f for f, pol in all_facts if pol]
    ctx.check("uncompute" in facts, "MP-flag", fi, "final replay under the uncompute flag", f"guards={facts}", "uncompute_all is not guarded by the uncompute flag", ua[0])
    extra = [(t, pol) for t, pol in (canon_fact(e, p_) for e, p_ in primary_facts(guard_facts(fi, ua[0]))) if (t, pol) not in (("uncompute", True), ("returns is None", False))]
    ctx.check(not extra, "MP-flag", fi, "final replay is not skipped for any other reason", "conditions: uncompute and returns is not None", f"the final replay is additionally conditioned on {[('' if pol else 'not ') + f for f, pol in extra]}: whenever that makes it skip, every named or shared intermediate qubit keeps its value (scratch is not returned to zero)", ua[0])
    # it is the last circuit-changing step
    idx = q.stmt_index(fi.body, ua[0])
    later = [c for s in fi.body[idx + 1 :] for c in q.calls(s) if (dotted(c.func) or "").startswith("qc.")]
    ctx.check(not later, "MP-flag", fi, "nothing is emitted after the final replay", "", f"calls after uncompute_all: {[norm(c) for c in later]}", ua[0])


def check_x_family(ctx: Ctx, rule="X-FAMILY"):
    ic = ctx.repo.cls(IC)
    qc_cls = ctx.repo.cls("qcircuit.qcircuit.QCircuit")
    gate_methods = set()
    for name, m in qc_cls.methods.items():
        if any(dotted(c.func) in ("self.append",) or (dotted(c.func) or "").startswith("self.") and (dotted(c.func) or "")[5:] in gate_methods for c in q.calls(m.node)):
            if name not in ("append", "__iadd__", "barrier", "append_circuit", "random"):
                gate_methods.add(name)
    for extra in ("qft", "iqft", "append", "barrier", "mctrl"):
        gate_methods.add(extra)
    n = 0
    for name, m in ic.methods.items():
        if name == "compile_quantum_gate":
            ctx.ok(rule, m, "exempt", "explicit hybrid quantum opt-in (Q.H etc.), outside the classical synthesis", m.node, nontrivial=False)
            continue
        emitted = []
        bad = []
        for c in q.calls(m.node):
            d = dotted(c.func) or ""
            if d.startswith("qc.") and d.count(".") == 1:
                meth = d[3:]
                if meth in gate_methods:
                    emitted.append(meth)
                    if meth not in X_FAMILY:
                        bad.append((meth, c))
            if isinstance(c.func, ast.Name) and c.func.id == "getattr" and c.args and norm(c.args[0]) == "qc":
                bad.append(("getattr(qc, ...)", c))
        if emitted or bad:
            n += 1
            ctx.check(not bad, rule, m, "emits only x/cx/ccx/mcx", f"emits {sorted(set(emitted))}", f"emits {[b[0] for b in bad]}: a reversed replay of a non-self-inverse / non-classical gate is not an uncompute, and the result is no longer a xor-accumulation", bad[0][1] if bad else m.node)
    if n < 5:
        raise AnchorError(IC, f"only {n} emitting synthesis routines found (6 confirmed by hand)")


def check_mark_operands(ctx: Ctx):
    """the synthesis routines mark the scratch qubits holding their operands on EVERY path that consumed them, so that
    the per-expression uncompute returns them to zero (an unmarked operand ancilla is only met by the final replay,
    which undoes at most its last gate)"""
    ic = ctx.repo.cls(IC)
    for name in ("compile_and", "compile_or"):
        m = ic.methods.get(name)
        if m is None:
            raise AnchorError(f"{IC}.{name}", "not found")
        body = m.body
        emit = [i for i, s in enumerate(body) if any(dotted(c.func) in ("qc.mcx", "qc.cx") for c in q.calls(s))]
        marks = [i for i, s in enumerate(body) if any(dotted(c.func) == "qc.mark_ancilla" for c in q.calls(s))]
        if not emit or not marks:
            raise AnchorError(m.short, "gate emission / operand marking not found at the top level of the routine")
        mi = marks[0]
        ms = body[mi]
        over = None
        for n in ast.walk(ms):
            if isinstance(n, (ast.ListComp, ast.GeneratorExp)):
                over = norm(n.generators[0].iter)
            elif isinstance(n, ast.For):
                over = norm(n.iter)
        mcx = [c for s in body for c in q.calls(s) if dotted(c.func) == "qc.mcx"]
        same_list = bool(mcx) and over == norm(mcx[0].args[0])
        early = [s for s in body[emit[0] : mi] if any(isinstance(x, ast.Return) for x in ast.walk(s))]
        cond = not isinstance(ms, (ast.Expr, ast.For))
        mk = [c for c in q.calls(ms) if dotted(c.func) == "qc.mark_ancilla"]
        filt = [norm(e) for c in mk for e, pol in guard_facts(m, c) if q.contains(ms, e)]
        if filt:
            ctx.fail("TS-ANC", m, "every operand qubit is marked (mark_ancilla itself ignores non-ancillas)", f"operands are marked only under {filt}: an operand held on an anonymous scratch qubit that fails this filter (a `__x` temporary is a Symbol on an ancilla) is never uncomputed by the per-expression pass, and the final replay undoes at most its last gate", mk[0])
        ctx.check(same_list and not early and not cond and mi > emit[-1], "TS-ANC", m, "operand qubits are marked for uncomputation on every path after the gates are emitted", f"mark_ancilla over `{over}` is an unconditional statement after the emission", f"between the gate emission and `mark_ancilla` over `{over}` the routine can return ({[norm(e)[:40] for e in early]}) or the marking is conditional: the scratch qubits holding the operands are then never uncomputed by the per-expression pass", ms)
    cn = ic.methods.get("compile_not")
    br = [n for n in walk_no_nested(cn.node) if isinstance(n, ast.Call) and dotted(n.func) == "qc.cx"]
    ok = False
    if br:
        blk = cn.pm.get(cn.pm.get(br[0]))  # Expr -> enclosing block owner
        stmts = getattr(blk, "orelse", []) if isinstance(blk, ast.If) and any(q.contains(s, br[0]) for s in blk.orelse) else getattr(blk, "body", [])
        idx = q.stmt_index(stmts, br[0])
        later = stmts[idx:] if idx is not None else []
        pos_mark = next((i for i, s in enumerate(later) if any(dotted(c.func) == "qc.mark_ancilla" for c in q.calls(s))), None)
        pos_ret = next((i for i, s in enumerate(later) if isinstance(s, ast.Return)), None)
        def unconditional(st):
            # the marking statement itself, or a loop over a non-empty literal list whose body is the marking statement
            if isinstance(st, ast.Expr):
                return True
            if not (isinstance(st, ast.For) and all(isinstance(b, ast.Expr) for b in st.body) and not st.orelse):
                return False
            it = st.iter
            if isinstance(it, ast.Name):
                bs = [a.value for a in later if isinstance(a, ast.Assign) and len(a.targets) == 1 and isinstance(a.targets[0], ast.Name) and a.targets[0].id == it.id]
                it = bs[0] if len(bs) == 1 else it
            return isinstance(it, (ast.List, ast.Tuple)) and len(it.elts) >= 1

        ok = pos_mark is not None and (pos_ret is None or pos_mark < pos_ret) and unconditional(later[pos_mark])
    ctx.check(ok, "TS-ANC", cn, "the operand of a copied negation is marked before returning", "", "compile_not copies its operand into the destination without marking the operand's scratch qubit for uncomputation on that path", cn.node)


def check_owner(ctx: Ctx):
    repo = ctx.repo
    qe = repo.cls(QE)
    offenders = []
    free_adders = {}
    for fq, fi in repo.functions.items():
        for n in walk_no_nested(fi.node):
            tgt = None
            kind = None
            if isinstance(n, ast.Attribute) and n.attr in ANC_SETS and isinstance(n.ctx, (ast.Store, ast.Del)):
                tgt, kind = n.attr, "assign"
            elif isinstance(n, ast.Call) and isinstance(n.func, ast.Attribute) and isinstance(n.func.value, ast.Attribute) and n.func.value.attr in ANC_SETS and n.func.attr in ("add", "remove", "discard", "pop", "clear", "update", "difference_update", "append", "extend"):
                tgt, kind = n.func.value.attr, n.func.attr
            elif isinstance(n, ast.AugAssign) and isinstance(n.target, ast.Attribute) and n.target.attr in ANC_SETS:
                tgt, kind = n.target.attr, "augassign"
            if tgt is None:
                continue
            if fi.cls is not qe:
                offenders.append((fi, n, tgt, kind))
            if tgt == "free_ancilla_lst" and kind in ("add", "update", "assign", "augassign", "append", "extend"):
                free_adders.setdefault(fi.name, []).append(n)
    for fi, n, tgt, kind in offenders:
        ctx.fail("FX-OWNER", fi, f"writes {tgt}", f"{tgt} is written ({kind}) outside QCircuitEnhanced: ancilla ownership state has a single owner", n)
    ctx.check(not offenders, "FX-OWNER", None, "ancilla sets written only by QCircuitEnhanced", f"scanned {len(repo.functions)} functions", "", construct=QE)
    allowed = {"__init__", "add_ancilla", "uncompute", "uncompute_all"}
    extra = set(free_adders) - allowed
    ctx.check(not extra, "TS-ANC", None, "a qubit becomes free only when created free or uncomputed", f"adders: {sorted(free_adders)}", f"free_ancilla_lst is also added to in {sorted(extra)}: a qubit not known to be |0> would be handed out as a clean ancilla", construct=QE)


def check_ancilla_api(ctx: Ctx):
    qe = ctx.repo.cls(QE)
    gfa = qe.methods.get("get_free_ancilla")
    if gfa is None:
        raise AnchorError(QE + ".get_free_ancilla", "not found")
    pops = [c for c in q.calls(gfa.node) if dotted(c.func) == "self.free_ancilla_lst.pop"]
    news = [c for c in q.calls(gfa.node) if dotted(c.func) == "self.add_ancilla"]
    aa = qe.methods.get("add_ancilla")
    frees = [c for c in q.calls(gfa.node) if dotted(c.func) in ("self.free_ancilla_lst.add", "self.free_ancilla_lst.update")]
    inline_new = [c for c in q.calls(gfa.node) if dotted(c.func) == "self.add_qubit"] and [c for c in q.calls(gfa.node) if dotted(c.func) == "self.ancilla_lst.add"]
    if not pops:
        reads = [n for n in ast.walk(gfa.node) if isinstance(n, ast.Attribute) and n.attr == "free_ancilla_lst"]
        if reads and not any(isinstance(c.func, ast.Attribute) and c.func.attr in ("remove", "discard", "difference_update") and "free_ancilla_lst" in norm(c.func.value) for c in q.calls(gfa.node)):
            ctx.check(False, "TS-ANC", gfa, "hands out a free ancilla exactly once", "", "get_free_ancilla reads the free set but never takes the qubit out of it: the same qubit can be handed out twice", gfa.node)
        else:
            ctx.undecided(gfa.short, "get_free_ancilla does not pop() from self.free_ancilla_lst")
    elif len(news) == 1 and aa is not None:
        ps_ = q.call_params(aa)
        ba_ = q.bound_args(ctx.repo, news[0], ps_) if "is_free" in ps_ else None
        if ba_ is None:
            ctx.undecided(gfa.short, f"`{norm(news[0])}`: cannot match the arguments with add_ancilla's parameters")
        else:
            v_ = ba_[ps_.index("is_free")]
            ctx.check(isinstance(v_, ast.Constant) and v_.value is False, "TS-ANC", gfa, "hands out a free ancilla exactly once", "pop() from the free set, or a new non-free ancilla", f"`{norm(news[0])}` creates the new ancilla as a FREE one and hands it out: the same qubit is handed out again by the next call", news[0])
    elif inline_new and not news:
        ctx.check(not frees, "TS-ANC", gfa, "hands out a free ancilla exactly once", "pop() from the free set, or a new ancilla that is not put in the free set", f"the newly created ancilla is handed out and also put into the free set (`{norm(frees[0]) if frees else ''}`): the next call hands it out again", frees[0] if frees else gfa.node)
    else:
        ctx.undecided(gfa.short, "get_free_ancilla creates its new ancilla in a form outside the tables")
    ma = qe.methods.get("mark_ancilla")
    facts_ok = any(isinstance(n, ast.If) and "in self.ancilla_lst" in norm(n.test) for n in walk_no_nested(ma.node))
    ctx.check(facts_ok, "TS-ANC", ma, "only ancillas are marked", "", "mark_ancilla marks non-ancilla qubits: inputs/outputs would be uncomputed", ma.node)
    mq = qe.methods.get("map_qubit")
    ok = any(isinstance(n, ast.If) and "promote" in norm(n.test) and "self.ancilla_lst.remove" in norm(n) for n in walk_no_nested(mq.node))
    ctx.check(ok, "TS-ANC", mq, "promotion removes the qubit from the ancilla set", "", "a promoted (named) qubit stays an ancilla and is uncomputed/recycled while still in use", mq.node)
