"""C12 - The circuit boolean optimizer returns an equivalent, no larger circuit."""
from __future__ import annotations

import ast

from .. import memo, fx, pat, q
from ..boolterm import head_name
from ..core import AnchorError, Ctx, FuncInfo, dotted, guard_facts, norm, walk_no_nested
from ..rewrite import single_bindings
from . import c10

ID = "C12"
TECHNIQUE = (
    "effect analysis (argument untouched, fresh result), control dependence of the splice on both guards, ordering "
    "of splices, provenance and order of the re-synthesis arguments, head-language agreement of the re-synthesis path"
)
EXPLANATION = (
    "Decides: (FX-PARAM) the argument circuit is never modified; "
    "(MP-splice-guards) a section is spliced in only if the re-synthesised circuit is not larger and uses no qubit "
    "outside the section; (MP-reverse-splice) sections are spliced in descending index order, into exactly the "
    "section's own index range; (MP-resynth-args) re-synthesis is called on the section's simplified expressions with "
    "the symbols of the vanilla copy in qubit-index order, with uncompute off and no return value, and builds one "
    "bool argument per symbol in that order; (DP-LANG) the decompiler emits only Not/Xor/And/Symbol and "
    "custom_simplify_logic2 lets sympy's simplify_logic result through only under a head guard, so the profile-less "
    "re-synthesis path never meets a head or arity the compiler cannot take; (SB-INVOLUTION) a peephole that drops a "
    "gate pair under a class guard admits only classes all of whose subclasses square to the identity.  It does NOT decide unitary equivalence "
    "(e.g. a section that is a pure relabelling being replaced by nothing is a property of the compiled result)."
)
NOT_DECIDED = "unitary equivalence of the result"
MIN_OBLIGATIONS = 14

OPT = "decompiler.decopt.circuit_boolean_optimizer"


def run(ctx: Ctx):
    an = fx.effects(ctx)
    fi = ctx.repo.func(OPT)
    rep = fx.PurityReport(ctx, "FX-PARAM", c10.designed_mutators(ctx))
    fx.check_params_pure(ctx, "FX-PARAM", an, fi, ["qc", "preserve"], rep, c10.EXEMPT_ORIGINS)
    rep.flush()
    check_splice(ctx, fi)
    check_resynth(ctx, fi)
    check_language(ctx)
    memo.check_memo_keys(ctx, ("decompiler.", "compiler."))
    # the sections the optimizer splices over come from the decompiler: their index ranges and expressions (C11)
    from . import c11

    ctx.section(c11.run, ctx)
    from .. import gatealg as _ga

    ctx.section(_ga.check_involution, ctx, ('decompiler.', 'qcircuit.qcircuit'))


def check_splice(ctx: Ctx, fi: FuncInfo):
    loops = [l for l in q.for_loops(fi.node) if "section" in norm(l.target)]
    if not loops:
        raise AnchorError(OPT, "loop over sections not found")
    loop = loops[0]
    sec = norm(loop.target)
    core, par = q.reversal_parity(loop.iter, single_bindings(fi))
    ctx.check(par == 1, "MP-reverse-splice", fi, "sections processed last-to-first", norm(loop.iter), f"`{norm(loop.iter)}` visits sections front to back: after the first splice changes the length of the gate list, the index ranges of the later sections (computed beforehand) point at the wrong gates", loop)
    ctx.check(isinstance(core, ast.Name) or "decompile" in norm(core), "MP-reverse-splice", fi, "sections come from the decompiler", norm(core), "", loop)
    splices = [n for n in ast.walk(loop) if isinstance(n, ast.Assign) and isinstance(n.targets[0], ast.Subscript) and isinstance(n.targets[0].slice, ast.Slice) and norm(n.targets[0].value).endswith(".gates")]
    if len(splices) != 1:
        raise AnchorError(OPT, "expected exactly one slice assignment into the gate list")
    sp = splices[0]
    sl = sp.targets[0].slice
    lo_v = q.value_at(loop.body, q.enclosing_stmt(fi, sp), sl.lower) if sl.lower is not None else None
    up_v = q.value_at(loop.body, q.enclosing_stmt(fi, sp), sl.upper) if sl.upper is not None else None
    if sl.lower is not None and sl.upper is not None and (lo_v is None or up_v is None):
        ctx.undecided(fi.short, f"the bounds of `{norm(sp.targets[0])}` have no single reaching definition")
    else:
        ok = lo_v is not None and up_v is not None and norm(lo_v) == f"{sec}.index[0]" and norm(up_v) == f"{sec}.index[1]" and sl.step is None
        ctx.check(ok, "MP-reverse-splice", fi, "splice replaces exactly the section's index range", norm(sp.targets[0]), f"`{norm(sp.targets[0])}` (= [{norm(lo_v) if lo_v is not None else ''}:{norm(up_v) if up_v is not None else ''}]) is not [{sec}.index[0]:{sec}.index[1]]", sp)
    new = norm(sp.value)
    facts = [(norm(e), pol) for e, pol in guard_facts(fi, sp)]
    base = new[: -len(".gates")] if new.endswith(".gates") else new
    fz = [(f.replace(" ", ""), pol) for f, pol in facts]
    lb, ls = f"len({base}.gates)", f"len({sec}.gates)"
    size_ok = any((f, pol) in ((f"{lb}>{ls}", False), (f"{lb}<={ls}", True), (f"{ls}<{lb}", False), (f"{ls}>={lb}", True)) for f, pol in fz)
    ctx.check(size_ok, "MP-splice-guards", fi, "spliced only if not larger", f"len({base}.gates) <= len({sec}.gates)", f"the splice is not control-dependent on the size comparison (guards: {facts})", sp)
    import re as _re

    uq = _re.escape(f"{base}.used_qubits")
    qs_forms = [(rf"^\(?{uq}-(\w+)\)?!=set\(\)$", False), (rf"^\(?{uq}-(\w+)\)?==set\(\)$", True), (rf"^{uq}<=(\w+)$", True), (rf"^{uq}\.issubset\((\w+)\)$", True), (rf"^{uq}-(\w+)$", False), (rf"^(\w+)>={uq}$", True)]
    sq_from_guard = None
    for f, pol in fz:
        for rx, want in qs_forms:
            m_ = _re.match(rx, f)
            if m_ and pol == want:
                sq_from_guard = m_.group(1)
    qs_ok = sq_from_guard is not None
    ctx.check(qs_ok, "MP-splice-guards", fi, "spliced only if it stays on the section's qubits", f"{base}.used_qubits - section_qubits == set()", f"the splice is not control-dependent on the qubit-set comparison (guards: {facts}): a re-synthesis that allocates a new qubit would be spliced into a circuit that does not have it", sp)
    # a definition satisfied by re-pointing a name (no gate emitted) must not be spliced: the optimizer looks at
    # qc_sec.gates only
    remap_ok = False
    for e, pol in guard_facts(fi, sp):
        t = norm(e)
        if (not pol) and f"{base}.qubit_map" in t and "enumerate(symbols)" in t.replace(" ", "").replace("enumerate(symbols)", "enumerate(symbols)") and "!=" in t:
            remap_ok = True
        if pol and f"{base}.qubit_map" in t and "==" in t and "all(" in t:
            remap_ok = True
    ctx.check(remap_ok, "MP-splice-guards", fi, "spliced only if every qubit name still sits on its own qubit", f"any({base}.qubit_map.get(s) != i for i, s in enumerate(symbols)) -> skip", "the splice is not guarded against re-synthesis by relabelling: the compiler satisfies `q0 = q1` by pointing the name q0 at q1's qubit without emitting a gate, and only the gate list is spliced, so a section that permutes qubits (a swap made of three CX) is replaced by nothing", sp)
    # section_qubits is the set of wires of the section's gates
    sq = sq_from_guard
    if sq:
        adds = [c for c in q.method_calls(loop, "add") if norm(c.func.value) == sq]
        src_loops = [l for l in q.for_loops(loop, nested=True) if norm(l.iter) == f"{sec}.gates"]
        by_loops = bool(adds) and bool(src_loops)
        # or a set comprehension / set(...) over the wires of the section's gates
        defs = [n.value for n in ast.walk(loop) if isinstance(n, ast.Assign) and norm(n.targets[0]) == sq]
        by_comp = False
        for v in defs:
            core = v.args[0] if isinstance(v, ast.Call) and norm(v.func) == "set" and len(v.args) == 1 else v
            if isinstance(core, (ast.SetComp, ast.GeneratorExp, ast.ListComp)) and len(core.generators) == 2 and norm(core.generators[0].iter) == f"{sec}.gates" and not any(g.ifs for g in core.generators):
                g0, g1 = core.generators
                wvar = norm(g1.iter)
                by_comp = isinstance(g0.target, ast.Tuple) and len(g0.target.elts) == 3 and norm(g0.target.elts[1]) == wvar and norm(core.elt) == norm(g1.target)
        if not defs and not adds:
            ctx.undecided(fi.short, f"the qubit set `{sq}` compared with the re-synthesised circuit's qubits is not built in the section loop")
        else:
            ctx.check(by_loops or by_comp, "MP-splice-guards", fi, "qubit set collected from the section's own gates", "", f"`{sq}` is not the set of all wires of {sec}.gates", loop)
    # the splice target is the copy that is returned
    rets = q.returns(fi)
    tgt = norm(sp.targets[0].value)[: -len(".gates")]
    ctx.check(len(rets) == 1 and norm(rets[0].value) == tgt, "MP-reverse-splice", fi, "the spliced copy is returned", tgt, "the function returns a different object from the one it spliced into", rets[0] if rets else fi.node)


def check_resynth(ctx: Ctx, fi: FuncInfo):
    cs = [c for c in q.calls(fi.node) if (dotted(c.func) or "").endswith("exprs_to_quantum")]
    if len(cs) != 1:
        raise AnchorError(OPT, "expected one exprs_to_quantum call")
    c = cs[0]
    sy = q.arg(c, 1, "symbols")
    ex = q.arg(c, 0, "exprs")
    if sy is None or ex is None:
        raise AnchorError(OPT, "exprs_to_quantum called without exprs/symbols")
    # every value the symbols variable can take, aliases looked through
    binds = pat.bindings(fi.node)
    alts = q.value_alternatives(fi, fi.node, norm(sy)) if isinstance(sy, ast.Name) else [(sy, [], c)]
    if not alts:
        raise AnchorError(OPT, "symbols is not assigned in the function")
    for v, conds, node in alts:
        v = pat.look_through(v, binds)
        txt = norm(v)
        core = q.strip_wrappers(v)
        if "qubit_map" in txt:
            ok = norm(core).endswith(".qubit_map.keys()") or norm(core).endswith(".qubit_map")
            ctx.check(ok, "MP-resynth-args", fi, "symbols = qubit names in index order", txt, f"`{txt}` re-orders or filters the qubit names (the position of a name in this list is the wire the re-synthesised gates act on; dict order of a vanilla copy is index order, sorted() is not: q10 < q2)", node)
        elif "preserve" in txt:
            ok = "sorted" not in txt and "set(" not in txt and q.is_reversed(v) is None
            ctx.check(ok, "MP-resynth-args", fi, "symbols for the preserve list keep its order", txt, f"`{txt}` re-orders the preserve list", node)
        else:
            ctx.undecided(fi.short, f"symbols handed to re-synthesis can be `{txt[:80]}`: neither the qubit names nor the preserve list")
    # expressions passed are the simplified section expressions, symbol kept: a loop appending pairs or a comprehension
    exv = pat.look_through(ex, binds)
    pairs_ok = None
    if isinstance(exv, (ast.ListComp, ast.GeneratorExp)) and len(exv.generators) == 1:
        g = exv.generators[0]
        if isinstance(g.target, ast.Tuple) and len(g.target.elts) == 2 and isinstance(exv.elt, ast.Tuple) and len(exv.elt.elts) == 2:
            pairs_ok = norm(exv.elt.elts[0]) == norm(g.target.elts[0]) and norm(g.iter).endswith(".expressions") and not g.ifs and norm(g.target.elts[1]) in norm(exv.elt.elts[1])
    else:
        app = [a_ for a_ in q.method_calls(fi.node, "append") if norm(a_.func.value) == norm(ex)]
        if len(app) == 1 and isinstance(app[0].args[0], ast.Tuple) and len(app[0].args[0].elts) == 2:
            lp = [l for l in q.for_loops(fi.node, nested=True) if q.contains(l, app[0]) and isinstance(l.target, ast.Tuple)]
            pairs_ok = bool(lp) and norm(app[0].args[0].elts[0]) == norm(lp[-1].target.elts[0]) and norm(lp[-1].iter).endswith(".expressions")
    if pairs_ok is None:
        ctx.undecided(fi.short, f"the expressions handed to re-synthesis (`{norm(ex)[:60]}`) are not built by one loop / comprehension over the section's (symbol, expression) pairs")
    else:
        ctx.check(pairs_ok, "MP-resynth-args", fi, "each section expression keeps its qubit symbol", "", "the (symbol, expression) pairs handed to re-synthesis do not keep the section's symbols", c)
    # exprs_to_quantum
    e2q = ctx.repo.func("compiler.exprs_to_quantum")
    tq = [x for x in q.calls(e2q.node) if (dotted(x.func) or "") == "to_quantum"]
    if len(tq) != 1:
        raise AnchorError(e2q.short, "expected one to_quantum call")
    un = q.arg(tq[0], 5, "uncompute")
    rt = q.arg(tq[0], 2, "returns")
    ctx.check(un is not None and isinstance(un, ast.Constant) and un.value is False, "MP-resynth-args", e2q, "re-synthesis without uncomputation", "uncompute=False", "a section re-synthesised with uncompute=True would undo its own effect", tq[0])
    ctx.check(rt is not None and isinstance(rt, ast.Constant) and rt.value is None, "MP-resynth-args", e2q, "no return value (qubits are updated in place)", "returns=None", "", tq[0])
    # the argument list: Arg(s, bool, [s]) for every symbol, in the order given (loop + append or comprehension)
    av = q.arg(tq[0], 1, "args")
    avv = pat.look_through(av, pat.bindings(e2q.node)) if av is not None else None
    sym_p = e2q.params[1]
    verdict = None
    if isinstance(avv, (ast.ListComp, ast.GeneratorExp)) and len(avv.generators) == 1:
        g = avv.generators[0]
        s_ = norm(g.target)
        verdict = q.reversal_parity(g.iter)[1] == 0 and norm(q.reversal_parity(g.iter)[0]) == sym_p and not g.ifs and norm(avv.elt).replace(" ", "") == f"Arg({s_},bool,[{s_}])"
    else:
        lp = [l for l in q.for_loops(e2q.node) if norm(q.reversal_parity(l.iter)[0]) == sym_p]
        if len(lp) == 1:
            app = q.method_calls(lp[0], "append")
            s_ = norm(lp[0].target)
            verdict = q.reversal_parity(lp[0].iter)[1] == 0 and len(app) == 1 and norm(app[0].args[0]).replace(" ", "") == f"Arg({s_},bool,[{s_}])"
    if verdict is None:
        ctx.undecided(e2q.short, f"the argument list handed to to_quantum (`{norm(av)[:60] if av is not None else '?'}`) is not built by one loop / comprehension over `{sym_p}`")
    else:
        ctx.check(verdict, "MP-resynth-args", e2q, "one bool argument per symbol, in order", "", "the arguments (= input qubits 0..n-1) are not built one per symbol in the order given", e2q.node)


def check_language(ctx: Ctx):
    repo = ctx.repo
    # (1) decompiler constructors
    step = None
    for name, mi in repo.cls("decompiler.decompiler.Decompiler").methods.items():
        if name.endswith("exps_of_section"):
            step = mi
    if step is None:
        raise AnchorError("decompiler.decompiler.Decompiler.__exps_of_section", "not found")
    heads = sorted({head_name(c.func) for c in q.calls(step.node) if head_name(c.func) in ("And", "Or", "Not", "Xor", "ITE", "Implies", "Nand", "Nor", "Xnor", "Equivalent")})
    ctx.check(set(heads) <= {"And", "Not", "Xor"}, "DP-LANG", step, "decompiler emits Not/Xor/And only", str(heads), f"the decompiler now builds {heads}: the re-synthesis path runs no optimizer profile, so Or with more than two operands / ITE / Implies would reach the compiler un-normalised", step.node)
    # (2) custom_simplify_logic2 returns simplify_logic's result only under a head guard or for leaves
    fi = repo.func("decompiler.decopt.custom_simplify_logic2")
    p = fi.params[0]
    n = 0
    for r in q.returns(fi):
        v = r.value
        facts = [(norm(e), pol) for e, pol in guard_facts(fi, r)]
        if isinstance(v, ast.Call) and head_name(v.func) == "simplify_logic":
            n += 1
            # reached only when expr is not Xor/And/Or/Not
            ruled_out = set()
            for e_, pol_ in guard_facts(fi, r):
                if not pol_ and isinstance(e_, ast.Call):
                    ruled_out |= set(q.isinstance_heads(e_, p) or [])
            excl = {"And", "Or", "Not", "Xor"} <= ruled_out
            ctx.check(excl, "DP-LANG", fi, "simplify_logic applied only to leaves", "reached only when the node is not And/Or/Not/Xor", "simplify_logic (which may return Or with any number of operands) is applied to a connective and its result returned whole", r)
        elif isinstance(v, ast.Name) and v.id != p:
            n += 1
            # `se` = simplify_logic(expr): returned only if Xor/Not/Symbol
            ok = any(pol and "isinstance" in f and v.id in f and "Xor" in f for f, pol in facts) or all(h in ("Xor", "Not", "Symbol") for f, pol in facts if pol and v.id in f for h in q.isinstance_heads(ast.parse(f, mode="eval").body, v.id))
            hs = []
            for e, pol in guard_facts(fi, r):
                if pol:
                    hs += q.isinstance_heads(e, v.id)
            ok = bool(hs) and set(hs) <= {"Xor", "Not", "Symbol"}
            srcs = [n.value for n in ast.walk(fi.node) if isinstance(n, ast.Assign) and any(isinstance(t, ast.Name) and t.id == v.id for t in n.targets)]
            foreign = [x for x in srcs if not (isinstance(x, ast.Call) and head_name(x.func) == "simplify_logic" and x.args and norm(x.args[0]) == p)]
            if foreign:
                ctx.undecided(fi.short, f"`{v.id}` can also be `{norm(foreign[0])[:70]}`: a simplification that is not sympy's simplify_logic of the node, whose equivalence with the node no rule here establishes")
            ctx.check(ok, "DP-LANG", fi, "simplified Xor returned only if still Xor/Not/Symbol", str(hs), f"`{v.id}` (sympy's simplification of a Xor) is returned under heads {hs}: And/Or results with any number of operands would reach the 2-operand Or synthesis", r)
    if n < 2:
        raise AnchorError(fi.short, "simplify_logic return sites not found")
    # every way out of the simplifier is one of: sympy's simplify_logic (trusted, guarded above), the node rebuilt
    # from its recursively simplified arguments, the node itself.  Anything else is a hand-written rewrite whose
    # soundness this analysis has not seen
    for r in q.returns(fi):
        v = r.value
        binds = pat.bindings(fi.node)
        known = (
            (isinstance(v, ast.Call) and head_name(v.func) == "simplify_logic")
            or isinstance(v, ast.Name)
            or (isinstance(v, ast.Call) and isinstance(v.func, ast.Call) and norm(v.func.func) == "type" and len(v.args) == 1 and isinstance(v.args[0], ast.Starred) and q.is_mapped_over(_reaching(fi, r, v.args[0].value, binds), fi.name, f"{p}.args"))
        )
        if not known:
            ctx.undecided(fi.short, f"`return {norm(v)[:80]}`: a simplification step of its own (not sympy's simplify_logic, not the rebuilt node) whose equivalence with its input is not established by any rule here")


def _reaching(fi, stmt, e, binds):
    """what the name `e` denotes at stmt: its single binding, or the definition reaching it in its own block"""
    if not isinstance(e, ast.Name):
        return e
    if e.id in binds:
        return binds[e.id]
    for par_ in ast.walk(fi.node):
        for fld in ("body", "orelse"):
            b_ = getattr(par_, fld, None)
            if isinstance(b_, list) and stmt in b_:
                v = q.value_at(b_, stmt, e)
                if v is not None:
                    return v
    return e
