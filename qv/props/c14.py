"""C14 - Circuit composition operators compose."""
from __future__ import annotations

import ast
import math
from typing import Dict, List, Optional

from .. import fx, pat, q
from ..core import AnchorError, Ctx, FuncInfo, dotted, guard_facts, norm, walk_no_nested
from ..rewrite import single_bindings
from . import c10

ID = "C14"
TECHNIQUE = (
    "effect analysis (fresh results, untouched operands), provenance of every wire list that enters the gate lists "
    "in append_circuit, index-guard dominance in remove_identities, structural mirror check of qft/iqft with the "
    "angle expressions interpreted over a small integer domain"
)
EXPLANATION = (
    "Decides: (FX-FRESH) __add__, copy (both modes) and repeat return objects none of whose fields is an operand or an "
    "attribute object of one; (FX-PARAM/FX-SELF) append_circuit/__iadd__ only read `other`/`qubits`, and "
    "__add__/copy/repeat leave self untouched; (MP-remap-all) in append_circuit every wire of every gate that enters "
    "self.gates / self.gates_computed is mapped through qubits[...], other.gates feeds gates and other.gates_computed "
    "feeds gates_computed, and both size checks dominate; __iadd__ remaps by the identity over other.num_qubits; "
    "(MP-repeat) repeat(n) composes exactly n copies; (MP-index-guard) remove_identities never indexes an empty list "
    "and drops only a pair of equal applied gates (optionally separated by one barrier); (SB-MIRROR) iqft's emission "
    "template (statement order, loop directions, wires, negated angle) is the reversal of qft's; (SB-INVOLUTION) as in "
    "C12, for the peepholes of the circuit classes.  It does NOT decide "
    "unitary equalities, nor that a cancelled pair is self-inverse (an invariant of the callers)."
)
NOT_DECIDED = "unitary equalities; self-inverseness of cancelled pairs"
MIN_OBLIGATIONS = 25

QC = "qcircuit.qcircuit.QCircuit"


def run(ctx: Ctx):
    from .. import memo as _memo

    ctx.section(_memo.check_memo_keys, ctx, ('qcircuit.',))
    an = fx.effects(ctx)
    repo = ctx.repo
    for name in ("__add__", "copy", "repeat"):
        fi = repo.func(f"{QC}.{name}")
        fx.check_fresh_result(ctx, "FX-FRESH", an, fi)
        rep = fx.PurityReport(ctx, "FX-SELF", c10.designed_mutators(ctx))
        fx.check_params_pure(ctx, "FX-SELF", an, fi, None if False else fi.all_params, rep, c10.EXEMPT_ORIGINS)
        rep.flush()
    for name, params in (("append_circuit", ["other", "qubits"]), ("__iadd__", ["other"])):
        fi = repo.func(f"{QC}.{name}")
        rep = fx.PurityReport(ctx, "FX-PARAM", c10.designed_mutators(ctx))
        fx.check_params_pure(ctx, "FX-PARAM", an, fi, params, rep, c10.EXEMPT_ORIGINS)
        rep.flush()
    check_append_circuit(ctx, repo.func(f"{QC}.append_circuit"))
    check_iadd(ctx, repo.func(f"{QC}.__iadd__"))
    check_repeat(ctx, repo.func(f"{QC}.repeat"))
    check_remove_identities(ctx, repo.func("qcircuit.qcircuitenhanced.QCircuitEnhanced.remove_identities"))
    check_mirror(ctx, repo.func(f"{QC}.qft"), repo.func(f"{QC}.iqft"))
    from .. import gatealg as _ga

    ctx.section(_ga.check_involution, ctx, ('qcircuit.qcircuit',))


def check_append_circuit(ctx: Ctx, fi: FuncInfo):
    other, qubits = fi.params[1], fi.params[2]
    binds = single_bindings(fi)
    # builder lists: L = []; for g, w, p in other.X: wn = [qubits[ww] for ww in w]; L.append((g, wn, p))
    builders: Dict[str, str] = {}  # list name -> source attribute of other
    for loop in q.for_loops(fi.node):
        src = norm(loop.iter)
        if not src.startswith(other + "."):
            continue
        if not (isinstance(loop.target, ast.Tuple) and len(loop.target.elts) == 3):
            raise AnchorError(fi.short, f"loop over `{src}` does not unpack (gate, wires, param)")
        g, w, p = (norm(e) for e in loop.target.elts)
        lb = {n.targets[0].id: n.value for n in loop.body if isinstance(n, ast.Assign) and isinstance(n.targets[0], ast.Name)}
        for c in q.method_calls(loop, "append"):
            if not (isinstance(c.func.value, ast.Name) and c.args and isinstance(c.args[0], ast.Tuple) and len(c.args[0].elts) == 3):
                continue
            lst = c.func.value.id
            eg, ew, ep = c.args[0].elts
            wires = lb.get(ew.id) if isinstance(ew, ast.Name) else ew
            mapped = (
                isinstance(wires, ast.ListComp)
                and len(wires.generators) == 1
                and norm(wires.generators[0].iter) == w
                and not wires.generators[0].ifs
                and isinstance(wires.elt, ast.Subscript)
                and norm(wires.elt.value) == qubits
                and norm(wires.elt.slice) == norm(wires.generators[0].target)
            )
            ctx.check(
                mapped and norm(eg) == g and norm(ep) == p, "MP-remap-all", fi, f"{src} -> {lst}: every wire through {qubits}[...]",
                f"({g}, [{qubits}[x] for x in {w}], {p})",
                f"the gate record appended to `{lst}` is `{norm(c.args[0])}` with wires `{norm(wires) if wires is not None else '?'}`: each wire of the appended circuit must be translated through `{qubits}` and gate/parameter kept",
                c,
            )
            builders[lst] = src[len(other) + 1:]
    # the same as one comprehension: L = [(g, [qubits[ww] for ww in w], p) for g, w, p in other.X]
    for n in walk_no_nested(fi.node):
        if not (isinstance(n, ast.Assign) and len(n.targets) == 1 and isinstance(n.targets[0], ast.Name) and isinstance(n.value, ast.ListComp)):
            continue
        lc = n.value
        if len(lc.generators) != 1 or not norm(lc.generators[0].iter).startswith(other + "."):
            continue
        gen = lc.generators[0]
        src = norm(gen.iter)
        lst = n.targets[0].id
        if gen.ifs:
            ctx.check(False, "MP-remap-all", fi, f"{src} -> {lst}: every record is carried over", "", f"`{norm(lc)[:80]}` drops the records that fail `{norm(gen.ifs[0])}`", n)
            builders[lst] = src[len(other) + 1:]
            continue
        if not (isinstance(gen.target, ast.Tuple) and len(gen.target.elts) == 3 and isinstance(lc.elt, ast.Tuple) and len(lc.elt.elts) == 3):
            continue
        g, w, p = (norm(e) for e in gen.target.elts)
        eg, ew, ep = lc.elt.elts
        mapped = (
            isinstance(ew, ast.ListComp)
            and len(ew.generators) == 1
            and norm(ew.generators[0].iter) == w
            and not ew.generators[0].ifs
            and isinstance(ew.elt, ast.Subscript)
            and norm(ew.elt.value) == qubits
            and norm(ew.elt.slice) == norm(ew.generators[0].target)
        )
        ctx.check(
            mapped and norm(eg) == g and norm(ep) == p, "MP-remap-all", fi, f"{src} -> {lst}: every wire through {qubits}[...]",
            f"({g}, [{qubits}[x] for x in {w}], {p})",
            f"the gate record built for `{lst}` is `{norm(lc.elt)}`: each wire of the appended circuit must be translated through `{qubits}` and gate/parameter kept",
            n,
        )
        builders[lst] = src[len(other) + 1:]
    if len(builders) < 2:
        raise AnchorError(fi.short, f"only {len(builders)} remapping loops found (gates and gates_computed confirmed by hand)")
    # what enters self.gates / self.gates_computed
    n_in = 0
    for n in walk_no_nested(fi.node):
        tgt = None
        val = None
        if isinstance(n, ast.Call) and isinstance(n.func, ast.Attribute) and n.func.attr in ("extend", "append") and norm(n.func.value) in ("self.gates", "self.gates_computed"):
            tgt, val = norm(n.func.value)[5:], n.args[0] if n.args else None
        elif isinstance(n, ast.AugAssign) and norm(n.target) in ("self.gates", "self.gates_computed"):
            tgt, val = norm(n.target)[5:], n.value
        elif isinstance(n, ast.Assign) and norm(n.targets[0]) in ("self.gates", "self.gates_computed"):
            tgt, val = norm(n.targets[0])[5:], n.value
        if tgt is None:
            continue
        n_in += 1
        ok = isinstance(val, ast.Name) and builders.get(val.id) == tgt
        ctx.check(
            ok, "MP-remap-all", fi, f"self.{tgt} receives only remapped records of other.{tgt}", f"{norm(val)} built from other.{builders.get(norm(val), '?')}",
            f"`{norm(n)[:80]}` puts `{norm(val)}` into self.{tgt}: it is not the list of remapped records built from other.{tgt} (un-remapped wires act on the wrong qubits and share wire lists with the operand)",
            n,
        )
    if n_in < 2:
        raise AnchorError(fi.short, "gate lists of self are not extended")
    # size checks dominate
    building = [n for n in fi.body if isinstance(n, ast.For) or (isinstance(n, ast.Assign) and len(n.targets) == 1 and isinstance(n.targets[0], ast.Name) and n.targets[0].id in builders)]
    if not building:
        raise AnchorError(fi.short, "the statements that build the remapped lists are not top-level statements of append_circuit")
    first_loop = building[0]
    facts = [(norm(e), pol) for e, pol in guard_facts(fi, first_loop)]
    ctx.check(any((not pol) and f == f"{other}.num_qubits > self.num_qubits" for f, pol in facts), "MP-remap-all", fi, "appended circuit fits", "raises when other is wider than self", f"no dominating size check (guards: {facts})", first_loop)
    ctx.check(any((not pol) and f == f"len({qubits}) != {other}.num_qubits" for f, pol in facts), "MP-remap-all", fi, "one target qubit per source qubit", "raises on length mismatch", f"no dominating length check (guards: {facts})", first_loop)
    rets = q.returns(fi)
    ctx.check(all(norm(r.value) == "self" for r in rets if r.value is not None), "MP-remap-all", fi, "returns self", "", "append_circuit returns something other than self", fi.node)


def check_iadd(ctx: Ctx, fi: FuncInfo):
    other = fi.params[1]
    cs = [c for c in q.calls(fi.node) if dotted(c.func) == "self.append_circuit"]
    if len(cs) != 1:
        raise AnchorError(fi.short, "expected one self.append_circuit call")
    a1 = q.arg(cs[0], 1, "qubits")
    ok = norm(cs[0].args[0]) == other and a1 is not None and norm(a1) in (f"list(range({other}.num_qubits))", f"range({other}.num_qubits)")
    ctx.check(ok, "MP-remap-all", fi, "`+=` maps qubit i to qubit i", f"append_circuit({other}, list(range({other}.num_qubits)))", f"`{norm(cs[0])}` is not the identity placement of `{other}`", cs[0])
    ap = [c for c in q.calls(fi.node) if dotted(c.func) == "self.append"]
    if ap:
        st = q.enclosing_stmt(fi, ap[0])
        got = [norm(q.value_at(fi.body, st, a) or a) for a in ap[0].args]
        want = [f"{other}[0]", f"{other}[1]", f"{other}[2]"]
        if got == want:
            ctx.ok("MP-remap-all", fi, "applied-gate tuple appended as (gate, wires, param)", "", ap[0])
        elif sorted(got) == sorted(want):
            ctx.check(False, "MP-remap-all", fi, "applied-gate tuple appended as (gate, wires, param)", "", f"`{norm(ap[0])}` permutes the fields of the applied gate", ap[0])
        else:
            ctx.undecided(fi.short, f"`{norm(ap[0])}` does not pass the three fields of `{other}` by index")
    rets = q.returns(fi)
    ctx.check(len(rets) >= 1 and all(norm(r.value) == "self" for r in rets), "MP-remap-all", fi, "returns self", "", "__iadd__ must return self (the augmented assignment re-binds the name to its result)", fi.node)


def check_repeat(ctx: Ctx, fi: FuncInfo):
    n = fi.params[1]
    loops = q.for_loops(fi.node)
    if len(loops) != 1:
        raise AnchorError(fi.short, "expected one loop")
    binds = single_bindings(fi)
    it_node, elt = loops[0].iter, None
    if isinstance(it_node, ast.Name) and it_node.id in binds:
        it_node = binds[it_node.id]
    if isinstance(it_node, (ast.GeneratorExp, ast.ListComp)) and len(it_node.generators) == 1 and not it_node.generators[0].ifs:
        # `for part in (E for _ in range(..))`: the loop runs once per element of the inner iterator and sees E
        elt, it_node = it_node.elt, it_node.generators[0].iter
    it = norm(it_node).replace(" ", "")
    rets = q.returns(fi)
    res = norm(rets[0].value) if rets else "?"
    inits = [a.value for a in walk_no_nested(fi.node) if isinstance(a, ast.Assign) and any(isinstance(t, ast.Name) and t.id == res for t in a.targets)]
    init = inits[0] if len(inits) == 1 else None
    seen = set()
    while isinstance(init, ast.Name) and init.id in binds and init.id not in seen:  # `base = n_qc; n_qc = self.copy()`
        seen.add(init.id)
        init = binds[init.id]
    init_copy = init is not None and "copy" in norm(init) and "self" in norm(init)
    adds = [s for s in loops[0].body if isinstance(s, ast.AugAssign) and norm(s.target) == res and isinstance(s.op, ast.Add)]
    if not (isinstance(it_node, ast.Call) and dotted(it_node.func) == "range") or len(adds) != 1 or init is None:
        ctx.undecided(fi.short, f"repeat is not `start from a copy, then add a copy per step of a range`: loop over `{it}`, {len(adds)} additions to `{res}`")
        return
    ok = init_copy and it in (f"range({n}-1)", f"range(1,{n})", f"range({n}-1,0,-1)", f"range(0,{n}-1)")
    ctx.check(ok, "MP-repeat", fi, "n copies in total", f"one initial copy + {it}", f"initial value `{norm(init)}` plus loop `{it}` does not add up to {n} copies of self", loops[0])
    added = adds[0].value
    if elt is not None and isinstance(added, ast.Name) and norm(added) == norm(loops[0].target):
        added = elt
    ctx.check("copy" in norm(added), "MP-repeat", fi, "each repetition appends a copy", norm(added), "the same object is appended repeatedly", adds[0])


def check_remove_identities(ctx: Ctx, fi: FuncInfo):
    n_idx = 0
    for n in walk_no_nested(fi.node):
        if isinstance(n, ast.Subscript) and q.is_last_index(n) and isinstance(n.value, ast.Name):
            lst = n.value.id
            n_idx += 1
            facts = [(norm(e), pol) for e, pol in guard_facts(fi, n)]
            ok = any(pol and f in (lst, f"len({lst}) > 0", f"len({lst}) >= 1", f"len({lst}) != 0", f"{lst} != []") for f, pol in facts)
            ctx.check(ok, "MP-index-guard", fi, f"{lst}[-1] read only when {lst} is non-empty", "", f"`{norm(n)}` is read although `{lst}` may still be empty (a circuit that starts with a cancelling pair): IndexError", n)
    if n_idx == 0:
        ctx.ok("MP-index-guard", fi, "no look-behind", "", fi.node, nontrivial=False)
    # skipping (i += 2 / i += 3) only under equality of applied gates
    loops = [l for l in walk_no_nested(fi.node) if isinstance(l, (ast.While, ast.For))]

    def expanded(e, at):
        """`e` with the per-iteration temporaries (`current = self.gates[i]`) replaced by what they stand for"""
        st = q.enclosing_stmt(fi, at)
        for l in loops:
            if q.contains(l, st):
                v = q.value_at(l.body, st, e)
                return norm(v) if v is not None else None
        return norm(e)

    for n in walk_no_nested(fi.node):
        if isinstance(n, ast.AugAssign) and isinstance(n.op, ast.Add) and isinstance(n.value, ast.Constant) and n.value.value in (2, 3) and isinstance(n.target, ast.Name):
            i = n.target.id
            k = n.value.value
            facts = [(expanded(e, n), pol) for e, pol in guard_facts(fi, n)]
            if any(f is None for f, _ in facts):
                ctx.undecided(fi.short, f"a condition that guards `{norm(n)}` reads a name that is re-bound before the skip")
                continue
            want = f"self.gates[{i}] == self.gates[{i} + {k - 1}]"
            ok = any(pol and f in (want, f"self.gates[{i} + {k - 1}] == self.gates[{i}]") for f, pol in facts)
            if k == 3:
                ok = ok and any(pol and "Barrier" in f and f"self.gates[{i} + 1]" in f for f, pol in facts)
            bound = any(pol and f.replace(" ", "") in (f"{i}<len_g-{k - 1}", f"{i}<(len_g-{k - 1})", f"{i}+{k - 1}<len_g") for f, pol in facts)
            ctx.check(ok and bound, "MP-index-guard", fi, f"drop {k} entries only for an equal pair" + (" around a barrier" if k == 3 else ""), want, f"`{norm(n)}` skips gates without `{want}` (and the index bound) holding: gates that do not cancel are removed", n)
    # kept gates go to result unchanged
    app = [c for c in q.method_calls(fi.node, "append") if norm(c.func.value) == "result"]
    if len(app) == 1 and app[0].args:
        kept = expanded(app[0].args[0], app[0])
        if kept is None:
            ctx.undecided(fi.short, f"what `{norm(app[0])}` keeps is re-bound on the way")
        else:
            ctx.check(kept.startswith("self.gates["), "MP-index-guard", fi, "all other gates are kept unchanged", "", f"kept gates are altered: `{kept}`", app[0])
    else:
        ctx.undecided(fi.short, f"{len(app)} places append to result")


# ------------------------------------------------------------------------------------- qft / iqft


def _eval_num(e, env: Dict[str, float]) -> float:
    if isinstance(e, ast.Constant) and isinstance(e.value, (int, float)):
        return e.value
    if isinstance(e, ast.Name) and e.id in env:
        return env[e.id]
    if isinstance(e, ast.Attribute) and norm(e) == "math.pi":
        return math.pi
    if isinstance(e, ast.UnaryOp) and isinstance(e.op, ast.USub):
        return -_eval_num(e.operand, env)
    if isinstance(e, ast.UnaryOp) and isinstance(e.op, ast.UAdd):
        return _eval_num(e.operand, env)
    if isinstance(e, ast.BinOp):
        l, r = _eval_num(e.left, env), _eval_num(e.right, env)
        if isinstance(e.op, ast.Add):
            return l + r
        if isinstance(e.op, ast.Sub):
            return l - r
        if isinstance(e.op, ast.Mult):
            return l * r
        if isinstance(e.op, ast.Div):
            return l / r
        if isinstance(e.op, ast.Pow):
            return l ** r
        if isinstance(e.op, ast.FloorDiv):
            return l // r
    raise AnchorError("qcircuit.qcircuit.QCircuit.qft", f"angle expression `{norm(e)}` uses an operator outside the tables")


def _template(fi: FuncInfo):
    """(kinds of top-level steps, main loop, swap loop)"""
    steps = []
    main = swap = None
    for s in fi.body:
        if isinstance(s, ast.For):
            if any(dotted(c.func) == "self.swap" for c in q.calls(s)):
                steps.append("swap")
                swap = s
            elif any(dotted(c.func) in ("self.h", "self.cp") for c in q.calls(s)):
                steps.append("main")
                main = s
    if main is None or swap is None:
        raise AnchorError(fi.short, "main loop / swap loop not found")
    return steps, main, swap


def _angle(fi: FuncInfo, main: ast.For, cp: ast.Call):
    a = cp.args[0]
    if isinstance(a, ast.Name):
        for n in ast.walk(main):
            if isinstance(n, ast.Assign) and isinstance(n.targets[0], ast.Name) and n.targets[0].id == a.id:
                return n.value
    return a


def _index_form(fi: FuncInfo, loop: ast.For, fresh: str):
    """(index variable, element variable or None, list name or None, range text in terms of len(<list>), reversal
    parity) of a loop written over positions (`range(..)`), over `enumerate(L)` or over a slice `L[a:]` of a list"""
    binds = {n.targets[0].id: n.value for n in fi.body if isinstance(n, ast.Assign) and isinstance(n.targets[0], ast.Name)}
    core, par = q.reversal_parity(loop.iter)
    lens = {k: norm(v.args[0]) for k, v in binds.items() if isinstance(v, ast.Call) and norm(v.func) == "len" and len(v.args) == 1}

    def canon(t: str) -> str:
        import re

        for k, L in lens.items():
            t = re.sub(rf"(?<![\w.]){k}(?!\w)", f"len({L})", t)
        return t.replace(" ", "")

    def lin(e):
        """canonical text of an integer-linear expression (names standing for len(list) expanded)"""
        env_ = {k: ast.parse(f"len({L})", mode="eval").body for k, L in lens.items()}
        f = q.linear_form(e, env_)
        if f is None:
            return canon(norm(e))
        parts = [f"{v}*{k}" if v != 1 else k for k, v in sorted(f.items()) if k]
        c0 = f.get("", 0)
        if c0 or not parts:
            parts.append(str(c0))
        return "+".join(parts)

    if isinstance(core, ast.Call) and norm(core.func) == "range" and isinstance(loop.target, ast.Name):
        args_ = core.args
        if len(args_) == 3 and norm(args_[2]).replace(" ", "") == "-1":
            # range(hi, lo, -1) visits lo+1 .. hi downwards: the reversal of range(lo + 1, hi + 1)
            lo_ = ast.BinOp(left=args_[1], op=ast.Add(), right=ast.Constant(value=1))
            hi_ = ast.BinOp(left=args_[0], op=ast.Add(), right=ast.Constant(value=1))
            a = [lin(lo_), lin(hi_)]
            par += 1
        elif len(args_) == 3:
            return None
        else:
            a = [lin(x) for x in args_]
        if len(a) == 2 and a[0] == "0":
            a = a[1:]
        rng = f"range({a[0]})" if len(a) == 1 else f"range({','.join(a)})"
        return loop.target.id, None, None, rng, par % 2
    if isinstance(core, ast.Call) and norm(core.func) == "enumerate" and len(core.args) == 1 and isinstance(core.args[0], ast.Name) and isinstance(loop.target, ast.Tuple) and len(loop.target.elts) == 2:
        L = core.args[0].id
        return norm(loop.target.elts[0]), norm(loop.target.elts[1]), L, f"range(len({L}))", par % 2
    if isinstance(core, ast.Subscript) and isinstance(core.slice, ast.Slice) and isinstance(core.value, ast.Name) and core.slice.step is None and isinstance(loop.target, ast.Name):
        L = core.value.id
        lo = lin(core.slice.lower) if core.slice.lower is not None else "0"
        up = lin(core.slice.upper) if core.slice.upper is not None else f"len({L})"
        return fresh, loop.target.id, L, (f"range({lo},{up})" if lo != "0" else f"range({up})"), par % 2
    return None


def _subst_names(text: str, mp: Dict[str, str]) -> str:
    import re

    for k, v in mp.items():
        text = re.sub(rf"(?<![\w.]){re.escape(k)}(?!\w)", v, text)
    return text


def check_mirror(ctx: Ctx, qft: FuncInfo, iqft: FuncInfo):
    s1, m1, w1 = _template(qft)
    s2, m2, w2 = _template(iqft)
    ctx.check(s2 == list(reversed(s1)), "SB-MIRROR", iqft, "steps in reverse order", f"qft {s1} / iqft {s2}", f"qft does {s1}, iqft does {s2}: the inverse must undo the last step first", iqft.node)
    f1, f2 = _index_form(qft, m1, "I"), _index_form(iqft, m2, "I")
    if f1 is None or f2 is None:
        ctx.undecided(iqft.short, f"outer loops `{norm(m1.iter)}` / `{norm(m2.iter)}` are not loops over positions, enumerate(list) or a list slice")
        return
    (i1, e1, L1, r1, p1), (i2, e2, L2, r2, p2) = f1, f2
    ctx.check(r1 == r2 and p1 != p2, "SB-MIRROR", iqft, "outer loop runs backwards", f"{norm(m1.iter)} / {norm(m2.iter)}", f"outer loops `{norm(m1.iter)}` ({r1}, {p1} reversals) and `{norm(m2.iter)}` ({r2}, {p2} reversals) are not each other's reversal", m2)

    def body_kinds(m):
        out = []
        inner = None
        for s in m.body:
            if isinstance(s, ast.For):
                out.append("cp-loop")
                inner = s
            elif isinstance(s, ast.Expr) and isinstance(s.value, ast.Call) and dotted(s.value.func) == "self.h":
                out.append("h")
        return out, inner

    k1, in1 = body_kinds(m1)
    k2, in2 = body_kinds(m2)
    if in1 is None or in2 is None:
        raise AnchorError(iqft.short, "controlled-phase loop not found")
    ctx.check(k2 == list(reversed(k1)), "SB-MIRROR", iqft, "per-qubit steps in reverse order", f"qft {k1} / iqft {k2}", f"within one outer iteration qft does {k1} and iqft does {k2}", m2)
    g1, g2 = _index_form(qft, in1, "J"), _index_form(iqft, in2, "J")
    if g1 is None or g2 is None:
        ctx.undecided(iqft.short, f"inner loops `{norm(in1.iter)}` / `{norm(in2.iter)}` are not loops over positions or a list slice")
        return
    (j1, ej1, LJ1, rj1, pj1), (j2, ej2, LJ2, rj2, pj2) = g1, g2
    ctx.check(_subst_names(rj1, {i1: "I"}) == _subst_names(rj2, {i2: "I"}) and pj1 != pj2, "SB-MIRROR", iqft, "inner loop runs backwards over the same range", f"{norm(in1.iter)} / {norm(in2.iter)}", f"inner loops `{norm(in1.iter)}` and `{norm(in2.iter)}` are not each other's reversal", in2)
    cp1 = [c for c in q.calls(in1) if dotted(c.func) == "self.cp"]
    cp2 = [c for c in q.calls(in2) if dotted(c.func) == "self.cp"]
    if len(cp1) != 1 or len(cp2) != 1:
        raise AnchorError(iqft.short, "expected one cp per inner iteration")
    # element variables stand for <list>[<position>]
    mp1 = {i1: "I", j1: "J"}
    mp2 = {i2: "I", j2: "J"}
    el1 = {k: v for k, v in ((e1, f"{L1}[I]"), (ej1, f"{LJ1}[J]")) if k}
    el2 = {k: v for k, v in ((e2, f"{L2}[I]"), (ej2, f"{LJ2}[J]")) if k}
    al1, al2 = pat.path_aliases(qft.node), pat.path_aliases(iqft.node)
    wires1 = [_subst_names(_subst_names(pat.tx(a, al1), el1), mp1) for a in cp1[0].args[1:]]
    wires2 = [_subst_names(_subst_names(pat.tx(a, al2), el2), mp2) for a in cp2[0].args[1:]]
    ctx.check(wires1 == wires2, "SB-MIRROR", iqft, "same control/target wires", str(wires1), f"qft applies cp on {wires1}, iqft on {wires2}", cp2[0])
    a1, a2 = _angle(qft, m1, cp1[0]), _angle(iqft, m2, cp2[0])
    for fn_, a_, els, cp_ in ((qft, a1, el1, cp1[0]), (iqft, a2, el2, cp2[0])):
        used = sorted(q.names_in(a_) & set(els))
        ctx.check(not used, "SB-MIRROR", fn_, "the rotation angle depends on positions in the list, not on qubit labels", norm(a_), f"the angle `{norm(a_)}` is computed from {used}, which are elements of the qubit list (wire labels), not positions: for a list that is not 0, 1, 2, ... in order the rotation is wrong (and qft / iqft no longer cancel)", cp_)
    if (q.names_in(a1) & set(el1)) or (q.names_in(a2) & set(el2)):
        return
    ok = True
    bad = None
    for i in range(0, 4):
        for j in range(i + 1, 5):
            v1 = _eval_num(a1, {i1: i, j1: j})
            v2 = _eval_num(a2, {i2: i, j2: j})
            if abs(v1 + v2) > 1e-12:
                ok, bad = False, (i, j, v1, v2)
            if abs(v1 - 2 * math.pi / 2 ** (j - i + 1)) > 1e-12:
                ok, bad = False, (i, j, v1, "expected 2*pi/2**(j-i+1)")
    ctx.check(ok, "SB-MIRROR", iqft, "angles are negated", f"{norm(a1)} / {norm(a2)}", f"angle expressions `{norm(a1)}` / `{norm(a2)}` are not the textbook rotation and its negation (at {bad})", cp2[0])
    # h on the same wire, swap loops identical
    h1 = [c for c in q.calls(m1) if dotted(c.func) == "self.h"]
    h2 = [c for c in q.calls(m2) if dotted(c.func) == "self.h"]
    ctx.check(len(h1) == 1 and len(h2) == 1 and norm(h1[0].args[0]).replace(i1, "I") == norm(h2[0].args[0]).replace(i2, "I"), "SB-MIRROR", iqft, "Hadamard on the same wire", "", "h is applied to different wires", m2)
    ctx.check(norm(w1).replace(norm(w1.target), "K") == norm(w2).replace(norm(w2.target), "K"), "SB-MIRROR", iqft, "same swap network", "", "the qubit-reversal swaps differ between qft and iqft", w2)
    # the index list is resolved the same way
    pre1 = [norm(s) for s in qft.body if isinstance(s, ast.Assign)]
    pre2 = [norm(s) for s in iqft.body if isinstance(s, ast.Assign)]
    ctx.check(pre1 == pre2, "SB-MIRROR", iqft, "same wire resolution", "", f"prologues differ: {pre1} / {pre2}", iqft.node)
