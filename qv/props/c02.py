"""C02 - The circuit computes the function's boolean expressions."""
from __future__ import annotations

import ast
from typing import Dict, List, Optional, Set

from .. import memo, q
from ..boolterm import head_name
from ..core import enclosing_stmt, canon_fact, primary_facts, order_key, AnchorError, Ctx, FuncInfo, dotted, guard_facts, norm, returns_or_raises_everywhere, walk_no_nested
from ..rewrite import check_arity, check_total
from . import c04

ID = "C02"
TECHNIQUE = (
    "producer/consumer head-language agreement, fail-closed dispatch, destination-ownership typestate of the "
    "recursive synthesis (return-dest and cache-write discipline), must-pass-through rules on the compile loop, "
    "wire-role convention of emitters and consumers"
)
EXPLANATION = (
    "Decides: (DP-LANG) every boolean head the front end can emit is eliminated by each shipped optimizer profile "
    "or dispatched by InternalCompiler.compile_expr, and the Or synthesis (correct for two operands only: cx each + "
    "one mcx) is fed only by a total Or-normaliser; (DP-CLOSED) compile_expr ends every path in return/raise and "
    "dispatches each head to the routine for that head; (MP-map-qubit / MP-cache-invalidate) in compile() every "
    "(sym, exp) reaches map_qubit(sym, result) unconditionally and the qubits reported by uncompute() are dropped "
    "from the expression cache; ExpQMap.__setitem__ drops the qubit's previous entry; (TS-DEST) a synthesis routine "
    "handed a destination returns that destination, and registers a qubit in the expression cache only when it "
    "allocated it itself; (DP-WIRES) mcx/cx/ccx/mctrl put the target last and CNotSim/uncompute read it there. "
    "(MP-negation) where compile_xor strips the negation of an operand it applies one X per such operand to the "
    "accumulator (a set-only flag consumed after the loop loses the parity).  "
    "It does NOT decide equality of circuit and expressions on all inputs."
)
NOT_DECIDED = "equality of circuit and expressions on all inputs for expressions that respect the discipline; remove_identities' effect on a given gate list"
MIN_OBLIGATIONS = 40

IC = "compiler.internalcompiler.InternalCompiler"

# heads that sympy's own canonicalisation guarantees never to occur as an argument of Xor / as a
# destination-carrying sub-expression; each exemption names one return and gives one reason
DEST_EXEMPT = {
    ("compile_expr", "const-false"): "constants never occur below Xor (sympy folds Xor(true, x) to Not(x)); dest is only passed by compile_xor",
    ("compile_expr", "const-true"): "constants never occur below Xor (sympy folds Xor(true, x) to Not(x)); dest is only passed by compile_xor",
    ("compile_symbol", "*"): "compile_xor handles Symbol arguments itself (cx into d) and never forwards dest for a Symbol",
    ("compile_not", "self-not"): "the sym-equals-operand path is taken only for a top-level definition (sym is passed by compile() only, with dest None)",
    ("compile_not", "ancilla-in-place"): "reached with dest only for Not(Symbol) whose qubit is an un-promoted temporary (`__x`), which the front end uses only as a whole right-hand side",
    ("compile_quantum_gate", "*"): "hybrid quantum gates are an explicit opt-in outside the classical synthesis",
}


def run(ctx: Ctx):
    repo = ctx.repo
    memo.check_memo_keys(ctx, ('compiler.', 'boolopt.', 'ast2logic.', 'qlassfun.QlassF.compile', 'qlassfun.QlassF.from_function', 'qlassfun.qlassf', 'qcircuit.qcircuitenhanced', 'qcircuit.qcircuit.'))
    ic = repo.cls(IC)
    ce = ic.methods.get("compile_expr")
    if ce is None:
        raise AnchorError(IC + ".compile_expr", "not found")

    heads = check_dispatch(ctx, ic, ce)
    check_language(ctx, heads)
    check_compile_loop(ctx, ic)
    check_expqmap(ctx)
    check_dest_discipline(ctx, ic)
    check_or_idiom(ctx, ic)
    ctx.section(check_xor_negation, ctx, ic)
    check_wires(ctx)
    from . import c03

    # (without TS-REPLAY: stale controls in the FINAL replay leave scratch dirty - C03 - but not the outputs wrong)
    ctx.section(c03.check_uncompute, ctx, False)
    for name in ("compile_not", "compile_xor", "compile_and", "compile_or"):
        m = ic.methods.get(name)
        if m is None:
            raise AnchorError(f"{IC}.{name}", "not found")
        check_arity(ctx, "RW-ARITY", m, {"expr": {"compile_not": "Not", "compile_xor": "Xor", "compile_and": "And", "compile_or": "Or"}[name]})
    # Or normaliser totality + profile order (shared with C04)
    t = repo.cls("boolopt.exp_transformers.transform_or2and").methods.get("visit_Or")
    if t is None:
        raise AnchorError("boolopt.exp_transformers.transform_or2and.visit_Or", "not found")
    check_total(ctx, "RW-TOTAL", t, c04.visitor_param(t), None, {"self.visit"})
    c04.check_profiles(ctx, profiles=("defaultOptimizer", "fastOptimizer"))


# ----------------------------------------------------------------------------------------------


def check_dispatch(ctx: Ctx, ic, ce: FuncInfo) -> Set[str]:
    ok, off = returns_or_raises_everywhere(ce.body)
    ctx.check(ok, "DP-CLOSED", ce, "every path returns a qubit or raises", "", f"a path falls through or returns nothing at {ce.loc(off) if off is not None else 'end of function'}", off)
    ifs = [s for s in ce.body if isinstance(s, ast.If)]
    if not ifs:
        raise AnchorError(ce.short, "expected a dispatch over the expression heads")
    chain, els = q.dispatch_chain(ce.body)
    if els is None:
        raise AnchorError(ce.short, "the dispatch is neither one if/elif chain nor a sequence of returning ifs")
    ctx.check(bool(els) and isinstance(els[-1], ast.Raise), "DP-CLOSED", ce, "unknown heads raise", "final else raises", "final else does not raise: an unhandled head is silently mis-compiled", ifs[0])
    heads: Set[str] = set()
    for test, body in chain:
        hs = q.isinstance_heads(test, "expr")
        if not hs:
            # `expr in self.expqmap`
            continue
        for h in hs:
            heads.add(h)
        if len(hs) == 1 and hs[0] in ("Xor", "Not", "And", "Or"):
            want = f"self.compile_{hs[0].lower()}"
            got = [dotted(c.func) for s in body for c in q.calls(s)]
            ctx.check(want in got, "DP-CLOSED", ce, f"branch {hs[0]} -> {want}", "head and handler agree", f"branch for {hs[0]} calls {got}", test)
            # the handler receives expr and dest
            for s in body:
                for c in q.calls(s):
                    if dotted(c.func) == want:
                        a = [norm(x) for x in c.args] + [f"{k.arg}={norm(k.value)}" for k in c.keywords]
                        ctx.check("expr" in a and ("dest" in a or "dest=dest" in a), "TS-DEST", ce, f"{hs[0]}: dest forwarded", f"args={a}", f"{want} is called with {a}: the destination is not forwarded", c)
    return heads


def produced_heads(repo) -> Dict[str, List[str]]:
    prod: Dict[str, List[str]] = {}
    mods = [m for n, m in repo.modules.items() if n.startswith("qlasskit.types") or n in ("qlasskit.ast2logic.t_expression", "qlasskit.ast2logic.t_statement")]
    if len(mods) < 8:
        raise AnchorError("qlasskit.types", "front-end modules not found")
    for m in mods:
        for n in ast.walk(m.tree):
            if isinstance(n, ast.Call):
                h = head_name(n.func)
                if h in ("And", "Or", "Not", "Xor", "ITE", "Implies", "Nand", "Nor", "Xnor", "Equivalent"):
                    prod.setdefault(h, []).append(f"{m.relpath}:{n.lineno}")
            elif isinstance(n, ast.BinOp) and isinstance(n.op, (ast.BitAnd, ast.BitOr, ast.BitXor, ast.RShift, ast.LShift)) and m.name.startswith("qlasskit.types"):
                h = {ast.BitAnd: "And", ast.BitOr: "Or", ast.BitXor: "Xor", ast.RShift: "Implies", ast.LShift: "Implies"}[type(n.op)]
                # only in helper functions building boolean terms (_full_adder)
                prod.setdefault(h, []).append(f"{m.relpath}:{n.lineno}")
            elif isinstance(n, ast.UnaryOp) and isinstance(n.op, ast.Invert) and m.name.startswith("qlasskit.types"):
                prod.setdefault("Not", []).append(f"{m.relpath}:{n.lineno}")
    return prod


def check_language(ctx: Ctx, consumer: Set[str]):
    repo = ctx.repo
    prod = produced_heads(repo)
    for need in ("And", "Or", "Not", "Xor", "ITE"):
        if need not in prod:
            raise AnchorError("front-end", f"no constructor of {need} found in the front end: producer scan is broken")
    elim_by = {"ITE": "remove_ITE", "Implies": "remove_Implies"}
    for pname in ("defaultOptimizer", "fastOptimizer"):
        steps = c04.profile_steps(repo, pname)
        for h, sites in sorted(prod.items()):
            if h in consumer:
                ctx.ok("DP-LANG", None, f"{pname}: {h} dispatched", f"{len(sites)} producer sites, e.g. {sites[0]}", construct=f"{IC}.compile_expr")
            elif h in elim_by and elim_by[h] in steps:
                ctx.ok("DP-LANG", None, f"{pname}: {h} eliminated by {elim_by[h]}", f"{len(sites)} producer sites, e.g. {sites[0]}", construct=f"{IC}.compile_expr")
            else:
                ctx.fail("DP-LANG", None, f"{pname}: {h} neither eliminated nor dispatched", f"head {h} is produced at {sites[:3]} but profile {pname} has no pass removing it and compile_expr has no branch for it", construct=f"{IC}.compile_expr")
    for need in ("Symbol", "BooleanTrue", "BooleanFalse", "Xor", "Not", "And", "Or"):
        ctx.check(need in consumer, "DP-LANG", None, f"consumer handles {need}", "", f"compile_expr has no branch for {need}", construct=f"{IC}.compile_expr")


def check_compile_loop(ctx: Ctx, ic):
    fi = ic.methods.get("compile")
    if fi is None:
        raise AnchorError(IC + ".compile", "not found")
    loops = [l for l in q.for_loops(fi.node) if isinstance(l.iter, ast.Name) and l.iter.id == "exprs"]
    if len(loops) != 1:
        raise AnchorError(fi.short, "expected exactly one loop over exprs")
    loop = loops[0]
    if not (isinstance(loop.target, ast.Tuple) and len(loop.target.elts) == 2):
        raise AnchorError(fi.short, "loop target is not (sym, exp)")
    sym, exp = (norm(e) for e in loop.target.elts)
    # compile_expr result
    res_var = None
    for s in loop.body:
        if isinstance(s, ast.Assign) and isinstance(s.value, ast.Call) and dotted(s.value.func) == "self.compile_expr" and isinstance(s.targets[0], ast.Name):
            res_var = s.targets[0].id
            a1 = q.arg(s.value, 1)
            srcs = q.names_in(a1) if a1 is not None else set()
            binds = {}
            for s2 in loop.body:
                if isinstance(s2, ast.Assign) and isinstance(s2.targets[0], ast.Name):
                    binds[s2.targets[0].id] = s2.value
            derived = exp in srcs or any(exp in q.names_in(binds[n]) for n in srcs if n in binds)
            ctx.check(derived, "MP-map-qubit", fi, "the loop's expression is what gets compiled", f"compile_expr(qc, {norm(a1) if a1 is not None else '?'})", "compile_expr is not applied to the loop's expression", s)
            ce_ = ic.methods.get("compile_expr") if hasattr(ic, "methods") else None
            ps_ = q.call_params(ce_) if ce_ is not None else []
            ba_ = q.bound_args(ctx.repo, s.value, ps_) if "sym" in ps_ else None
            if ba_ is None:
                ctx.undecided(fi.short, f"`{norm(s.value)[:60]}`: cannot match the arguments with compile_expr's parameters")
            else:
                kw = ba_[ps_.index("sym")]
                ctx.check(kw is not None and norm(kw) == sym, "MP-map-qubit", fi, "sym forwarded", "", f"compile_expr receives sym={norm(kw) if kw is not None else 'nothing'}, not the defined symbol `{sym}`: `a = ~a` and return bits are not recognised", s)
    if res_var is None:
        raise AnchorError(fi.short, "no top-level `x = self.compile_expr(...)` in the loop body")
    maps = [c for s in loop.body if isinstance(s, ast.Expr) for c in [s.value] if isinstance(c, ast.Call) and dotted(c.func) == "qc.map_qubit"]
    good = len(maps) == 1 and norm(maps[0].args[0]) == sym and norm(maps[0].args[1]) == res_var
    ctx.check(good, "MP-map-qubit", fi, "map_qubit(sym, result) on every iteration", "unconditional top-level statement of the loop", "map_qubit(sym, <compile_expr result>) is not an unconditional statement of the loop body: some return/intermediate bit is left unmapped", loop)
    # promote flag: temporaries (__x) are not promoted, everything else is
    if maps:
        pr = q.arg(maps[0], 2, "promote")
        ctx.check(pr is not None, "MP-map-qubit", fi, "promotion flag given", norm(pr) if pr is not None else "", "no promote flag", maps[0])
        if pr is not None:
            # every symbol except a rewriter temporary (`__x`) becomes a named qubit: an unpromoted qubit is scratch,
            # and the per-expression uncompute erases and recycles scratch that served as an operand
            v = q.value_at(loop.body, q.enclosing_stmt(fi, maps[0]), pr) or pr
            t = norm(v).replace(" ", "").replace('"', "'")
            exact = t in (f"not{sym}.name.startswith('__')", f"{sym}.name[:2]!='__'", f"{sym}.name[0:2]!='__'")
            if exact:
                ctx.ok("MP-map-qubit", fi, "every symbol except a `__` temporary is promoted", t, maps[0])
            elif f"{sym}.name.startswith('__')" in t and any(isinstance(n, ast.BoolOp) for n in ast.walk(v)):
                ctx.fail("MP-map-qubit", fi, "every symbol except a `__` temporary is promoted", f"promote = `{norm(v)}`: symbols other than rewriter temporaries are left unpromoted too; their qubit stays in the ancilla set, so the first And/Or that uses the variable marks it and the per-expression uncompute erases and recycles it while the variable is still live", maps[0])
            else:
                ctx.undecided(fi.short, f"promotion flag `{norm(v)[:80]}` is not `not <symbol>.name.startswith('__')`")
    # cache invalidation
    unc = [c for c in q.calls(loop) if dotted(c.func) == "qc.uncompute"]
    if not unc:
        raise AnchorError(fi.short, "no qc.uncompute() in the compile loop")
    for c in unc:
        par = fi.pm.get(c)
        good = isinstance(par, ast.Call) and dotted(par.func) == "self.expqmap.remove" and par.args and par.args[0] is c
        ctx.check(good, "MP-cache-invalidate", fi, "uncomputed qubits leave the expression cache", "self.expqmap.remove(qc.uncompute())", "the qubits returned by uncompute() are not removed from the expression cache: a recycled ancilla would still be looked up as an old sub-expression", c)
    # cache entry for sym
    st = [s for s in loop.body if isinstance(s, ast.Assign) and isinstance(s.targets[0], ast.Subscript) and norm(s.targets[0].value) == "self.expqmap"]
    ctx.check(len(st) == 1 and norm(st[0].targets[0].slice) == sym and norm(st[0].value) == res_var, "MP-map-qubit", fi, "expqmap[sym] = result", "", "the symbol is not registered for its qubit", loop)
    # fresh ExpQMap per compile
    fresh = [n for n in walk_no_nested(fi.node) if isinstance(n, ast.Assign) and norm(n.targets[0]) == "self.expqmap" and isinstance(n.value, ast.Call) and head_name(n.value.func) == "ExpQMap"]
    ctx.check(len(fresh) == 1 and fi.body.index(q_enclosing_top(fi, fresh[0])) < fi.body.index(loop) if fresh else False, "MP-fresh-env", fi, "fresh ExpQMap before the loop", "", "the expression cache is not re-created for each compilation", fresh[0] if fresh else loop)
    # uncompute_all exactly under the flag, with keep derived from returns.bitvec
    ua = [c for c in q.calls(fi.node) if dotted(c.func) == "qc.uncompute_all"]
    if len(ua) != 1:
        raise AnchorError(fi.short, "expected one qc.uncompute_all call")
    facts = [norm(e) for e, pol in guard_facts(fi, ua[0]) if pol]
    ctx.check("uncompute" in facts, "MP-flag", fi, "final uncompute under the `uncompute` flag", f"guards={facts}", f"uncompute_all is guarded by {facts}, not by the uncompute flag", ua[0])
    others = [("" if pol else "not ") + t for t, pol in (canon_fact(e, p_) for e, p_ in primary_facts(guard_facts(fi, ua[0]))) if (t, pol) not in (("uncompute", True), ("returns is None", False))]
    ctx.check(not others, "MP-flag", fi, "no other condition on the final uncompute", "", f"uncompute_all is additionally conditioned on {others}", ua[0])


def q_enclosing_top(fi: FuncInfo, node):
    cur = node
    while fi.pm.get(cur) is not fi.node:
        cur = fi.pm[cur]
    return cur


def check_expqmap(ctx: Ctx):
    ci = ctx.repo.cls("compiler.expqmap.ExpQMap")
    si = ci.methods.get("__setitem__")
    if si is None:
        raise AnchorError(ci.qualname + ".__setitem__", "not found")
    ps = si.params
    body = [s for s in si.body if not (isinstance(s, ast.Expr) and isinstance(s.value, ast.Constant))]
    rm_idx = st_idx = None
    for i, s in enumerate(body):
        for c in q.calls(s):
            if dotted(c.func) == "self.remove" and c.args and ps[2] in q.names_in(c.args[0]):
                rm_idx = i if rm_idx is None else rm_idx
        if isinstance(s, ast.Assign) and isinstance(s.targets[0], ast.Subscript) and norm(s.targets[0].value) == "self.exp_map":
            st_idx = i
            ctx.check(norm(s.targets[0].slice) == ps[1] and norm(s.value) == ps[2], "MP-cache-invalidate", si, "exp_map[exp] = qubit", "", "stores something else", s)
    if rm_idx is None and st_idx is not None:
        # the eviction written out in place: entries whose value is the qubit are deleted before the store
        names = {ps[2]}
        for i, s in enumerate(body[:st_idx]):
            if isinstance(s, ast.Assign) and len(s.targets) == 1 and isinstance(s.targets[0], ast.Name) and names & q.names_in(s.value):
                names.add(s.targets[0].id)  # `stale = [e for e, q in self.exp_map.items() if q == qubit]`
            deletes = [n for n in ast.walk(s) if (isinstance(n, ast.Delete) and any(isinstance(t, ast.Subscript) and norm(t.value) == "self.exp_map" for t in n.targets)) or (isinstance(n, ast.Call) and dotted(n.func) == "self.exp_map.pop")]
            rebuilt = isinstance(s, ast.Assign) and norm(s.targets[0]) == "self.exp_map" and isinstance(s.value, ast.DictComp)
            if (deletes or rebuilt) and names & q.names_in(s):
                rm_idx = i
            elif deletes or rebuilt:
                ctx.undecided(si.short, f"`{norm(s)[:60]}` removes entries before the store, but not visibly those of `{ps[2]}`")
                return
    ctx.check(rm_idx is not None and st_idx is not None and rm_idx < st_idx, "MP-cache-invalidate", si, "previous entry of the qubit dropped first", "self.remove([qubit]) precedes the store", "a qubit can be registered for two expressions at once: the older one is stale", si.node)
    rm = ci.methods.get("remove")
    if rm is None:
        raise AnchorError(ci.qualname + ".remove", "not found")
    dels = [n for n in ast.walk(rm.node) if isinstance(n, ast.Delete)]
    ctx.check(bool(dels) and all("self.exp_map" in norm(d) for d in dels), "MP-cache-invalidate", rm, "remove deletes from exp_map", "", "remove() does not delete entries", rm.node)
    # who may write exp_map
    for fq, fi in ctx.repo.functions.items():
        if fi.cls is ci:
            continue
        for n in walk_no_nested(fi.node):
            if isinstance(n, (ast.Attribute,)) and n.attr == "exp_map" and isinstance(n.ctx, (ast.Store, ast.Del)):
                ctx.fail("FX-OWNER", fi, "exp_map written outside ExpQMap", "only ExpQMap methods may write exp_map", n)
            if isinstance(n, ast.Subscript) and isinstance(n.ctx, (ast.Store, ast.Del)) and isinstance(n.value, ast.Attribute) and n.value.attr == "exp_map":
                ctx.fail("FX-OWNER", fi, "exp_map written outside ExpQMap", "only ExpQMap methods may write exp_map", n)
    ctx.ok("FX-OWNER", None, "exp_map has a single owner", f"scanned {len(ctx.repo.functions)} functions", construct=ci.qualname[len('qlasskit.'):])


# ----------------------------------------------------------------------------------------------
# TS-DEST


def check_dest_discipline(ctx: Ctx, ic):
    routines = [m for n, m in ic.methods.items() if n.startswith("compile_") and "dest" in m.params]
    if len(routines) < 6:
        raise AnchorError(IC, f"only {len(routines)} synthesis routines with a dest parameter found (7 confirmed by hand)")
    for fi in routines:
        dest_vars = dest_aliases(fi)
        for ri, r in enumerate(q.returns(fi)):
            v = r.value
            role_tag = classify_return(fi, r)
            role = f"return {role_tag}"
            if v is None:
                ctx.fail("TS-DEST", fi, role, "returns no qubit", r)
                continue
            if isinstance(v, ast.Name) and v.id in dest_vars:
                ctx.ok("TS-DEST", fi, role, f"returns the destination (`{v.id}`)", r)
                continue
            if isinstance(v, ast.Call) and (dotted(v.func) or "").startswith("self.compile_"):
                a = [norm(x) for x in v.args] + [norm(k.value) for k in v.keywords if k.arg == "dest"]
                if any(x in dest_vars for x in a):
                    ctx.ok("TS-DEST", fi, role, "delegates with the destination forwarded", r)
                    continue
            if returns_only_without_dest(fi, r, dest_vars):
                ctx.ok("TS-DEST", fi, role, "taken only when no destination was given (or the value is the destination)", r)
                continue
            ex = DEST_EXEMPT.get((fi.name, role_tag)) or DEST_EXEMPT.get((fi.name, "*"))
            if ex:
                ctx.ok("TS-DEST", fi, role, f"ignores dest; exempt: {ex}", r, nontrivial=False)
            else:
                ctx.fail("TS-DEST", fi, role, f"`return {norm(v)}` ignores a destination handed in by the caller: the caller (compile_xor) continues accumulating into the returned qubit, which already holds other content", r)
        # cache writes
        for n in walk_no_nested(fi.node):
            if isinstance(n, ast.Assign) and isinstance(n.targets[0], ast.Subscript) and norm(n.targets[0].value) == "self.expqmap":
                val = n.value
                role = f"cache write expqmap[{norm(n.targets[0].slice)}] = {norm(val)}"
                if isinstance(val, ast.Name) and val.id in dest_vars:
                    fresh_only = dest_is_fresh_here(fi, n, val.id)
                    ctx.check(fresh_only, "TS-DEST", fi, role, "destination was allocated here", f"`{val.id}` may be a destination borrowed from the caller, which already holds (and will go on accumulating) other terms: registering it as holding `{norm(n.targets[0].slice)}` poisons later look-ups of that sub-expression", n)
                else:
                    ctx.ok("TS-DEST", fi, role, "value is not the borrowed destination", n)


def dest_aliases(fi: FuncInfo) -> Set[str]:
    """names that hold the caller's destination when one was given: `dest`, and any `d` with
    `d = dest if dest is not None else ...` / `d = self.compile_expr(..., dest=d)`"""
    out = {"dest"}
    changed = True
    while changed:
        changed = False
        for n in walk_no_nested(fi.node):
            if isinstance(n, ast.Assign) and isinstance(n.targets[0], ast.Name) and n.targets[0].id not in out:
                v = n.value
                alts = [v.body, v.orelse] if isinstance(v, ast.IfExp) else [v]
                if any(isinstance(a, ast.Name) and a.id in out for a in alts):
                    out.add(n.targets[0].id)
                    changed = True
    return out


def classify_return(fi: FuncInfo, r: ast.Return) -> str:
    txt = norm(r.value) if r.value is not None else "None"
    facts = [(norm(e), pol) for e, pol in guard_facts(fi, r)]
    pos = [f for f, pol in facts if pol]
    if fi.name == "compile_expr":
        if any("BooleanFalse" in f for f in pos):
            return "const-false"
        if any("BooleanTrue" in f for f in pos):
            return "const-true"
        if any(" in self.expqmap" in f for f in pos):
            return "cache-hit"
        for h in ("Symbol", "Xor", "Not", "And", "Or", "QuantumBooleanGate"):
            if any(f"isinstance(expr, {h})" in f for f in pos):
                return f"branch-{h}"
    if fi.name == "compile_not":
        if any("sym" in f and "name" in f for f in pos):
            return "self-not"
        if any("ancilla_lst" in f for f in pos):
            return "ancilla-in-place"
    return txt[:50]


def _positive(e, pol):
    """(`x is not None`, False) says (`x is None`, True); (`a != b`, False) says (`a == b`, True)"""
    if isinstance(e, ast.Compare) and len(e.ops) == 1 and isinstance(e.ops[0], (ast.IsNot, ast.NotEq)):
        op = ast.Is() if isinstance(e.ops[0], ast.IsNot) else ast.Eq()
        return ast.copy_location(ast.Compare(left=e.left, ops=[op], comparators=e.comparators), e), not pol
    return e, pol


def _is_none_test(e, names) -> bool:
    return (
        isinstance(e, ast.Compare)
        and len(e.ops) == 1
        and isinstance(e.ops[0], ast.Is)
        and isinstance(e.left, ast.Name)
        and e.left.id in names
        and isinstance(e.comparators[0], ast.Constant)
        and e.comparators[0].value is None
    )


def dest_is_fresh_here(fi: FuncInfo, node, var: str) -> bool:
    """True iff on every path to node `var` was allocated by this routine (dest was None).
    Accepted: a dominating `dest is None`, or a dominating flag `owned` whose single binding is
    `owned = dest is None` evaluated before dest is re-bound."""
    from ..rewrite import single_bindings

    binds = single_bindings(fi)
    for e, pol in [_positive(e_, p_) for e_, p_ in guard_facts(fi, node)]:
        if not pol:
            continue
        if _is_none_test(e, {var, "dest"}):
            return True
        if isinstance(e, ast.Name) and e.id in binds and _is_none_test(binds[e.id], {"dest"}):
            # the flag must be computed before dest is re-assigned
            flag_line = order_key(binds[e.id])
            rebinds = [order_key(n) for n in walk_no_nested(fi.node) if isinstance(n, ast.Assign) and any(isinstance(t, ast.Name) and t.id == "dest" for t in n.targets)]
            if all(flag_line < ln for ln in rebinds):
                return True
    return False


def returns_only_without_dest(fi: FuncInfo, r: ast.Return, dest_vars) -> bool:
    """every alternative of the return's path condition says `dest is None` or `dest == <returned value>`"""
    from ..rewrite import dnf
    from ..boolterm import Undecided

    try:
        alts = dnf(guard_facts(fi, r))
    except Undecided:
        return False
    if not alts:
        return False
    val = norm(r.value)
    for alt in alts:
        good = False
        for e, pol in [_positive(e_, p_) for e_, p_ in alt]:
            if pol and _is_none_test(e, dest_vars):
                good = True
            if pol and isinstance(e, ast.Compare) and len(e.ops) == 1 and isinstance(e.ops[0], ast.Eq):
                l, rr = norm(e.left), norm(e.comparators[0])
                if (l in dest_vars and rr == val) or (rr in dest_vars and l == val):
                    good = True
        if not good:
            return False
    return True


# ----------------------------------------------------------------------------------------------


def check_or_idiom(ctx: Ctx, ic):
    """compile_or implements a|b as a^b^ab (cx each + one mcx): an identity for two operands only"""
    fi = ic.methods["compile_or"]
    cx_loops = [l for l in q.for_loops(fi.node) if any(dotted(c.func) == "qc.cx" for c in q.calls(l))]
    mcx = [c for c in q.calls(fi.node, nested=False) if dotted(c.func) == "qc.mcx"]
    two_ary_idiom = len(cx_loops) == 1 and len(mcx) == 1
    if not two_ary_idiom:
        raise AnchorError(fi.short, "Or synthesis is not the `cx each + one mcx` idiom: DP-LANG arity cannot be decided")
    guarded = any("len(expr.args)" in norm(e) for n in walk_no_nested(fi.node) if isinstance(n, (ast.If, ast.Assert)) for e in [n.test])
    if guarded:
        ctx.ok("DP-LANG", fi, "Or arity", "compile_or guards the number of operands itself", fi.node)
    else:
        # must be fed by a total normaliser in every profile: obligations RW-TOTAL/RW-ORDER above decide that
        ctx.ok("DP-LANG", fi, "Or arity", "2-operand idiom without own guard: relies on transform_or2and being total and present in every profile (decided by RW-TOTAL / RW-ORDER obligations of this run)", fi.node)
    # dest is removed from the control list before mcx (C06 shares this)
    for name in ("compile_and", "compile_or"):
        m = ic.methods[name]
        mc = [c for c in q.calls(m.node, nested=False) if dotted(c.func) == "qc.mcx"]
        if len(mc) != 1:
            raise AnchorError(m.short, "expected one qc.mcx call")
        idx = q.stmt_index(m.body, mc[0])
        removed = False
        for s in m.body[:idx]:
            if isinstance(s, ast.If) and "dest in" in norm(s.test) and any(dotted(c.func, ) and dotted(c.func).endswith(".remove") and norm(c.args[0]) == "dest" for c in q.calls(s)):
                removed = True
        ctx.check(removed, "DP-WIRES", m, "destination never among its own controls", "dest removed from the control list before mcx", "dest may be both control and target of the mcx", mc[0])
        ctx.check(norm(mc[0].args[1]) == "dest", "DP-WIRES", m, "mcx targets dest", "", f"mcx targets {norm(mc[0].args[1])}", mc[0])


def check_wires(ctx: Ctx):
    repo = ctx.repo
    qc = repo.cls("qcircuit.qcircuit.QCircuit")

    def append_arg(m):
        cs = [c for c in q.calls(m.node) if dotted(c.func) == "self.append"]
        if len(cs) != 1:
            raise AnchorError(m.short, "expected one self.append call")
        return cs[0], cs[0].args[1]

    def controls_then_target(m, wl_p, tg_p):
        """the wire list handed to append is <the resolved control list, in order> + [<the resolved target>]"""
        c, a = append_arg(m)
        if not (isinstance(a, ast.BinOp) and isinstance(a.op, ast.Add)):
            ctx.undecided(m.short, f"controls then target: the wire list `{norm(a)}` is not <controls> + [<target>]")
            return
        left, right = a.left, a.right
        # what do the two halves denote?  follow the (re-)bindings that precede the call
        st_ = q.enclosing_stmt(m, c)
        lv = q.value_at(m.body, st_, left) or left
        rv = q.value_at(m.body, st_, right) or right

        def derived_from(e, p) -> Optional[bool]:
            """e is the parameter p itself or p with every element resolved through self[...], order kept"""
            e = q.strip_wrappers(e)
            if isinstance(e, ast.Name):
                return e.id == p
            if isinstance(e, (ast.ListComp, ast.GeneratorExp)) and len(e.generators) == 1 and not e.generators[0].ifs:
                g = e.generators[0]
                return norm(q.reversal_parity(g.iter)[0]) == p and q.reversal_parity(g.iter)[1] == 0 and norm(e.elt) in (f"self[{norm(g.target)}]", norm(g.target))
            if isinstance(e, ast.Call) and isinstance(e.func, ast.Name) and e.func.id == "map" and len(e.args) == 2:
                return norm(e.args[1]) == p
            return None

        l_ok = derived_from(lv, wl_p)
        r_ok = isinstance(rv, ast.List) and len(rv.elts) == 1 and norm(rv.elts[0]) in (tg_p, f"self[{tg_p}]")
        swapped = isinstance(lv, ast.List) and derived_from(rv, wl_p)
        if l_ok is None and not swapped:
            ctx.undecided(m.short, f"controls then target: the control half `{norm(lv)[:60]}` is not derived from `{wl_p}` in a form the tables know")
            return
        ctx.check(bool(l_ok) and r_ok, "DP-WIRES", m, "controls then target", "wl + [target]", f"wire list is `{norm(a)}` (= `{norm(lv)[:50]}` + `{norm(rv)[:30]}`): every consumer reads the LAST wire as the target", c)

    m = qc.methods.get("mcx")
    controls_then_target(m, m.params[1], m.params[2])
    m = qc.methods.get("mctrl")
    controls_then_target(m, m.params[2], m.params[3])
    for name in ("cx", "ccx", "cz", "swap", "cp"):
        m = qc.methods.get(name)
        if m is None:
            raise AnchorError(f"qcircuit.qcircuit.QCircuit.{name}", "not found")
        c, a = append_arg(m)
        ws = [p for p in m.params[1:] if p.startswith("w")]
        ctx.check(norm(a) == "[" + ", ".join(ws) + "]", "DP-WIRES", m, "wires in parameter order", norm(a), f"wire list `{norm(a)}` permutes the parameters {ws}", c)
    # CNotSim
    sim = repo.func("qcircuit.cnotsim.CNotSim.simulate")
    loop = [l for l in q.for_loops(sim.node) if "gates" in norm(l.iter)]
    if len(loop) != 1:
        raise AnchorError(sim.short, "gate loop not found")
    ctx.check(norm(loop[0].iter) == "qc.gates", "DP-WIRES", sim, "forward over qc.gates", "", f"iterates `{norm(loop[0].iter)}`", loop[0])
    w = norm(loop[0].target.elts[1])
    ctrl = [n for n in ast.walk(loop[0]) if isinstance(n, ast.Subscript) and q.is_all_but_last(n, w)]
    tgt = [n for n in ast.walk(loop[0]) if isinstance(n, ast.Subscript) and q.is_last_index(n, w)]
    ctx.check(bool(ctrl) and bool(tgt), "DP-WIRES", sim, "controls = all but last, target = last", "", "the simulator does not read controls/target in the mcx convention", loop[0])
    ok, off = returns_or_raises_everywhere(sim.body)
    chain = [s for s in loop[0].body if isinstance(s, ast.If)]
    if chain:
        _, els = q.if_chain(chain[0])
        ctx.check(bool(els) and isinstance(els[-1], ast.Raise), "DP-CLOSED", sim, "unknown gates raise", "", "a gate the simulator does not know is skipped silently", chain[0])


def check_xor_negation(ctx: Ctx, ic):
    """MP-negation: compile_xor accumulates its operands into one qubit.  Where it strips the negation of an operand
    (compiles `e.args[0]` of an operand it tested to be a Not) it owes the accumulator one X *per such operand*: X is
    an involution, so the number of flips matters, not whether there was one.  Decided from the loop over the
    operands: the X is emitted in the same iteration, under the guard that stripped the negation; a flag that is only
    ever set and consumed once after the loop loses the parity."""
    fi = ic.methods.get("compile_xor")
    if fi is None:
        raise AnchorError(IC + ".compile_xor", "not found")
    loops = [l for l in q.for_loops(fi.node) if norm(l.iter).endswith(".args")]
    if len(loops) != 1 or not isinstance(loops[0].target, ast.Name):
        raise AnchorError(fi.short, f"{len(loops)} loops over the operands")
    loop = loops[0]
    ev = loop.target.id
    d_names = dest_aliases(fi)
    role = "a negation stripped from an operand is re-applied once per operand"
    # unwrap sites: `<ev>.args[0]` read inside the loop under a positive isinstance(<ev>, Not) fact
    sites = []
    for n in ast.walk(loop):
        if isinstance(n, ast.Subscript) and isinstance(n.ctx, ast.Load) and norm(n) == f"{ev}.args[0]":
            facts = [(norm(e).replace(" ", ""), pol) for e, pol in guard_facts(fi, n)]
            if any(pol and f.startswith(f"isinstance({ev},") and "Not" in f for f, pol in facts):
                st = enclosing_stmt(fi, n)
                # a mere test (`not isinstance(e.args[0], Symbol)`) is not a use
                par = fi.pm.get(n)
                if isinstance(par, ast.Call) and isinstance(par.func, ast.Name) and par.func.id == "isinstance":
                    continue
                if not any(st is s for s, _ in sites):
                    sites.append((st, n))
    if not sites:
        ctx.ok("MP-negation", fi, role, "compile_xor strips no negation itself (negated operands go through compile_expr)", loop)
        return
    xs = [c for c in q.calls(fi.node) if dotted(c.func) == "qc.x" and c.args and norm(c.args[0]) in d_names]
    for st, n in sites:
        in_iter = []
        for c in xs:
            if not q.contains(loop, c):
                continue
            cf = [(norm(e).replace(" ", ""), pol) for e, pol in guard_facts(fi, c)]
            if any(pol and f.startswith(f"isinstance({ev},") and "Not" in f for f, pol in cf) or q.contains(st, c) or _same_block(fi, st, enclosing_stmt(fi, c)):
                in_iter.append(c)
        if len(in_iter) == 1:
            ctx.ok("MP-negation", fi, role, f"`{norm(in_iter[0])}` in the iteration that compiles `{norm(n)}`", st)
            continue
        if len(in_iter) > 1:
            ctx.fail("MP-negation", fi, role, f"{len(in_iter)} X gates on the accumulator in the iteration that strips `{norm(n)}`: an even number of flips cancels the negation", st)
            continue
        after = [c for c in xs if not q.contains(loop, c)]
        if after:
            # flipped once after the loop: under which flag, and is the flag a parity?
            c = after[0]
            flags = [e for e, pol in guard_facts(fi, c) if isinstance(e, ast.Name)]
            toggled = False
            for fl in flags:
                for a in ast.walk(loop):
                    if isinstance(a, ast.AugAssign) and isinstance(a.target, ast.Name) and a.target.id == fl.id and isinstance(a.op, ast.BitXor):
                        toggled = True
                    if isinstance(a, ast.Assign) and any(isinstance(t, ast.Name) and t.id == fl.id for t in a.targets) and isinstance(a.value, ast.UnaryOp) and isinstance(a.value.op, ast.Not) and norm(a.value.operand) == fl.id:
                        toggled = True
            if toggled:
                ctx.ok("MP-negation", fi, role, f"the flag guarding `{norm(c)}` is toggled per negated operand", st)
            else:
                ctx.fail("MP-negation", fi, role, f"`{norm(st)[:70]}` strips the negation of an operand and `{norm(c)}` is emitted once after the loop" + (f" under `{norm(flags[0])}`, which is only ever set" if flags else "") + ": with two (any even number of) negated operands a single X is emitted where the flips should cancel - the destination holds the complement of the Xor", c)
        else:
            ctx.fail("MP-negation", fi, role, f"`{norm(st)[:70]}` compiles the operand without its negation and no X is applied to the accumulator: the operand enters the Xor complemented", st)


def _same_block(fi: FuncInfo, a, b) -> bool:
    """two statements in the same statement list (executed together)"""
    pa, pb = fi.pm.get(a), fi.pm.get(b)
    if pa is None or pa is not pb:
        return False
    for fld in ("body", "orelse", "finalbody"):
        ss = getattr(pa, fld, None)
        if isinstance(ss, list) and any(x is a for x in ss) and any(x is b for x in ss):
            return True
    return False
