"""C13 - Exports denote the same operation on the same qubits."""
from __future__ import annotations

import ast
from typing import List, Optional

from .. import pat, q
from ..core import guard_facts, AnchorError, Ctx, FuncInfo, dotted, norm, walk_no_nested

ID = "C13"
TECHNIQUE = (
    "per-exporter gate-loop rules (source list, direction, fail-closed chain, wire-order monotonicity of every "
    "emitted call), twin comparison of the two QASM versions, provenance of the QASM formal/actual/operand names"
)
EXPLANATION = (
    "Decides, for the Qiskit, Cirq, Sympy, PennyLane and QASM exporters: (MP-gates-forward) each walks the circuit's "
    "`gates` list itself (not gates_computed, not a filtered or reversed view) front to back; (DP-CLOSED) every "
    "class-dispatching exporter raises for a gate it has no rule for; (DP-WIRES) every emitted call receives the "
    "gate's wires in their original order, target last (no call lists w[k] before w[j] for k > j, controls are "
    "w[0:-1] and the target w[-1]); (SB-TWIN) OpenQASM 2 and 3 generate the gate body with identical code; "
    "(MP-formals-provenance) the QASM formal parameter list, the call's actual list and the gate operands are all "
    "derived from the same index set 0..num_qubits-1 through the same naming function, and the printed text is an "
    "injective function of the qubit's name (no regex substitution / replace / case folding / slicing on it).  It does NOT decide unitary "
    "equality nor the foreign frameworks' own semantics."
)
NOT_DECIDED = "unitary equality; semantics of qiskit/cirq/sympy/pennylane/qasm"
MIN_OBLIGATIONS = 20

EXPORTERS = {
    "qcircuit.exporter_qiskit.QiskitExporter.export": True,
    "qcircuit.exporter_cirq.CirqExporter.export": True,
    "qcircuit.exporter_sympy.SympyExporter.export": True,
    "qcircuit.exporter_pennylane.PennyLaneExporter.export": True,
    "qcircuit.exporter_qasm.QasmExporter.export_v2": False,  # name-based generic emission, no class chain
    "qcircuit.exporter_qasm.QasmExporter.export_v3": False,
}


def gate_loops(fi: FuncInfo) -> List[ast.For]:
    out = []
    for l in q.for_loops(fi.node, nested=True):
        if isinstance(l.target, ast.Tuple) and len(l.target.elts) == 3 and "gates" in norm(l.iter):
            out.append(l)
    return out


def wire_order_ok(call: ast.Call, w: str, fi: Optional[FuncInfo] = None):
    """indices of `w[...]` among the call's arguments must be non-decreasing, slices w[0:-1] before w[-1]"""
    seq = []

    def key_of(n) -> Optional[float]:
        if isinstance(n, ast.Subscript) and isinstance(n.value, ast.Name) and n.value.id == w:
            s = n.slice
            if isinstance(s, ast.Constant) and isinstance(s.value, int):
                return float(s.value) if s.value >= 0 else 1e6 + s.value
            if isinstance(s, ast.UnaryOp) and isinstance(s.op, ast.USub) and isinstance(s.operand, ast.Constant):
                return 1e6 - s.operand.value
            if isinstance(s, ast.Slice):
                if q.is_all_but_last(n, w):
                    return 0.5
                if s.lower is None and s.upper is None and s.step is None:
                    return 0.5
                return None
        return None

    bad = None
    for a in list(call.args) + [k.value for k in call.keywords]:
        for n in ast.walk(a):
            if isinstance(n, ast.Subscript) and isinstance(n.value, ast.Name) and n.value.id == w:
                k = key_of(n)
                if k is None:
                    bad = f"`{norm(n)}` selects wires in a form outside the tables"
                else:
                    seq.append((k, norm(n)))
            if isinstance(n, ast.Call) and isinstance(n.func, ast.Name) and n.func.id in ("reversed", "sorted") and w in q.names_in(n):
                bad = f"`{norm(n)}` permutes the wire list"
            if isinstance(n, ast.Subscript) and q.is_reversed(n) is not None and w in q.names_in(n):
                bad = f"`{norm(n)}` reverses the wire list"
    if bad:
        return False, bad
    ks = [k for k, _ in seq]
    if ks != sorted(ks):
        return False, f"wires passed as {[t for _, t in seq]}: not in the gate's own order (controls first, target last)"
    return True, ""


def run(ctx: Ctx):
    from .. import memo as _memo

    ctx.section(_memo.check_memo_keys, ctx, ('qcircuit.',))
    repo = ctx.repo
    for short, has_chain in EXPORTERS.items():
        fi = repo.func(short)
        loops = gate_loops(fi)
        if len(loops) != 1:
            raise AnchorError(short, f"{len(loops)} gate loops found, expected 1")
        loop = loops[0]
        core, par = q.reversal_parity(loop.iter)
        src = norm(core)
        ctx.check(src.endswith(".gates") and src.count(".") == 1 and par == 0, "MP-gates-forward", fi, "walks circuit.gates front to back", norm(loop.iter), f"iterates `{norm(loop.iter)}`: the exported object must apply every gate of `gates` (not the compiler's bookkeeping list `gates_computed`, not a reordered or filtered view) in order", loop)
        w = norm(loop.target.elts[1])
        n_calls = 0
        for c in q.calls(loop):
            if w not in q.names_in(c):
                continue
            # only calls that take wires as arguments (not len(w), isinstance...)
            if isinstance(c.func, ast.Name) and c.func.id in ("len", "isinstance", "list", "map", "tuple", "print", "str"):
                continue
            ok, why = wire_order_ok(c, w)
            n_calls += 1
            ctx.check(ok, "DP-WIRES", fi, f"wire order in {norm(c.func)[:40]}(...)", "", f"`{norm(c)[:90]}`: {why}", c)
        if n_calls == 0 and has_chain:
            raise AnchorError(short, "no emitting call that takes wires found")
        if has_chain:
            chains = [s for s in loop.body if isinstance(s, ast.If)]
            if not chains:
                raise AnchorError(short, "no class-dispatch chain in the gate loop")
            # the dispatching chain is the one with the most branches
            best = max(chains, key=lambda s: len(q.if_chain(s)[0]))
            _, els = q.if_chain(best)
            if len(chains) > 1 and not best.orelse:
                # guard-clause style: `if isinstance(..): ...; continue` one after the other, then the default
                _, els = q.dispatch_chain(loop.body)
            if els is None:
                ctx.undecided(fi.short, "the class dispatch in the gate loop is neither one if/elif chain nor a sequence of ifs that leave the iteration")
            elif bool(els) and isinstance(els[-1], ast.Raise):
                ctx.ok("DP-CLOSED", fi, "unknown gate classes raise", "", best)
            elif [
                n for n in ast.walk(loop) if isinstance(n, ast.Raise) and not any(pol and isinstance(e, ast.Call) and isinstance(e.func, ast.Name) and e.func.id in ("isinstance", "issubclass") for e, pol in guard_facts(fi, n))
            ]:
                # `if not hasattr(qc, name): raise ...` followed by the generic rule: the raise is on the default path
                ctx.ok("DP-CLOSED", fi, "unknown gate classes raise", "a raise that no class test guards", best)
            else:
                ctx.check(False, "DP-CLOSED", fi, "unknown gate classes raise", "", "a gate class without an export rule is dropped silently from the exported object", best)
            # controlled gates: controls = w[0:-1], target = w[-1]
            for c in q.calls(loop):
                if isinstance(c.func, ast.Attribute) and c.func.attr == "mcx" and len(c.args) == 2:
                    bnd = pat.bindings(fi.node)
                    a0, a1 = pat.look_through(c.args[0], bnd), pat.look_through(c.args[1], bnd)
                    st_ = q.enclosing_stmt(fi, c)
                    blk = None
                    for par_ in ast.walk(loop):
                        for fld in ("body", "orelse"):
                            b_ = getattr(par_, fld, None)
                            if isinstance(b_, list) and st_ in b_:
                                blk = b_
                    if blk is not None:
                        a0 = q.value_at(blk, st_, a0) or a0
                        a1 = q.value_at(blk, st_, a1) or a1
                    ctx.check(q.is_all_but_last(a0, w) and q.is_last_index(a1, w), "DP-WIRES", fi, "mcx(controls = all but last, target = last)", norm(c), f"`{norm(c)}` (= {norm(a0)}, {norm(a1)}) does not split the wire list as controls + target", c)
    # helper functions of the sympy exporter
    for hn in ("mcx", "toffoli"):
        h = repo.maybe_func(f"qcircuit.exporter_sympy.{hn}")
        if h is None:
            continue
        r = q.returns(h)[0].value
        if hn == "mcx":
            p = h.params[0]
            ok = isinstance(r, ast.Call) and len(r.args) == 2 and p in q.names_in(r.args[0]) and any(q.is_all_but_last(n, p) for n in ast.walk(r.args[0])) and any(q.is_last_index(n, p) for n in ast.walk(r.args[1]))
            ctx.check(ok, "DP-WIRES", h, "CGate(controls = all but last, XGate(last))", norm(r), f"`{norm(r)}` does not use the last wire as target", h.node)
    check_qasm(ctx)


def check_qasm(ctx: Ctx):
    repo = ctx.repo
    v2 = repo.func("qcircuit.exporter_qasm.QasmExporter.export_v2")
    v3 = repo.func("qcircuit.exporter_qasm.QasmExporter.export_v3")

    def gate_part(fi):
        from ..core import real_body

        out = []
        for s in real_body(fi.body):
            if isinstance(s, ast.If) and "mode" in norm(s.test) and "gate" in norm(s.test):
                out.append(norm(s))
                break
            out.append(norm(s))
        return out

    g2, g3 = gate_part(v2), gate_part(v3)
    ctx.check(g2 == g3, "SB-TWIN", v2, "QASM 2 and 3 build the gate declaration identically", f"{len(g2)} statements", "the gate-body generation of export_v2 and export_v3 differ: the two versions no longer describe the same gate", v2.node)
    for fi in (v2, v3):
        check_name_injective(ctx, fi)
    for fi in (v2, v3):
        sc = fi.params[1]
        # formals
        header = [s for s in fi.body if isinstance(s, (ast.AugAssign, ast.Assign)) and "join" in norm(s) and "for g" not in norm(s)]
        joins = [c for s in fi.body for c in q.calls(s) if isinstance(c.func, ast.Attribute) and c.func.attr == "join" and not any(isinstance(p, ast.For) and q.contains(p, c) for p in q.for_loops(fi.node, nested=True))]
        formal = None
        actual = None
        for c in joins:
            t = norm(c)
            if "q[" in t:
                actual = c
            elif formal is None:
                formal = c
        if formal is None or actual is None:
            raise AnchorError(fi.short, "formal parameter list / actual argument list not found")
        ft = norm(formal.args[0])
        ok_f = "get_key_by_index" in ft and f"range({sc}.num_qubits)" in ft and "sorted" not in ft and "reversed" not in ft
        ctx.check(ok_f, "MP-formals-provenance", fi, "one formal per qubit index, named by get_key_by_index", ft[:80], f"formals are `{ft[:90]}`: not derived from the index set range(num_qubits) through the naming function the gate body uses (aliased names give more formals than qubits; a different order re-wires the gate)", formal)
        at = norm(actual.args[0])
        ok_a = f"range({sc}.num_qubits)" in at and "reversed" not in at and "sorted" not in at
        ctx.check(ok_a, "MP-formals-provenance", fi, "one actual per qubit index, in order", at[:80], f"actuals are `{at[:90]}`", actual)
        # operands inside the gate body
        loop = gate_loops(fi)[0]
        ws = norm(loop.target.elts[1])
        ops = [c for c in q.calls(loop) if (dotted(c.func) or "").endswith("get_key_by_index")]
        ok_o = len(ops) >= 1
        maps = [c for c in q.calls(loop) if isinstance(c.func, ast.Name) and c.func.id == "map" and len(c.args) == 2]
        comps = [n for n in ast.walk(loop) if isinstance(n, (ast.ListComp, ast.GeneratorExp)) and any("get_key_by_index" in norm(x) for x in [n.elt])]
        order_ok = any(norm(m.args[1]) == ws for m in maps) or any(norm(cn.generators[0].iter) == ws for cn in comps)
        ctx.check(ok_o and order_ok, "MP-formals-provenance", fi, "operands named by get_key_by_index over the gate's wires in order", "", "gate operands are not the names of the gate's wires, in wire order", loop)
        # nop gates skipped, everything else emitted
        skip = [s for s in loop.body if isinstance(s, ast.If) and "NopGate" in norm(s.test) and any(isinstance(x, ast.Continue) for x in s.body)]
        others = [s for s in loop.body if isinstance(s, ast.If) and s not in skip and any(isinstance(x, ast.Continue) for x in ast.walk(s))]
        ctx.check(len(skip) == 1 and not others, "DP-CLOSED", fi, "only no-op gates are skipped", "", "gates other than barriers/no-ops are skipped in the QASM body", loop)
    # the naming function is a function of the name->index map alone
    gk = repo.func("qcircuit.qcircuit.QCircuit.get_key_by_index")
    reads = sorted({n.attr for n in ast.walk(gk.node) if isinstance(n, ast.Attribute) and isinstance(n.value, ast.Name) and n.value.id == "self"})
    if reads != ["qubit_map"]:
        raise AnchorError(gk.short, f"get_key_by_index now reads {reads}: names are no longer derived from qubit_map alone, and the analysis cannot decide that a secondary index stays consistent with every write to qubit_map (re-pointing a name, deleting, promoting)")
    ip = gk.params[1]
    role = "the name of qubit i is the latest key mapped to i"
    scan = [l for l in q.for_loops(gk.node) if "qubit_map" in norm(l.iter)]
    comps = [c for c in ast.walk(gk.node) if isinstance(c, (ast.ListComp, ast.GeneratorExp)) and "qubit_map" in norm(c.generators[0].iter)]
    verdict = None
    why = ""
    if len(scan) == 1 and not comps:
        l = scan[0]
        par = q.reversal_parity(l.iter)[1]
        hit = [r for r in q.returns(gk) if q.contains(l, r)]
        if len(hit) == 1:
            facts = [(pat.t(e), pol) for e, pol in guard_facts(gk, hit[0])]
            k = norm(l.target) if isinstance(l.target, ast.Name) else (norm(l.target.elts[0]) if isinstance(l.target, ast.Tuple) else None)
            matches = any(pol and f in (f"self.qubit_map[{k}]=={ip}", f"{ip}==self.qubit_map[{k}]") for f, pol in facts) or (isinstance(l.target, ast.Tuple) and any(pol and f in (f"{norm(l.target.elts[1])}=={ip}", f"{ip}=={norm(l.target.elts[1])}") for f, pol in facts))
            if matches and pat.t(hit[0].value) == k:
                verdict = par == 1
                why = "the scan over the map runs in insertion order and returns the FIRST name mapped to the index: when a qubit has several names (aliases, re-pointed names) the oldest is used, which may since point elsewhere in exported formal lists"
    elif len(comps) == 1 and not scan:
        c = comps[0]
        g = c.generators[0]
        k = norm(g.target) if isinstance(g.target, ast.Name) else (norm(g.target.elts[0]) if isinstance(g.target, ast.Tuple) else None)
        conds = [pat.t(x) for x in g.ifs]
        v = norm(g.target.elts[1]) if isinstance(g.target, ast.Tuple) else f"self.qubit_map[{k}]"
        sel_ok = len(conds) == 1 and conds[0] in (f"{v}=={ip}".replace(" ", ""), f"{ip}=={v}".replace(" ", "")) and pat.t(c.elt) == k
        par = q.reversal_parity(g.iter)[1]
        asg = gk.pm.get(c)
        nm = asg.targets[0].id if isinstance(asg, ast.Assign) and isinstance(asg.targets[0], ast.Name) else None
        rets = [r for r in q.returns(gk) if nm and isinstance(r.value, ast.Subscript) and norm(r.value.value) == nm]
        if sel_ok and len(rets) == 1:
            last = q.is_last_index(rets[0].value)
            first = pat.t(rets[0].value.slice) == "0"
            if last or first:
                verdict = (last and par == 0) or (first and par == 1)
                why = "of the names mapped to the index the OLDEST is returned, not the most recent one"
    if verdict is None:
        ctx.undecided(gk.short, f"{role}: the lookup is neither a scan returning the first hit nor a filtered list of the names")
    else:
        ctx.check(verdict, "MP-formals-provenance", gk, role, "", f"get_key_by_index no longer returns the most recently mapped name of the index: {why}", gk.node)
    raises = [n for n in walk_no_nested(gk.node) if isinstance(n, ast.Raise)]
    ctx.check(bool(raises), "MP-formals-provenance", gk, "unnamed indices raise", "", "an index that no name is mapped to does not raise: None would be printed as a qubit name", gk.node)
    # version switch
    ex = repo.func("qcircuit.exporter_qasm.QasmExporter.export")
    txt = norm(ex.node)
    ctx.check("self.version == 3" in txt and "export_v3" in txt and "export_v2" in txt, "DP-TABLE", ex, "version 3 -> export_v3, otherwise export_v2", "", "version dispatch changed", ex.node)


_LOSSY = {"sub", "subn", "replace", "translate", "lower", "upper", "casefold", "title", "capitalize", "swapcase", "strip", "lstrip", "rstrip", "removeprefix", "removesuffix", "split", "rsplit", "partition", "rpartition", "expandtabs", "encode"}
_TRANSPARENT = {"join", "map", "list", "tuple", "str", "iter"}


def check_name_injective(ctx: Ctx, fi: FuncInfo):
    """MP-formals-provenance (injectivity): qubit i of the export is identified by the text printed for it.  The text
    must be an injective function of the qubit's name: the name itself, or the name with fixed text around it.  A
    string operation that can map two different names to one text (regex substitution, replace, translate, case
    folding, stripping, slicing) makes two qubits share one formal parameter."""
    pm = fi.pm
    seen = 0
    for c in q.calls(fi.node):
        if not (dotted(c.func) or "").endswith("get_key_by_index"):
            continue
        seen += 1
        node, bad, unknown = c, None, None
        while node in pm:
            par = pm[node]
            if isinstance(par, (ast.stmt, ast.Lambda, ast.comprehension)):
                break
            if isinstance(par, ast.Call):
                fn = par.func
                nm = fn.attr if isinstance(fn, ast.Attribute) else (fn.id if isinstance(fn, ast.Name) else None)
                is_recv = isinstance(fn, ast.Attribute) and (node is fn or node is fn.value)
                if nm in _LOSSY and (is_recv or node in par.args):
                    bad = par
                    break
                if nm not in _TRANSPARENT and not (isinstance(fn, ast.Attribute) and fn.attr == "format"):
                    unknown = par
                    break
            elif isinstance(par, ast.Subscript) and node is par.value:
                bad = par
                break
            elif isinstance(par, (ast.ListComp, ast.GeneratorExp, ast.SetComp)):
                if isinstance(par, ast.SetComp):
                    bad = par
                break
            node = par
        role = "the printed name of a qubit is an injective function of its name"
        if bad is not None:
            ctx.fail("MP-formals-provenance", fi, role, f"`{norm(bad)[:90]}` rewrites the name returned by get_key_by_index with an operation that can map two different names to the same text: two qubits then share one formal parameter / operand name and the export acts on the wrong qubit", bad)
        elif unknown is not None:
            ctx.undecided(fi.short, f"MP-formals-provenance [{role}]: the name is passed through `{norm(unknown.func)}`, which the tables do not describe ({fi.loc(unknown)})")
        else:
            ctx.ok("MP-formals-provenance", fi, role, "name used as it is", c)
    if not seen:
        raise AnchorError(fi.short, "no get_key_by_index call: the naming function of the QASM export was not found")
