"""C16 - Deutsch-Jozsa, Bernstein-Vazirani, Simon circuits meet textbook guarantees."""
from __future__ import annotations

import ast
from typing import Dict, List

from .. import fx, pat, q
from ..core import AnchorError, Ctx, FuncInfo, dotted, guard_facts, norm, walk_no_nested
from ..typestate import CircuitProgram, apply, flatten, state_at_first_oracle
from . import c10

ID = "C16"
TECHNIQUE = (
    "typestate of the input register and output qubit ({0,1,+,-,T} with the transfer table of x/h/z) through each "
    "constructor read as a circuit-building program; twin comparison of decoders; effect analysis of the black box"
)
EXPLANATION = (
    "Decides, for each of DeutschJozsa, BernsteinVazirani, Simon: (TS-PREP) when the black-box circuit is appended the "
    "input register is in |+> and (DJ, BV) the output qubit in |-> - reached by any route the automaton accepts "
    "(x;h or h;z) - exactly one black box is appended, after it every input qubit receives exactly one more h and "
    "nothing else touches the registers; the argument checks (one argument; bool result for DJ/BV) dominate; the "
    "algorithm circuit has the black box's qubit count so `+=` places qubit i on qubit i; (SB-TWIN) decoders read the "
    "input register with the argument's type and length, output_qubits is the input register; (FX-PARAM) the function "
    "handed in is not modified; (DP-TABLE) secret_oracle generates the xor of x[i]&s[i] over all i; (MP-threshold) "
    "decode_counts applies its threshold to the summed counts of the decoded outcomes, not to the raw readings.  It does NOT "
    "decide the black box's own correctness (C02/C03/C06), on which the textbook guarantee also rests, nor any "
    "probability."
)
NOT_DECIDED = "the black box's own correctness; output distributions"
MIN_OBLIGATIONS = 30

ALGOS = {
    "algorithms.deutschjozsa.DeutschJozsa": {"out": "-", "bool": True},
    "algorithms.bernsteinvazirani.BernsteinVazirani": {"out": "-", "bool": True},
    "algorithms.simon.Simon": {"out": "0", "bool": False},
}


def run(ctx: Ctx):
    from . import c05 as _c05

    ctx.section(_c05.check_counts_threshold, ctx)
    from .. import memo as _memo

    ctx.section(_memo.check_memo_keys, ctx, ('algorithms.', 'qcircuit.'))
    an = fx.effects(ctx)
    for cname, spec in ALGOS.items():
        ci = ctx.repo.cls(cname)
        init = ci.methods.get("__init__")
        if init is None:
            raise AnchorError(cname + ".__init__", "not found")
        check_sandwich(ctx, init, spec)
        check_decoders(ctx, ci, "self.f")
        rep = fx.PurityReport(ctx, "FX-PARAM", c10.designed_mutators(ctx))
        fx.check_params_pure(ctx, "FX-PARAM", an, init, ["f"], rep, c10.EXEMPT_ORIGINS)
        rep.flush()
    check_secret_oracle(ctx)
    # DJ verdict
    dj = ctx.repo.func("algorithms.deutschjozsa.DeutschJozsa.decode_output")
    # (verdict, condition it is returned under) pairs, whichever way the two-way choice is spelled
    outs = []
    for r in q.returns(dj):
        v = r.value
        base = [(norm(e).replace(" ", ""), pol) for e, pol in guard_facts(dj, r)]
        if isinstance(v, ast.IfExp):
            t = norm(v.test).replace(" ", "")
            outs.append((norm(v.body), base + [(t, True)]))
            outs.append((norm(v.orelse), base + [(t, False)]))
        elif v is not None:
            outs.append((norm(v), base))
    verd = {o: c for o, c in outs}
    if set(verd) != {"'Constant'", "'Balanced'"}:
        ctx.undecided(dj.short, f"decode_output returns {sorted(verd)}: not the two verdicts 'Constant' / 'Balanced'")
    else:
        zero = lambda conds, want: any(f.endswith("==0") and pol == want for f, pol in conds) or any(f.endswith("!=0") and pol != want for f, pol in conds)
        ctx.check(zero(verd["'Constant'"], True) and zero(verd["'Balanced'"], False), "SB-TWIN", dj, "all-zero outcome means Constant", str(outs)[:100], f"the Deutsch-Jozsa verdict is not `Constant iff the input register reads 0` (returns {outs})", dj.node)


def check_sandwich(ctx: Ctx, init: FuncInfo, spec: Dict):
    prog = CircuitProgram(init)
    events = prog.run()
    st, idx, flat = state_at_first_oracle(events, ("in", "out"))
    unplaced = [e for e in flat if "?loop" in e[1:]]
    if unplaced:
        raise AnchorError(init.short, f"gates emitted in a loop over an iterable outside the tables: {_show(unplaced)}")
    subset = [e for e in flat if "in~" in e[1:]]
    ctx.check(not subset, "TS-PREP", init, "no gate layer is restricted to a run-time-selected subset of the qubits", "", f"{_show(subset)}: the loop visits only the qubits passing a run-time filter - the Hadamard sandwich must cover every input qubit for every f", init.node)
    n_or = sum(1 for e in flat if e[0] == "ORACLE")
    if n_or == 0:
        # the constructor applies the black box through code the typestate program cannot follow: not a verdict
        ctx.undecided(init.short, f"no black-box application found among the circuit operations of the constructor ({_show(flat)}): the circuit is built by code outside the tables")
        return
    ctx.check(n_or == 1, "TS-PREP", init, "exactly one black-box application", f"events: {_show(flat)}", f"{n_or} black-box applications in {_show(flat)}", init.node)
    if st is None:
        return
    ctx.check(st["in"] == "+", "TS-PREP", init, "input register in |+> at the black box", f"state {st}", f"input register is in state {st['in']} when the black box is applied (events before: {_show(flat[:idx])})", init.node)
    ctx.check(st["out"] == spec["out"], "TS-PREP", init, f"output qubit in |{spec['out']}> at the black box", f"state {st}", f"output qubit is in state {st['out']} (expected {spec['out']}) when the black box is applied (events before: {_show(flat[:idx])}): no phase kick-back", init.node)
    after = flat[idx + 1:]
    st2 = {"in": "+", "out": "0"}
    for e in after:
        apply(st2, e)
    h_in = [e for e in after if e == ("h", "in")]
    other = [e for e in after if e != ("h", "in")]
    ctx.check(len(h_in) == 1 and not other, "TS-PREP", init, "closing Hadamard layer on the input register, nothing else", _show(after), f"after the black box the constructor emits {_show(after)}: every input qubit must get exactly one h and no other gate may touch the registers", init.node)
    unknown = [e for e in flat if "?" in e[1:]]
    ctx.check(not unknown, "TS-PREP", init, "every gate acts on a known register", "", f"gates on qubits the analysis cannot place: {_show(unknown)}", init.node)
    # argument checks dominate the construction
    first_gate = None
    for n in walk_no_nested(init.node):
        if isinstance(n, ast.Assign) and norm(n.targets[0]) == "self._qcircuit":
            first_gate = n
    if first_gate is None:
        raise AnchorError(init.short, "main circuit assignment not found")
    facts = [(norm(e), pol) for e, pol in guard_facts(init, first_gate)]
    ctx.check(any((not pol) and f.replace(" ", "") == "len(f.args)!=1" for f, pol in facts), "TS-PREP", init, "exactly one argument required", "", f"no dominating `len(f.args) != 1 -> raise` (guards {facts})", first_gate)
    if spec["bool"]:
        ctx.check(any((not pol) and "f.returns.ttype" in f and "bool" in f for f, pol in facts), "TS-PREP", init, "bool result required", "", "no dominating check that f returns bool: `_ret` would not be a single qubit", first_gate)
    v = first_gate.value
    a0 = q.arg(v, 0, "num_qubits") if isinstance(v, ast.Call) else None
    ctx.check(a0 is not None and norm(a0) in ("self.f.num_qubits", "f.num_qubits"), "TS-PREP", init, "same qubit count as the black box", norm(a0) if a0 is not None else "", "the algorithm circuit is not created with the black box's qubit count: `+=` maps qubit i to qubit i", first_gate)
    sz = [n for n in walk_no_nested(init.node) if isinstance(n, ast.Assign) and norm(n.targets[0]) == "self.search_space_size"]
    ctx.check(len(sz) == 1 and norm(sz[0].value) == "len(f.args[0])", "TS-PREP", init, "input register = bits of the argument", "", "search_space_size is not len(f.args[0])", init.node)


def _show(evs) -> str:
    return "[" + ", ".join(e[0] + ("" if len(e) < 2 or e[1] is None else "(" + ",".join(str(x) for x in e[1:]) + ")") for e in evs) + "]"


def check_decoders(ctx: Ctx, ci, holder: str):
    oq = ci.methods.get("output_qubits")
    do = ci.methods.get("decode_output")
    if oq is None or do is None:
        raise AnchorError(ci.qualname, "output_qubits / decode_output not found")
    binds = {n.targets[0].id: n.value for n in walk_no_nested(oq.node) if isinstance(n, ast.Assign) and isinstance(n.targets[0], ast.Name)}
    r = q.returns(oq)
    v = norm(r[0].value) if r else ""
    for k, b in binds.items():
        v = v.replace(k, norm(b))
    ctx.check(v.replace(" ", "") == f"list(range(len({holder}.args[0])))", "SB-TWIN", oq, "output qubits = the input register", v, f"output_qubits is `{v}`, not the qubits of the argument", oq.node)
    calls = [c for c in q.calls(do.node) if (dotted(c.func) or "").endswith("interpret_as_qtype")]
    ba = q.bound_args(ctx.repo, calls[0], ("out", "qtype", "out_len")) if len(calls) == 1 else None
    al = pat.path_aliases(do.node)
    ok = ba is not None and all(a is not None for a in ba) and [pat.tx(a, al) for a in ba] == [do.params[1], f"{holder}.args[0].ttype", f"len({holder}.args[0])"]
    ctx.check(ok, "SB-TWIN", do, "decodes the reading as the argument's type and width", norm(calls[0]) if calls else "", "decode_output does not interpret the measured string with the argument's type and bit length", do.node)


def check_secret_oracle(ctx: Ctx):
    fi = ctx.repo.func("algorithms.bernsteinvazirani.secret_oracle")
    joins = [c for c in q.calls(fi.node) if isinstance(c.func, ast.Attribute) and c.func.attr == "join"]
    ok = False
    why = "xor-join not found"
    xj = [j for j in joins if isinstance(j.func.value, ast.Constant) and isinstance(j.func.value.value, str) and j.func.value.value.strip() == "^"]
    if len(xj) != 1:
        ctx.undecided(fi.short, f"the generated predicate is not assembled by one '^'.join(...) ({len(xj)} found)")
        return
    joins = xj
    g0 = joins[0].args[0]
    if isinstance(g0, ast.Name):
        # a list filled by a loop: terms.append(<elt>) for i in range(n)
        apps = [c for c in q.method_calls(fi.node, "append") if norm(c.func.value) == g0.id]
        lp = [l for l in q.for_loops(fi.node) if apps and q.contains(l, apps[0])]
        if len(apps) == 1 and len(lp) == 1 and len(lp[0].body) == 1:
            g0 = ast.ListComp(elt=apps[0].args[0], generators=[ast.comprehension(target=lp[0].target, iter=lp[0].iter, ifs=[], is_async=0)])
        else:
            ctx.undecided(fi.short, "the terms of the generated predicate are collected in a form outside the tables")
            return
    if len(joins) == 1:
        g = g0
        if isinstance(g, (ast.GeneratorExp, ast.ListComp)):
            elt = norm(g.elt)
            it = norm(g.generators[0].iter).replace(" ", "")
            i = norm(g.generators[0].target)
            ok = f"x[{{{i}}}]" in elt and f"s[{{{i}}}]" in elt and "&" in elt and it == f"range({fi.params[0]})"
            why = f"element `{elt}` over `{it}`"
    ctx.check(ok, "DP-TABLE", fi, "generated predicate is XOR_i x[i] & s[i] over all bits", "", f"the generated oracle source is not the bitwise inner product with the secret ({why})", fi.node)
    txt = norm(fi.node)
    ctx.check("Qint{isize}({secret})".replace("isize", fi.params[0]).replace("secret", fi.params[1]) in txt and f"Qint[{{{fi.params[0]}}}]" in txt, "DP-TABLE", fi, "secret and argument have the declared width", "", "the secret constant / argument type do not use the requested width", fi.node)
