"""C07 - Calling one compiled function from another is function composition."""
from __future__ import annotations

import ast
from typing import Dict, List, Optional, Set

from .. import memo, fx, q
from ..core import AnchorError, Ctx, FuncInfo, dotted, guard_facts, norm, walk_no_nested
from ..rewrite import single_bindings

ID = "C07"
TECHNIQUE = (
    "effect analysis (freshness of to_logicfun, purity of bind_function), sanitizer-flow of defs through to_logicfun, "
    "simultaneity of multi-symbol substitutions, taint of call-site substitution keys, dominance of the arity check, "
    "recognised inlining idiom"
)
EXPLANATION = (
    "Decides: (FX-FRESH/FX-SELF) QlassF.to_logicfun returns a deep copy and does not touch the callee; (FX-FLOW) every "
    "QlassF that reaches translate_ast as a definition has passed through to_logicfun(); (FX-PARAM) Env.bind_function "
    "does not modify the LogicFun it is given; (MP-latest-def) a second definition of a name replaces the first or is "
    "rejected, never silently dropped; (MP-ret-order) to_logicfun hands the callee's expressions over in definition "
    "order (no ordering of names as text); (RW-SUBST) alpha-renaming, inlining and call-site binding are "
    "simultaneous substitutions (xreplace, or subs with the keyword spelt as sympy spells it) and no subs() call "
    "passes a keyword sympy would silently ignore; (RW-KEYS) the formal->actual map is keyed by the callee's formal "
    "bits only, never by names taken from the caller's actual argument; (MP-arity-check) the argument-count check "
    "dominates the substitution; (RW-INLINE) the callee body is compressed to its return bits by sequential inlining. "
    "It does NOT decide that composed expressions equal the Python composition on all inputs."
)
NOT_DECIDED = "equality of the caller's expressions with the Python composition on all inputs"
MIN_OBLIGATIONS = 13

BIND = "ast2logic.env.Env.bind_function"
TEXP = "ast2logic.t_expression.translate_expression"


def run(ctx: Ctx):
    # functions defined inline are normalised by the same rewriter, sharing its environment with the caller
    from . import c01 as _c01

    ctx.section(_c01.check_const_table, ctx)
    an = fx.effects(ctx)
    memo.check_memo_keys(ctx, ('ast2logic.', 'qlassfun.QlassF.to_logicfun', 'qlassfun.QlassF.from_function', 'qlassfun.qlassf', 'boolopt.', 'algorithms.qalgorithm'))
    repo = ctx.repo
    tl = repo.func("qlassfun.QlassF.to_logicfun")
    # whether the result is a fresh copy is informational: what the property needs is that nothing reachable from
    # the callee is modified downstream (FX-PARAM on bind_function below, and on the entry points in C10)
    st = an.summaries[tl.qualname]
    ctx.ok("FX-FLOW", tl, "to_logicfun result", f"fresh={st.ret_fresh} aliases={sorted(st.ret)}", tl.node, nontrivial=False)
    rep = fx.PurityReport(ctx, "FX-SELF")
    fx.check_params_pure(ctx, "FX-SELF", an, tl, ["self"], rep)
    rep.flush()
    bf = repo.func(BIND)
    rep = fx.PurityReport(ctx, "FX-PARAM")
    fx.check_params_pure(ctx, "FX-PARAM", an, bf, ["deff"], rep)
    rep.flush()
    check_defs_flow(ctx)
    check_subst(ctx, bf)
    ctx.section(check_rename_injective, ctx, bf)
    check_call_site(ctx)
    check_inline_idiom(ctx, bf)
    check_subs_keywords(ctx)
    ctx.section(check_rebinding, ctx, bf)
    ctx.section(check_return_order, ctx)


def check_rebinding(ctx: Ctx, bf: FuncInfo):
    """MP-latest-def: Python resolves a call to the most recent definition of the name.  bind_function may reject a
    second definition of a name or replace the first; returning early because the NAME IS ALREADY A KNOWN FUNCTION
    keeps the first definition and silently drops the newer one - every later call is inlined with the wrong body."""
    dp = bf.params[1] if len(bf.params) > 1 else "deff"
    n = 0
    for r in q.returns(bf):
        if r.value is not None and not (isinstance(r.value, ast.Constant) and r.value.value is None):
            continue
        for e, pol in guard_facts(bf, r):
            t = norm(e).replace(" ", "")
            if pol and "know_function(" in t and f"{dp}[0]" in t:
                n += 1
                ctx.fail("MP-latest-def", bf, "a second definition of a name replaces the first or is rejected", f"`{norm(e)}` makes bind_function return without recording the definition: the name stays bound to its FIRST definition, while Python calls the most recent one (a helper redefined between two calls, a nested def shadowing a function passed in defs)", r)
    if not n:
        ctx.ok("MP-latest-def", bf, "a second definition of a name replaces the first or is rejected", "no early return under `the name is already a known function`", bf.node)


def check_return_order(ctx: Ctx):
    """MP-ret-order: bind_function keeps the LAST len(returns) expressions of the callee by position and the call site
    pairs them with the return bits by position.  to_logicfun must hand the expressions over in definition order: a
    re-ordering by symbol NAME is lexicographic (`_ret.10` sorts before `_ret.2`) and permutes the result bits of a
    callee with more than ten of them."""
    tl = ctx.repo.func("qlassfun.QlassF.to_logicfun")
    bad = None
    for c in q.calls(tl.node):
        nm = c.func.id if isinstance(c.func, ast.Name) else (c.func.attr if isinstance(c.func, ast.Attribute) else None)
        if nm in ("sorted", "sort"):
            key = next((k.value for k in c.keywords if k.arg == "key"), None)
            kt = norm(key) if key is not None else ""
            numeric = "int(" in kt
            if not numeric:
                bad = c
    ctx.check(bad is None, "MP-ret-order", tl, "the callee's expressions are handed over in definition order", "no re-ordering by name", f"`{norm(bad)[:80] if bad is not None else ''}` re-orders the callee's expressions by name: names compare as text, so `_ret.10` comes before `_ret.2`, while bind_function and the call site take the return expressions by position - a callee with more than ten result bits returns them permuted", bad)


def check_defs_flow(ctx: Ctx):
    """every value passed as `defs` towards translate_ast comes from to_logicfun()"""
    repo = ctx.repo
    n = 0
    for fi in repo.functions.values():
        if fi.parent is not None:
            continue
        binds = single_bindings(fi)
        for c in q.calls(fi.node):
            d = dotted(c.func) or ""
            if d.split(".")[-1] not in ("from_function",):
                continue
            dv = q.arg(c, 2, "defs")
            if dv is None:
                continue
            n += 1
            src = dv
            if isinstance(src, ast.Name) and src.id in binds:
                src = binds[src.id]
            txt = norm(src)
            ok = False
            if isinstance(src, ast.Name) and src.id in fi.params and fi.short.endswith("from_function"):
                ok = True
            # list(map(lambda q: q.to_logicfun(), defs)) / [x.to_logicfun() for x in defs] / [qf.to_logicfun()] / [lf] with lf = qf.to_logicfun()
            calls_tl = [x for x in ast.walk(src) if isinstance(x, ast.Call) and isinstance(x.func, ast.Attribute) and x.func.attr == "to_logicfun"]
            if calls_tl:
                ok = True
            if isinstance(src, ast.List):
                ok = True
                for e in src.elts:
                    ev = binds.get(e.id) if isinstance(e, ast.Name) else e
                    chain = 0
                    while isinstance(ev, ast.Name) and ev.id in binds and chain < 5:
                        ev = binds[ev.id]
                        chain += 1
                    has = ev is not None and any(isinstance(x, ast.Call) and isinstance(x.func, ast.Attribute) and x.func.attr == "to_logicfun" for x in ast.walk(ev))
                    # `lf = (name,) + lf[1:]` re-packing of a to_logicfun() result
                    if not has and isinstance(e, ast.Name):
                        assigns = [a.value for a in walk_no_nested(fi.node) if isinstance(a, ast.Assign) and any(isinstance(t, ast.Name) and t.id == e.id for t in a.targets)]
                        has = any(any(isinstance(x, ast.Call) and isinstance(x.func, ast.Attribute) and x.func.attr == "to_logicfun" for x in ast.walk(a)) for a in assigns)
                    ok = ok and has
            ctx.check(ok, "FX-FLOW", fi, f"defs passed to from_function: {txt[:50]}", "derived from to_logicfun() copies", f"`{txt}` hands QlassF internals (or something not produced by to_logicfun) to the translator, which binds and renames definitions", c)
    if n < 2:
        raise AnchorError("qlassfun.qlassf", f"only {n} from_function call sites with defs found (qlassf and oraclize confirmed by hand)")


def _multi_subst_calls(fi: FuncInfo):
    for c in q.calls(fi.node):
        if isinstance(c.func, ast.Attribute) and c.func.attr in ("subs", "xreplace", "replace"):
            yield c


def check_subst(ctx: Ctx, bf: FuncInfo):
    """substitutions in bind_function (incl. its nested helpers) are simultaneous"""
    n = 0
    for c in _multi_subst_calls(bf):
        n += 1
        owner = bf
        for nf in bf.nested.values():
            if q.contains(nf.node, c):
                owner = nf
        role = f"{norm(c)[:60]}"
        if c.func.attr == "xreplace":
            ctx.ok("RW-SUBST", owner, role, "xreplace substitutes all keys at once", c)
            continue
        if c.func.attr == "subs":
            simultaneous = any(k.arg == "simultaneous" and isinstance(k.value, ast.Constant) and k.value.value is True for k in c.keywords)
            if len(c.args) == 2:
                # single pair: sequential iff inside a loop re-assigning the same expression
                par = owner.pm.get(c)
                loop = None
                cur = c
                while cur in owner.pm:
                    cur = owner.pm[cur]
                    if isinstance(cur, (ast.For, ast.While)):
                        loop = cur
                        break
                reassign = isinstance(par, ast.Assign) and isinstance(par.targets[0], ast.Name) and isinstance(c.func.value, ast.Name) and par.targets[0].id == c.func.value.id
                ctx.check(not (loop is not None and reassign), "RW-SUBST", owner, role, "single substitution", "a loop re-applies subs() to its own result, one symbol at a time: an image produced by an earlier step (e.g. f_x) is substituted again when a later key equals it, and the outcome depends on set iteration order", c)
            else:
                ctx.check(simultaneous, "RW-SUBST", owner, role, "simultaneous=True", "subs() with a mapping substitutes the pairs one after another: when an image mentions another key (callee re-binds or swaps its arguments) that key is substituted inside the image too", c)
    if n < 2:
        raise AnchorError(bf.short, f"only {n} substitution calls found in bind_function (rename + inline confirmed by hand)")


def known_function_branch(ctx: Ctx):
    fi = ctx.repo.func(TEXP)
    for n in walk_no_nested(fi.node):
        if isinstance(n, ast.If) and "know_function" in norm(n.test):
            return fi, n
    raise AnchorError(TEXP, "`Known function` branch (env.know_function(...)) not found")


def check_call_site(ctx: Ctx):
    fi, br = known_function_branch(ctx)
    # substitution application
    apps = [c for s in br.body for c in q.calls(s) if isinstance(c.func, ast.Attribute) and c.func.attr in ("subs", "xreplace")]
    if not apps:
        raise AnchorError(TEXP, "no substitution in the Known function branch")
    for c in apps:
        role = f"call-site binding {norm(c)[:50]}"
        if c.func.attr == "xreplace":
            ctx.ok("RW-SUBST", fi, role, "xreplace substitutes all formal bits at once", c)
        else:
            simultaneous = any(k.arg == "simultaneous" and isinstance(k.value, ast.Constant) and k.value.value is True for k in c.keywords)
            ctx.check(simultaneous, "RW-SUBST", fi, role, "simultaneous=True", "formal->actual pairs are substituted one after another: swapped or clashing names (g(g_b, g_a)) are substituted twice", c)
    # arity check dominates
    first = apps[0]
    facts = [(norm(e), pol) for e, pol in guard_facts(fi, first)]
    ok = any((not pol) and "len(args)" in f and "!=" in f for f, pol in facts) or any(pol and "len(args)" in f and "==" in f for f, pol in facts)
    ctx.check(ok, "MP-arity-check", fi, "argument count checked before binding", "len(args) != len(formals) raises first", f"the substitution is not dominated by the argument-count check (guards: {[f for f, _ in facts][-4:]})", first)
    # keys: taint from `.name` of the actual
    map_name = norm(first.args[0]) if first.args else None
    loops = [l for l in q.for_loops(br) if isinstance(l.iter, ast.Call) and isinstance(l.iter.func, ast.Name) and l.iter.func.id == "zip"]
    if not loops or map_name is None:
        raise AnchorError(TEXP, "formal/actual zip loop not found in the Known function branch")
    loop = loops[0]
    if not (isinstance(loop.target, ast.Tuple) and len(loop.target.elts) == 2):
        raise AnchorError(TEXP, "zip loop target is not (actual, formal)")
    zargs = [norm(a) for a in loop.iter.args]
    tnames = [norm(t) for t in loop.target.elts]
    actual = tnames[0] if "args" in zargs[0] else tnames[1]
    formal = tnames[1] if actual == tnames[0] else tnames[0]
    tainted: Set[str] = set()
    changed = True
    while changed:
        changed = False
        for n in ast.walk(loop):
            tg = None
            val = None
            if isinstance(n, ast.Assign) and isinstance(n.targets[0], ast.Name):
                tg, val = n.targets[0].id, n.value
            elif isinstance(n, ast.For) and n is not loop:
                # for fbit, abit in zip(formal.bitvec, actual[1]): positional pairing carries no name taint
                continue
            if tg is None or tg in tainted:
                continue
            if _name_tainted(val, actual, tainted):
                tainted.add(tg)
                changed = True
    stores = [n for n in ast.walk(loop) if isinstance(n, ast.Assign) and isinstance(n.targets[0], ast.Subscript) and norm(n.targets[0].value) == map_name]
    if not stores:
        raise AnchorError(TEXP, f"no store into the substitution map `{map_name}`")
    for st in stores:
        key = st.targets[0].slice
        bad = _name_tainted(key, actual, tainted)
        uses_formal = formal in q.names_in(key) or any(nm in q.names_in(key) for nm in _derived_from(loop, formal))
        ctx.check(
            (not bad) and uses_formal, "RW-KEYS", fi, f"key {norm(key)[:40]}",
            "key built from the formal argument only",
            (f"the key `{norm(key)}` is built from the name of the caller's actual argument (via {sorted(tainted) or actual + '.name'}): "
             "passing anything whose bits are not named <var>.<i> (a tuple element, a renamed value) leaves the callee's formal bits unsubstituted")
            if bad else f"the key `{norm(key)}` is not derived from the formal argument `{formal}`",
            st,
        )


def _derived_from(loop, name: str) -> Set[str]:
    out = {name}
    changed = True
    while changed:
        changed = False
        for n in ast.walk(loop):
            if isinstance(n, ast.For) and n is not loop and isinstance(n.iter, ast.Call):
                # for fbit, abit in zip(fa.bitvec, a[1])
                if isinstance(n.iter.func, ast.Name) and n.iter.func.id == "zip" and isinstance(n.target, ast.Tuple):
                    for t, src in zip(n.target.elts, n.iter.args):
                        if isinstance(t, ast.Name) and t.id not in out and (q.names_in(src) & out):
                            out.add(t.id)
                            changed = True
            if isinstance(n, ast.Assign) and isinstance(n.targets[0], ast.Name) and n.targets[0].id not in out and (q.names_in(n.value) & out):
                out.add(n.targets[0].id)
                changed = True
    return out


def _name_tainted(e, actual: str, tainted: Set[str]) -> bool:
    """e mentions `.name` of something derived from the actual, or a tainted local"""
    if e is None:
        return False
    for n in ast.walk(e):
        if isinstance(n, ast.Name) and n.id in tainted:
            return True
        if isinstance(n, ast.Attribute) and n.attr == "name":
            r = n.value
            while isinstance(r, (ast.Attribute, ast.Subscript, ast.Call)):
                r = r.func if isinstance(r, ast.Call) else r.value
            if isinstance(r, ast.Name) and (r.id == actual or r.id in tainted):
                return True
    return False


def check_inline_idiom(ctx: Ctx, bf: FuncInfo):
    """the callee body is compressed to its return bits: for s, e in exprs: e' = e[map]; map[s] = e'; keep (s, e');
    result = last len(returns)"""
    loops = [l for l in q.for_loops(bf.node) if isinstance(l.target, ast.Tuple) and len(l.target.elts) == 2]
    good = None
    for l in loops:
        s, e = (norm(x) for x in l.target.elts)
        sub = [n for n in l.body if isinstance(n, ast.Assign) and isinstance(n.value, ast.Call) and isinstance(n.value.func, ast.Attribute) and n.value.func.attr in ("subs", "xreplace") and norm(n.value.func.value) == e and n.value.args]
        if not sub:
            continue
        new_e = norm(sub[0].targets[0])
        mp = norm(sub[0].value.args[0])
        upd = [n for n in l.body if isinstance(n, ast.Assign) and norm(n.targets[0]) == f"{mp}[{s}]" and norm(n.value) == new_e]
        app = [c for c in q.method_calls(l, "append") if c.args and isinstance(c.args[0], ast.Tuple) and [norm(x) for x in c.args[0].elts] == [s, new_e]]
        if upd and app and l.body.index(sub[0]) < l.body.index(upd[0]):
            good = (l, norm(app[0].func.value))
    if good is None:
        # look for the same idiom with the substitution nested in the store (`d[s] = e.xreplace(d)`), else undecided
        for l in loops:
            s, e = (norm(x) for x in l.target.elts)
            st = [n for n in l.body if isinstance(n, ast.Assign) and isinstance(n.targets[0], ast.Subscript) and norm(n.targets[0].slice) == s]
            for n in st:
                mp = norm(n.targets[0].value)
                v = q.value_at(l.body, n, n.value) or n.value
                if isinstance(v, ast.Call) and isinstance(v.func, ast.Attribute) and v.func.attr in ("subs", "xreplace") and norm(v.func.value) == e and v.args and norm(v.args[0]) == mp:
                    app = [c for c in q.method_calls(l, "append") if c.args and isinstance(c.args[0], ast.Tuple) and len(c.args[0].elts) == 2 and norm(c.args[0].elts[0]) == s]
                    if app:
                        good = (l, norm(app[0].func.value))
    if good is None:
        any_sub = any(isinstance(c.func, ast.Attribute) and c.func.attr in ("subs", "xreplace") for l in loops for c in q.calls(l))
        if any_sub or not loops:
            ctx.undecided(bf.short, "sequential inlining of the callee body: the `e' = e[map]; map[s] = e'; keep (s, e')` idiom is written in a form outside the tables")
        else:
            ctx.fail("RW-INLINE", bf, "sequential inlining of the callee body", "the callee's intermediate definitions are not inlined into its return expressions before the call-site substitution (free callee locals would leak into the caller)", bf.node)
    else:
        ctx.ok("RW-INLINE", bf, "sequential inlining of the callee body", "e' = e[map]; map[s] = e'; keep (s, e')", bf.node)
    if good is None:
        return
    lst = good[1]
    sl = [n for n in walk_no_nested(bf.node) if isinstance(n, ast.Subscript) and norm(n.value) == lst and isinstance(n.slice, ast.Slice)]
    D = bf.params[1] if len(bf.params) > 1 else "deff"
    verdicts = []
    for x in sl:
        lo = x.slice.lower
        if x.slice.upper is not None or x.slice.step is not None or lo is None:
            verdicts.append((False, norm(x)))
            continue
        st_ = q.enclosing_stmt(bf, x)
        lo_v = q.value_at(bf.body, st_, lo) if st_ is not None else None
        lo_t = norm(q.fold_tuple_index(lo_v if lo_v is not None else lo)).replace(" ", "")
        verdicts.append((lo_t == f"-len({D}[2])", norm(x)))
    if not sl:
        ctx.undecided(bf.short, f"the bound definition is not built from a tail slice of `{lst}`")
    else:
        ok = any(v for v, _ in verdicts)
        ctx.check(ok, "RW-INLINE", bf, "only the return bits are kept", f"{lst}[-len(returns):]", f"the bound definition keeps `{verdicts[0][1]}`, not exactly the last len(returns) expressions", bf.node)


def check_subs_keywords(ctx: Ctx):
    """exact, repo-wide: sympy's subs() silently ignores unknown keywords"""
    n = 0
    for fi in ctx.repo.functions.values():
        if fi.parent is not None:
            continue
        for c in q.calls(fi.node):
            if isinstance(c.func, ast.Attribute) and c.func.attr == "subs" and c.keywords:
                n += 1
                bad = [k.arg for k in c.keywords if k.arg not in ("simultaneous",)]
                ctx.check(not bad, "RW-SUBST", fi, f"keywords of {norm(c)[:50]}", "", f"subs() is given the keyword(s) {bad}, which sympy silently ignores (did you mean simultaneous=True?)", c)
    ctx.ok("RW-SUBST", None, "no subs() call carries an unknown keyword", f"{n} keyword-carrying subs() calls in the tree", construct="qlasskit")


def check_rename_injective(ctx: Ctx, bf):
    """RW-RENAME: the callee's argument names, argument bits, defined symbols and free symbols are all renamed by the
    same injective naming function `<callee name>_<original>`.  A naming expression that depends on the original
    name in any other way (a condition, a slice, a lookup) can send two names of the callee to one symbol."""
    pfx = f"{bf.params[1]}[0]"
    names = []  # (naming expression, the variable that stands for the original name, node)
    for fn_ in [bf] + list(bf.nested.values()):
        for c in q.calls(fn_.node, nested=False):
            d = (dotted(c.func) or "").split(".")[-1]
            if d == "Symbol" and c.args:
                names.append((c.args[0], c))
            elif d == "Arg" and c.args:
                names.append((c.args[0], c))
                if len(c.args) >= 3:
                    bv = q.strip_wrappers(c.args[2])
                    if isinstance(bv, ast.Call) and isinstance(bv.func, ast.Name) and bv.func.id == "map" and bv.args and isinstance(bv.args[0], ast.Lambda):
                        names.append((bv.args[0].body, bv))
                    elif isinstance(bv, ast.Call) and isinstance(bv.func, ast.Name) and bv.func.id == "map" and bv.args and isinstance(bv.args[0], ast.Name) and _nested_def(bf, bv.args[0].id) is not None:
                        from ..normalize import _expr_of_body

                        ex = _expr_of_body(_nested_def(bf, bv.args[0].id).body)
                        if ex is None:
                            ctx.undecided(bf.short, f"naming function `{bv.args[0].id}` is not a single expression")
                        else:
                            names.append((ex, bv))
                    elif isinstance(bv, (ast.ListComp, ast.GeneratorExp)):
                        names.append((bv.elt, bv))
                    else:
                        ctx.undecided(bf.short, f"renamed bit names `{norm(bv)[:60]}` are not built by a map/comprehension over the original bits")
    if len(names) < 4:
        ctx.undecided(bf.short, f"only {len(names)} naming expressions found in bind_function (argument name, argument bits, defined symbol, free symbols)")
        return
    resolved = []
    for e, node in names:
        if isinstance(e, ast.Call) and isinstance(e.func, ast.Name) and _nested_def(bf, e.func.id) is not None:
            from ..normalize import _expr_of_body

            ex = _expr_of_body(_nested_def(bf, e.func.id).body)
            if ex is not None:
                e = ex
        resolved.append((e, node))
    for e, node in resolved:
        t = norm(e).replace(" ", "").replace('"', "'")
        good = False
        if isinstance(e, ast.JoinedStr) and len(e.values) == 3 and isinstance(e.values[0], ast.FormattedValue) and isinstance(e.values[1], ast.Constant) and isinstance(e.values[2], ast.FormattedValue):
            good = norm(e.values[0].value) == pfx and isinstance(e.values[1].value, str) and len(e.values[1].value) >= 1 and e.values[2].conversion == -1 and e.values[0].conversion == -1
        elif isinstance(e, ast.BinOp) and isinstance(e.op, ast.Add):
            good = pfx in norm(e.left) and not any(isinstance(x, (ast.IfExp, ast.Subscript)) and x is not e.left for x in ast.walk(e.right))
        cond = any(isinstance(x, (ast.IfExp,)) for x in ast.walk(e)) or any(isinstance(x, ast.Call) and isinstance(x.func, ast.Attribute) and x.func.attr in ("startswith", "endswith", "replace", "removeprefix", "lstrip", "strip") for x in ast.walk(e))
        if good:
            ctx.ok("RW-RENAME", bf, f"`{t[:50]}` = <callee>_<original>", "injective", node)
        elif cond:
            ctx.fail("RW-RENAME", bf, "callee symbols are renamed by one injective naming function", f"the new name is `{norm(e)[:110]}`: it depends on the shape of the original name, so two different names of the callee (x and <callee>_x) can be sent to the same symbol and the callee's formal and local bits collapse", node)
        else:
            ctx.undecided(bf.short, f"naming expression `{norm(e)[:80]}` is not `<callee name>_<original name>`")


def _nested_def(fi, name: str):
    for n in ast.walk(fi.node):
        if isinstance(n, (ast.FunctionDef,)) and n.name == name and n is not fi.node:
            return n
    return None
