"""C01 - Boolean expressions mean what the Python source means."""
from __future__ import annotations

import ast
import itertools
from typing import Dict, List, Optional, Set, Tuple

from .. import pat, q
from ..boolterm import Converter, Undecided, atom, equivalent, head_name, mk, show
from ..core import order_key, AnchorError, ClassInfo, Ctx, FuncInfo, dotted, guard_facts, norm, returns_or_raises_everywhere, walk_no_nested
from . import c09

ID = "C01"
TECHNIQUE = (
    "fail-closed dispatch and field-coverage of every AST handler (against the Python grammar), operator/builtin table "
    "agreement with the language definition, derived comparators evaluated over the trichotomy, fold identities, "
    "antisymmetry of order comparators, widening/equalising discipline, polarity/offset dataflow of the AST "
    "normalisations, boolean idioms interpreted over their atoms"
)
EXPLANATION = (
    "Decides: (DP-CLOSED) every translator chain (translate_expression, translate_statement, translate_argument) ends "
    "each path in a value or an exception and its final else raises; (DP-FIELDS) every AST handler (the translators' "
    "isinstance branches, ASTRewriter/ConstantFolder/ReplaceMultiTargetAssign visit_* methods) mentions every semantic "
    "field of the node class it consumes - nothing outside the subset is silently dropped; (DP-OPS) every "
    "(Python operator, implementation) pair in the operator tables, comparator list, BinOp/BoolOp/UnaryOp chains and "
    "builtin expansions (any/all/min/max/sum/**) is the pair the language definition fixes, with operands in order; "
    "(SB-ORDER3) lt/lte/gte are correct definitions over gt/eq on every ordering of two values; (SB-FOLDID) folds "
    "start from the identity of their operator; (SB-ANTISYM) an order comparator does not treat the excess bits of "
    "its two operands by mirror-image code; (SB-WIDEN) conditional widening always fills the narrower operand with "
    "the wider one's type, the return coercion fills when narrower and crops when wider; (SB-EQUALISE) a comparator "
    "that zips two bit vectors handles or excludes unequal widths; (MP-polarity) if->if-expression keeps then/else, "
    "evaluates the condition once into a fresh temporary, `a op= b` becomes `a op b`, index unrolling compares with the "
    "index it selects, loops unroll forward; (RW-IDIOM) _eq/_neq/half and full adder are the boolean functions they "
    "are named after and the ripple adder threads its carry; (OR-EXT) fill/crop/shift act on the side LSB-first order "
    "dictates.  It does NOT decide the arithmetic circuits as a whole (multiplier, mul by even constants, mixed-width "
    "sub, modulo), sympy's simplify_logic, nor the composition of passes on arbitrary programs."
)
NOT_DECIDED = "the arithmetic circuits as a whole (multiplier, mul_even_const, mixed-width sub, mod); simplify_logic; composition of passes"
MIN_OBLIGATIONS = 150

# ---- the language definition (not repository text)
EXEMPT_FIELDS = {"ctx", "type_comment", "kind", "type_params", "simple", "decorator_list", "lineno", "col_offset"}
OP_IMPL = {
    "Add": {"add", "operator.add"}, "Sub": {"sub", "operator.sub"}, "Mult": {"mul", "operator.mul"},
    "Div": {"operator.truediv"}, "FloorDiv": {"operator.floordiv"}, "Mod": {"mod", "operator.mod"},
    "Pow": {"operator.pow"}, "LShift": {"shift_left", "operator.lshift"}, "RShift": {"shift_right", "operator.rshift"},
    "BitOr": {"bitwise_or", "operator.or_", "Or"}, "BitXor": {"bitwise_xor", "operator.xor", "Xor"},
    "BitAnd": {"bitwise_and", "operator.and_", "And"},
    "Eq": {"eq", "operator.eq"}, "NotEq": {"neq", "operator.ne"}, "Lt": {"lt", "operator.lt"}, "LtE": {"lte", "operator.le"},
    "Gt": {"gt", "operator.gt"}, "GtE": {"gte", "operator.ge"}, "Is": {"operator.is_"}, "IsNot": {"operator.is_not"},
    "UAdd": {"operator.pos"}, "USub": {"operator.neg"}, "Not": {"operator.not_", "Not"}, "Invert": {"operator.invert", "bitwise_not"},
    "And": {"And"}, "Or": {"Or"},
}

TE = "ast2logic.t_expression.translate_expression"
TS = "ast2logic.t_statement.translate_statement"
RW = "ast2ast.astrewriter.ASTRewriter"
CF = "ast2ast.constantfolder.ConstantFolder"


def run(ctx: Ctx):
    from . import c07 as _c07

    ctx.section(_c07.check_rebinding, ctx, ctx.repo.func(_c07.BIND))
    from .. import memo as _memo

    ctx.section(_memo.check_memo_keys, ctx, ('ast2ast.', 'ast2logic.', 'types.'))
    repo = ctx.repo
    te, ts = repo.func(TE), repo.func(TS)
    ctx.section(check_closed, ctx, te, ts)
    ctx.section(check_fields_translators, ctx, te, ts)
    ctx.section(check_fields_visitors, ctx)
    ctx.section(check_ops_constantfolder, ctx)
    ctx.section(check_ops_translate_expression, ctx, te)
    ctx.section(check_builtin_expansions, ctx)
    ctx.section(check_comparators, ctx)
    ctx.section(check_widening, ctx, te, ts)
    ctx.section(check_polarity, ctx, te)
    ctx.section(check_idioms, ctx)
    ctx.section(c09.check_extension_ops, ctx, repo.cls("types.qtype.Qtype"))
    ctx.section(check_pipeline, ctx)
    ctx.section(check_const_table, ctx)
    ctx.section(check_mod_mask, ctx)


# ------------------------------------------------------------------------------------- DP-CLOSED
    ctx.section(check_modmask, ctx)


def check_closed(ctx: Ctx, te: FuncInfo, ts: FuncInfo):
    for fi in (te, ts, ctx.repo.func("ast2logic.t_arguments.translate_argument")):
        ok, off = returns_or_raises_everywhere(fi.body)
        ctx.check(ok, "DP-CLOSED", fi, "every path returns a value or raises", "", f"a path through {fi.name} falls off the end or returns nothing ({fi.loc(off) if off is not None else 'end of function'}): a construct outside the subset is translated to None instead of being rejected", off)
        top = [s for s in fi.body if isinstance(s, ast.If)]
        if not top:
            raise AnchorError(fi.short, "dispatch chain not found")
        chain, els = q.dispatch_chain(fi.body)
        if els is None or len(chain) < 4:
            raise AnchorError(fi.short, f"the dispatch is neither one if/elif chain nor a sequence of returning ifs ({len(chain)} branches read)")
        ctx.check(bool(els) and isinstance(els[-1], ast.Raise), "DP-CLOSED", fi, "final else raises", "", "what follows the last dispatch test does not raise: an unknown construct is not rejected", top[-1])
    # sub-chains inside translate_expression: UnaryOp, BinOp, Call end in raise
    chain, _ = q.dispatch_chain(te.body)
    for test, body in chain:
        hs = q.isinstance_heads(test, te.params[0])
        for h in hs:
            if h in ("UnaryOp", "BinOp", "Call", "Compare", "Constant"):
                ok, off = returns_or_raises_everywhere(body)
                ctx.check(ok, "DP-CLOSED", te, f"{h} branch: every path returns or raises", "", f"the {h} branch lets an unsupported form fall through", off if off is not None else test)
    # translate_statement: Assign rejects multi-target / non-name
    for test, body in q.dispatch_chain(ts.body)[0]:
        if "ast.Assign" in norm(test):
            S = ts.params[0]
            uses = [n for s_ in body for n in ast.walk(s_) if isinstance(n, ast.Attribute) and n.attr == "id" and pat.t(n.value) == f"{S}.targets[0]"]
            if not uses:
                ctx.undecided(ts.short, "Assign: the target name is not read as `<stmt>.targets[0].id`")
            else:
                facts = [(pat.t(e), pol) for e, pol in guard_facts(ts, uses[0])]
                one = any((not pol) and f in (f"len({S}.targets)>1", f"len({S}.targets)!=1") for f, pol in facts) or any(pol and f == f"len({S}.targets)==1" for f, pol in facts)
                name = any(pol and f == f"isinstance({S}.targets[0],ast.Name)" for f, pol in facts)
                ctx.check(one and name, "DP-CLOSED", ts, "Assign: multiple / non-name targets rejected", "", f"the target name is used without `{'more than one target' if not one else 'a non-name target'}` having been rejected first (guards {facts}): `a = b = e` / `a[0] = e` / `a.x = e` would be translated as if they were `a = e`", uses[0])
        if "ast.If" in norm(test):
            ctx.check(any(isinstance(s, ast.Raise) for s in body), "DP-CLOSED", ts, "If statements that survive normalisation are rejected", "", "", test)


# ------------------------------------------------------------------------------------- DP-FIELDS


def semantic_fields(cls_name: str) -> List[str]:
    k = getattr(ast, cls_name, None)
    if k is None:
        raise AnchorError(f"ast.{cls_name}", "unknown AST class")
    return [f for f in k._fields if f not in EXEMPT_FIELDS]


def fields_mentioned(nodes, var: str, helpers: Optional[Dict[str, FuncInfo]] = None, depth=0) -> Set[str]:
    out: Set[str] = set()
    for root in nodes:
        for n in ast.walk(root):
            if isinstance(n, ast.Attribute) and isinstance(n.value, ast.Name) and n.value.id == var:
                out.add(n.attr)
            if isinstance(n, ast.Call) and helpers and depth < 2:
                # node handed to a helper: the helper's reads count
                for i, a in enumerate(n.args):
                    if isinstance(a, ast.Name) and a.id == var:
                        hn = (dotted(n.func) or "").split(".")[-1]
                        hp = helpers.get(hn)
                        if hp is not None:
                            ps = hp.params[1:] if hp.has_self else hp.params
                            if i < len(ps):
                                out |= fields_mentioned(hp.body, ps[i], helpers, depth + 1)
    return out


def passes_whole(nodes, var: str) -> bool:
    """the node is handed on as a whole (generic_visit / another translator)"""
    for root in nodes:
        for n in ast.walk(root):
            if isinstance(n, ast.Call) and any(isinstance(a, ast.Name) and a.id == var for a in n.args):
                d = dotted(n.func) or ""
                if d.endswith("generic_visit") or d.endswith("translate_ast") or d.endswith("dump") or d.endswith("Exception"):
                    if not d.endswith("dump") and not d.endswith("Exception"):
                        return True
    return False


FIELD_EXEMPT = {
    (TE, "Call", "keywords"): "a keyword can only stand for a positional argument, which the arity checks of every Call sub-branch then miss and reject, or the call is invalid Python for the identity wrapper Q",
    (TS, "FunctionDef", "*"): "inner function definitions are handed whole to translate_ast",
}


def check_fields_translators(ctx: Ctx, te: FuncInfo, ts: FuncInfo):
    for fi in (te, ts):
        var = fi.params[0]
        chain, _ = q.if_chain([s for s in fi.body if isinstance(s, ast.If)][-1])
        n = 0
        for test, body in chain:
            hs = [h for h in q.isinstance_heads(test, var) if hasattr(ast, h)]
            for h in hs:
                n += 1
                if (fi.short, h, "*") in FIELD_EXEMPT:
                    ctx.ok("DP-FIELDS", fi, f"{h}: handed on whole", FIELD_EXEMPT[(fi.short, h, "*")], test, nontrivial=False)
                    continue
                if all(isinstance(s, ast.Raise) or (isinstance(s, ast.Expr) and isinstance(s.value, ast.Constant)) for s in body):
                    ctx.ok("DP-FIELDS", fi, f"{h}: rejected", "the branch only raises", test, nontrivial=False)
                    continue
                got = fields_mentioned(body, var, dict(fi.nested))
                missing = [f for f in semantic_fields(h) if f not in got and (fi.short, h, f) not in FIELD_EXEMPT]
                ctx.check(not missing, "DP-FIELDS", fi, f"{h}: every semantic field is accounted for", f"reads {sorted(got & set(semantic_fields(h)))}", f"the {h} branch never looks at `{var}.{', '.join(missing)}`: source that uses it is translated as if it were absent, instead of being rejected", test)
                for f in semantic_fields(h):
                    if (fi.short, h, f) in FIELD_EXEMPT and f not in got:
                        ctx.ok("DP-FIELDS", fi, f"{h}.{f}: exempt", FIELD_EXEMPT[(fi.short, h, f)], test, nontrivial=False)
        if n < 4:
            raise AnchorError(fi.short, f"only {n} AST classes dispatched")


def check_fields_visitors(ctx: Ctx):
    repo = ctx.repo
    total = 0
    for cname in (RW, CF, "ast2ast.replacemultitargetassign.ReplaceMultiTargetAssign", "ast2ast.replacetypeann.ReplaceTypeAnn", "ast2ast.astrewriter.NameValReplacer"):
        ci = repo.cls(cname)
        helpers = {n: m for n, m in ci.methods.items()}
        for mn, mi in sorted(ci.methods.items()):
            if not mn.startswith("visit_") or not hasattr(ast, mn[6:]):
                continue
            h = mn[6:]
            var = mi.params[1]
            total += 1
            rets = q.returns(mi)
            builds = any(not (isinstance(r.value, ast.Name) and r.value.id == var) and not (isinstance(r.value, ast.Call) and norm(r.value.func).endswith("generic_visit")) for r in rets if r.value is not None) or any(r.value is None for r in rets)
            if not builds:
                ctx.ok("DP-FIELDS", mi, f"{h}: node returned whole on every path", "in-place edits of its own fields only", mi.node, nontrivial=False)
                continue
            got = fields_mentioned(mi.body, var, helpers)
            missing = [f for f in semantic_fields(h) if f not in got]
            if h == "FunctionDef":
                missing = [f for f in missing if f not in ("name", "body")] if passes_whole(mi.body, var) else missing
            if passes_whole(mi.body, var) and all(isinstance(r.value, ast.Call) and (dotted(r.value.func) or "").endswith("generic_visit") for r in rets):
                missing = []
            ctx.check(not missing, "DP-FIELDS", mi, f"{h}: every semantic field is accounted for", f"reads {sorted(got & set(semantic_fields(h)))}", f"{mn} builds a replacement for the {h} node but never looks at `{var}.{', '.join(missing)}`: that part of the source silently disappears from the translated function", mi.node)
    if total < 15:
        raise AnchorError(RW, f"only {total} visit_* handlers found (about 20 confirmed by hand)")


# ------------------------------------------------------------------------------------- DP-OPS


def op_ok(ast_cls: str, impl: str) -> bool:
    return impl in OP_IMPL.get(ast_cls, set())


def check_ops_constantfolder(ctx: Ctx):
    ci = ctx.repo.cls(CF)
    n = 0
    for mn in ("visit_Compare", "visit_UnaryOp", "visit_BinOp"):
        mi = ci.methods.get(mn)
        if mi is None:
            raise AnchorError(f"{CF}.{mn}", "not found")
        for d in [x for x in walk_no_nested(mi.node) if isinstance(x, ast.Dict)]:
            for k, v in zip(d.keys, d.values):
                kn = (dotted(k) or "").split(".")[-1]
                if isinstance(v, ast.Lambda):
                    body = norm(v.body).replace(" ", "")
                    a = [x.arg for x in v.args.args]
                    want = {"In": f"{a[0]}in{a[1]}", "NotIn": f"{a[0]}notin{a[1]}"}.get(kn)
                    ctx.check(want is not None and body == want, "DP-OPS", mi, f"{kn} -> lambda {norm(v.body)}", "", f"ast.{kn} is folded by `{norm(v)}`", v)
                else:
                    impl = dotted(v) or norm(v)
                    ctx.check(op_ok(kn, impl), "DP-OPS", mi, f"{kn} -> {impl}", "", f"ast.{kn} is folded with `{impl}`, which is a different operator", v)
                n += 1
        # operands in order
        tbl = [n.targets[0].id for n in walk_no_nested(mi.node) if isinstance(n, ast.Assign) and isinstance(n.targets[0], ast.Name) and any(isinstance(x, ast.Dict) for x in ast.walk(n.value))]
        is_op = lambda c: isinstance(c.func, ast.Name) and c.func.id in tbl
        if mn == "visit_BinOp":
            pat.args_rule(ctx, "DP-OPS", mi, "operands in source order", is_op, ["node.left.value", "node.right.value"], "the folded operator is not applied as op(left, right)", what="application of the looked-up operator")
        if mn == "visit_Compare":
            c = pat.args_rule(ctx, "DP-OPS", mi, "single comparison, operands in source order", is_op, ["node.left.value", "node.comparators[0].value"], "the folded comparison is not applied as op(left, comparator)", what="application of the looked-up operator")
            if c is not None:
                facts = [(pat.t(e), pol) for e, pol in guard_facts(mi, c)]
                ctx.check(any(pol and f in ("len(node.ops)==1", "len(node.comparators)==1") for f, pol in facts), "DP-OPS", mi, "only single comparisons are folded", "", f"a chained comparison `a < b < c` would be folded from its first pair only (guards {facts})", c)
    if n < 25:
        raise AnchorError(CF, f"only {n} operator table entries found (26 confirmed by hand)")
    ini = ci.methods.get("__init__")
    for d in [x for x in walk_no_nested(ini.node) if isinstance(x, ast.Dict)]:
        for k, v in zip(d.keys, d.values):
            ctx.check(isinstance(k, ast.Constant) and norm(v) == k.value, "DP-OPS", ini, f"builtin '{k.value}' folded by {norm(v)}", "", f"the name `{k.value}` is folded with the builtin `{norm(v)}`", v)
    cf_if = ci.methods.get("visit_IfExp")
    alts = {}
    for x in q.returns(cf_if):
        base = [(pat.t(e), pol) for e, pol in guard_facts(cf_if, x)]
        for v, conds in ([(x.value.body, base + [(pat.t(x.value.test), True)]), (x.value.orelse, base + [(pat.t(x.value.test), False)])] if isinstance(x.value, ast.IfExp) else [(x.value, base)]):
            if pat.t(v) in ("node.body", "node.orelse"):
                alts.setdefault(pat.t(v), []).append([p_ for f, p_ in conds if f == "node.test.value"])
    if set(alts) != {"node.body", "node.orelse"} or any(len(v) != 1 or len(v[0]) != 1 for v in alts.values()):
        ctx.undecided(cf_if.short, "constant if-expression folding: the two branches are not each returned under one test of node.test.value")
    else:
        ctx.check(alts["node.body"][0][0] is True and alts["node.orelse"][0][0] is False, "MP-polarity", cf_if, "constant condition: true -> body, false -> orelse", "", "a constant if-expression is folded to the wrong branch: the body is returned when the condition is false", cf_if.node)
    cf_i = ci.methods.get("visit_If")
    ifs = [x for x in walk_no_nested(cf_i.node) if isinstance(x, ast.If) and norm(x.test) == "node.test.value"]
    ok = len(ifs) == 1 and norm(ifs[0].body[0]) == "return node.body" and norm(ifs[0].orelse[0]) == "return node.orelse"
    ctx.check(ok, "MP-polarity", cf_i, "constant if statement: true -> body, false -> orelse", "", "", cf_i.node)


def check_ops_translate_expression(ctx: Ctx, te: FuncInfo):
    var = te.params[0]
    # comparator list
    lst = [n for n in walk_no_nested(te.node) if isinstance(n, ast.Assign) and norm(n.targets[0]) == "comparators" and isinstance(n.value, ast.List)]
    if len(lst) != 1:
        raise AnchorError(TE, "comparators table not found")
    pairs = []
    for e in lst[0].value.elts:
        k = (dotted(e.elts[0]) or "").split(".")[-1]
        v = e.elts[1].value if isinstance(e.elts[1], ast.Constant) else norm(e.elts[1])
        pairs.append(k)
        ctx.check(op_ok(k, v), "DP-OPS", te, f"compare {k} -> '{v}'", "", f"the Python comparison {k} is translated with the comparator method `{v}`", e)
    ctx.check(sorted(pairs) == ["Eq", "Gt", "GtE", "Lt", "LtE", "NotEq"], "DP-OPS", te, "all six comparisons present once", str(pairs), f"comparator table covers {pairs}", lst[0])
    call = [c for c in q.calls(te.node) if isinstance(c.func, ast.Call) and norm(c.func.func) == "getattr" and len(c.func.args) == 2 and norm(c.func.args[1]) == "comp_name"]
    if len(call) != 1:
        ctx.undecided(te.short, f"DP-OPS [comparator applied to (left, right) in source order]: {len(call)} applications `getattr(T, comp_name)(..)` of the looked-up comparator")
    else:
        cargs = [norm(a) for a in call[0].args]
        if cargs == ["tleft", "tcomp"]:
            ctx.ok("DP-OPS", te, "comparator applied to (left, right) in source order", str(cargs), call[0])
        elif cargs == ["tcomp", "tleft"]:
            ctx.fail("DP-OPS", te, "comparator applied to (left, right) in source order", "the comparator is applied to swapped operands", call[0])
        else:
            ctx.undecided(te.short, f"DP-OPS [comparator applied to (left, right) in source order]: applied to {cargs}")
    lr = [n for n in walk_no_nested(te.node) if isinstance(n, ast.Assign) and norm(n.targets[0]) in ("tleft", "tcomp", "tright")]
    srcs = {norm(n.targets[0]): norm(n.value) for n in lr}
    ctx.check(f"{var}.left" in srcs.get("tleft", "") and f"{var}.comparators[0]" in srcs.get("tcomp", "") and f"{var}.right" in srcs.get("tright", ""), "DP-OPS", te, "tleft/tcomp/tright come from left/comparators[0]/right", "", f"operand bindings: {srcs}", te.node)
    # BinOp chain
    n = 0
    for iff in [x for x in walk_no_nested(te.node) if isinstance(x, ast.If)]:
        t = iff.test
        ops = []
        for c in ast.walk(t):
            if isinstance(c, ast.Call) and isinstance(c.func, ast.Name) and c.func.id == "isinstance" and norm(c.args[0]) == f"{var}.op":
                ops.append((dotted(c.args[1]) or "").split(".")[-1])
        if len(ops) != 1:
            continue
        k = ops[0]
        if not hasattr(ast, k):
            continue  # the class is a variable: a table-driven dispatch, decided from its table below
        rets = [r for r in iff.body if isinstance(r, ast.Return)]
        if not rets:
            continue
        v = rets[0].value
        n += 1
        if isinstance(v, ast.Tuple) and len(v.elts) == 2 and isinstance(v.elts[1], ast.Call):
            # bool chain: return (bool, Xor(l, r))
            impl = head_name(v.elts[1].func) or "?"
            args = [norm(a) for a in v.elts[1].args]
            ctx.check(op_ok(k, impl) and args in (["tleft[1]", "tright[1]"], ["exp"]), "DP-OPS", te, f"bool {k} -> {impl}", str(args), f"on bools, Python `{k}` is translated to `{norm(v.elts[1])}`", rets[0])
        elif isinstance(v, ast.Call) and isinstance(v.func, ast.Attribute):
            impl = v.func.attr
            args = [norm(a) for a in v.args]
            has = [c for c in ast.walk(t) if isinstance(c, ast.Call) and isinstance(c.func, ast.Name) and c.func.id == "hasattr"]
            has_ok = all(c.args[1].value == impl for c in has)
            want_args = [["tleft", "tright"], ["tleft", f"{var}.right.value"], ["(texp, exp)"]]
            ctx.check(op_ok(k, impl) and has_ok and args in want_args, "DP-OPS", te, f"{k} -> .{impl}({', '.join(args)})", "", f"Python `{k}` is translated by `{norm(v)[:60]}` (guard {[norm(c) for c in has]})", rets[0])
    # table-driven spelling: `for op_class, impl[, ..] in TABLE: if isinstance(expr.op, op_class) ...: return impl-applied`
    for l_ in q.for_loops(te.node, nested=True):
        if not (isinstance(l_.target, ast.Tuple) and len(l_.target.elts) >= 2 and all(isinstance(e_, ast.Name) for e_ in l_.target.elts) and isinstance(l_.iter, ast.Name)):
            continue
        cls_v, impl_v = l_.target.elts[0].id, l_.target.elts[1].id
        tests = [c for c in ast.walk(l_) if isinstance(c, ast.Call) and isinstance(c.func, ast.Name) and c.func.id == "isinstance" and len(c.args) == 2 and norm(c.args[0]) == f"{var}.op" and norm(c.args[1]) == cls_v]
        if not tests:
            continue
        tbl = te.module.globals_assigned.get(l_.iter.id) if te.module is not None else None
        if not isinstance(tbl, (ast.Tuple, ast.List)) or not all(isinstance(r_, (ast.Tuple, ast.List)) and len(r_.elts) >= 2 for r_ in tbl.elts):
            ctx.undecided(te.short, f"DP-OPS: operator table `{l_.iter.id}` is not a module-level literal of (ast class, implementation, ..) rows")
            continue
        for r_ in tbl.elts:
            k = (dotted(r_.elts[0]) or "").split(".")[-1]
            impl = r_.elts[1].value if isinstance(r_.elts[1], ast.Constant) else (head_name(r_.elts[1]) or norm(r_.elts[1]))
            n += 1
            ctx.check(op_ok(k, impl), "DP-OPS", te, f"{k} -> {impl} (table {l_.iter.id})", "", f"table `{l_.iter.id}` translates Python `{k}` with `{impl}`, which is a different operator", r_)
        # the looked-up implementation is applied to (left, right) in this order
        apps = [c for c in ast.walk(l_) if isinstance(c, ast.Call) and ((isinstance(c.func, ast.Name) and c.func.id == impl_v) or (isinstance(c.func, ast.Call) and norm(c.func.func) == "getattr" and len(c.func.args) == 2 and norm(c.func.args[1]) == impl_v))]
        for c in apps:
            a_ = [norm(x) for x in c.args]
            if a_ in (["tleft[1]", "tright[1]"], ["tleft", "tright"], ["tleft", f"{var}.right.value"]):
                ctx.ok("DP-OPS", te, f"table {l_.iter.id}: implementation applied to (left, right)", str(a_), c)
            elif a_ in (["tright[1]", "tleft[1]"], ["tright", "tleft"]):
                ctx.fail("DP-OPS", te, f"table {l_.iter.id}: implementation applied to (left, right)", f"`{norm(c)[:60]}` applies the operator to swapped operands", c)
            else:
                ctx.undecided(te.short, f"DP-OPS: `{norm(c)[:60]}` applies a table entry to operands outside the tables")
    if n < 12:
        raise AnchorError(TE, f"only {n} operator branches found")
    # BoolOp and unary not
    bo = [x for x in walk_no_nested(te.node) if isinstance(x, ast.IfExp) and "ast.And" in norm(x.test)]
    ok = len(bo) == 1 and norm(bo[0].body) == "And" and norm(bo[0].orelse) == "Or" and norm(bo[0].test) == f"isinstance({var}.op, ast.And)"
    if len(bo) != 1:
        ctx.undecided(te.short, "`and` -> And, `or` -> Or: the connective is not selected by one conditional expression on the operator's class")
    else:
        ctx.check(ok, "DP-OPS", te, "`and` -> And, `or` -> Or", "", f"`{norm(bo[0])}`: the boolean operator is mapped to the wrong connective", bo[0])
    unf = te.nested.get("unfold")
    if unf is None:
        raise AnchorError(TE + ".unfold", "not found")
    role = "n-ary and/or folded over all operands in order"
    vp, opp = (unf.params + ["?", "?"])[:2]
    r = q.returns(unf)[0].value
    rec_calls = [c for c in q.calls(unf.node) if isinstance(c.func, ast.Name) and c.func.id == unf.name]
    loops_u = q.for_loops(unf.node)

    def idx_of(e):
        """(sequence name, 'first' | 'last' | 'rest-forward' | 'rest-backward' | None)"""
        if not (isinstance(e, ast.Subscript) and isinstance(e.value, ast.Name)):
            return None, None
        sl = e.slice
        t = norm(sl).replace(" ", "")
        kind = {"0": "first", "-1": "last", "1:": "rest-forward", "1::": "rest-forward", "-2::-1": "rest-backward", ":-1": "init-forward", ":-1:": "init-forward"}.get(t)
        return e.value.id, kind

    if rec_calls and isinstance(r, ast.IfExp):
        # op(v[0], unfold(v[1:], op)) if len(v) > 1 else v[0]
        b, o = r.body, r.orelse
        okb = isinstance(b, ast.Call) and norm(b.func) == opp and len(b.args) == 2
        parts = []
        if okb:
            for a_ in b.args:
                if isinstance(a_, ast.Call) and isinstance(a_.func, ast.Name) and a_.func.id == unf.name and a_.args:
                    parts.append(idx_of(a_.args[0])[1])
                else:
                    parts.append(idx_of(a_)[1])
        good = okb and sorted(str(x) for x in parts) in (["first", "rest-forward"], ["init-forward", "last"]) and idx_of(o)[1] in ("first", "last")
        if okb and None in parts:
            ctx.undecided(unf.short, f"DP-OPS [{role}]: the recursive fold splits its operands in a way outside the tables (`{norm(r)[:70]}`)")
        else:
            ctx.check(good, "DP-OPS", unf, role, norm(r)[:60], f"`{norm(r)[:90]}` drops or repeats operands: the fold must combine one end of the list with the fold of ALL the others", unf.node)
    elif len(loops_u) == 1 and not rec_calls:
        # acc = v[-1]; for x in v[-2::-1]: acc = op(x, acc)   /   acc = v[0]; for x in v[1:]: acc = op(acc, x)
        l_ = loops_u[0]
        steps = [s_ for s_ in l_.body if isinstance(s_, ast.Assign) and len(s_.targets) == 1 and isinstance(s_.targets[0], ast.Name) and isinstance(s_.value, ast.Call) and norm(s_.value.func) == opp]
        inits = [s_ for s_ in unf.body if isinstance(s_, ast.Assign) and len(s_.targets) == 1 and isinstance(s_.targets[0], ast.Name) and steps and s_.targets[0].id == steps[0].targets[0].id]
        if len(steps) != 1 or len(inits) != 1 or not isinstance(l_.target, ast.Name) or not (isinstance(r, ast.Name) and r.id == steps[0].targets[0].id):
            ctx.undecided(unf.short, f"DP-OPS [{role}]: the loop is not one accumulating step `acc = {opp}(.., ..)` from one initial operand")
        else:
            acc, x = steps[0].targets[0].id, l_.target.id
            used = sorted(norm(a_) for a_ in steps[0].value.args)
            cover = (idx_of(inits[0].value)[1], idx_of(l_.iter)[1])
            good = used == sorted([acc, x]) and cover in (("last", "rest-backward"), ("first", "rest-forward"))
            if None in cover:
                ctx.undecided(unf.short, f"DP-OPS [{role}]: initial operand `{norm(inits[0].value)}` and loop range `{norm(l_.iter)}` are outside the tables")
            else:
                ctx.check(good, "DP-OPS", unf, role, f"{norm(inits[0])}; for {x} in {norm(l_.iter)}: {norm(steps[0])}", f"`{norm(inits[0])}` with `for {x} in {norm(l_.iter)}: {norm(steps[0])}` does not combine every operand exactly once", l_)
    elif any(isinstance(c.func, ast.Name) and c.func.id == "reduce" or (dotted(c.func) or "").endswith(".reduce") for c in q.calls(unf.node)):
        rc = [c for c in q.calls(unf.node) if (dotted(c.func) or "").split(".")[-1] == "reduce"][0]
        ctx.check(len(rc.args) >= 2 and norm(rc.args[0]) == opp and norm(rc.args[1]) == vp, "DP-OPS", unf, role, norm(rc), f"`{norm(rc)}` does not reduce the operand list with the connective", rc)
    else:
        ctx.undecided(unf.short, f"DP-OPS [{role}]: `{norm(r)[:60]}` is neither the recursive nor an accumulating fold")
    nt = [x for x in walk_no_nested(te.node) if isinstance(x, ast.If) and norm(x.test) == f"isinstance({var}.op, ast.Not)"]
    ok = len(nt) == 1 and any(isinstance(s, ast.Return) and norm(s.value) == "(bool, Not(exp))" for s in nt[0].body)
    ctx.check(ok, "DP-OPS", te, "`not` -> Not", "", "", te.node)
    # constants
    cst = [x for x in walk_no_nested(te.node) if isinstance(x, ast.If) and norm(x.test) == f"{var}.value is True"]
    ok = len(cst) == 1 and norm(cst[0].body[0]) == "return (bool, true)" and "is False" in norm(cst[0].orelse[0].test) and norm(cst[0].orelse[0].body[0]) == "return (bool, false)"
    ctx.check(ok, "DP-OPS", te, "True -> true, False -> false", "", "boolean literals are mapped to the wrong constants", te.node)
    # tuple comparison
    tc = [x for x in walk_no_nested(te.node) if isinstance(x, ast.If) and norm(x.test) == f"isinstance({var}.ops[0], ast.Eq)"]
    ok = len(tc) == 1 and norm(tc[0].body[0]) == "op = Qbool.eq" and "ast.NotEq" in norm(tc[0].orelse[0].test) and norm(tc[0].orelse[0].body[0]) == "op = Qbool.neq"
    ctx.check(ok, "DP-OPS", te, "tuple ==/!= use Qbool.eq / Qbool.neq per bit", "", "", te.node)
    # if-expression: ITE(test, then, else)
    ites = [c for c in q.calls(te.node) if head_name(c.func) == "ITE"]
    ok = len(ites) == 2 and norm(ites[0].args[0]) == "te_test[1]" and all([norm(a) for a in c.args[1:]] in (["te_true[1]", "te_false[1]"], ["t", "f"]) for c in ites)
    zp = [c for c in q.calls(te.node) if isinstance(c.func, ast.Name) and c.func.id == "zip" and "te_true" in norm(c)]
    ok = ok and len(zp) == 1 and [norm(a) for a in zp[0].args] == ["te_true[1]", "te_false[1]"]
    srcs = {norm(n.targets[0]): norm(n.value) for n in walk_no_nested(te.node) if isinstance(n, ast.Assign) and norm(n.targets[0]).startswith("te_") and "translate_expression" in norm(n.value)}
    ok = ok and f"{var}.body" in srcs.get("te_true", "") and f"{var}.orelse" in srcs.get("te_false", "") and f"{var}.test" in srcs.get("te_test", "")
    ctx.check(ok, "MP-polarity", te, "if-expression -> ITE(test, then-value, else-value), bitwise in order", "", "the branches of an if-expression are swapped or mis-paired", te.node)


def check_builtin_expansions(ctx: Ctx):
    ci = ctx.repo.cls(RW)

    def meth(suffix):
        for n, m in ci.methods.items():
            if n.endswith(suffix):
                return m
        raise AnchorError(f"{RW}.{suffix}", "not found")

    aa = meth("call_anyall")
    anyall_op = lambda e: isinstance(e, ast.IfExp) and (
        (pat.t(e.test) in ("node.func.id=='any'", "'any'==node.func.id") and pat.t(e.body) == "ast.Or()" and pat.t(e.orelse) == "ast.And()")
        or (pat.t(e.test) in ("node.func.id=='all'", "'all'==node.func.id") and pat.t(e.body) == "ast.And()" and pat.t(e.orelse) == "ast.Or()")
    )
    pat.term_rule(ctx, "DP-OPS", aa, "any -> or, all -> and, over every unrolled element", "BoolOp", {"op": anyall_op, "values": lambda e: pat.t(e).endswith("unroll_arg(node.args[0])")}, "any/all are expanded with the wrong connective or not over the unrolled elements of the argument")
    mm = meth("call_minmax")
    sel = [x for x in walk_no_nested(mm.node) if isinstance(x, ast.IfExp) and "max" in norm(x.test)]
    ok = len(sel) == 1 and norm(sel[0].test) == "node.func.id == 'max'" and norm(sel[0].body) in ("ast.Gt()", "ast.GtE()") and norm(sel[0].orelse) in ("ast.LtE()", "ast.Lt()")
    pat.frag_rule(ctx, "DP-OPS", mm, "max -> greater-than selection, min -> less-than selection", ok, [(len(sel) == 1, f"min/max select with `{norm(sel[0]) if sel else '?'}`")], mm.node)
    it = mm.nested.get("iterif")
    if it is None:
        ctx.undecided(mm.short, "selection chain helper not found")
    else:
        P = it.params[0]
        opname = sel[0] and [n.targets[0].id for n in walk_no_nested(mm.node) if isinstance(n, ast.Assign) and n.value is sel[0] and isinstance(n.targets[0], ast.Name)] if sel else []
        opname = opname[0] if opname else "op"
        comps = [c for c in ast.walk(it.node) if isinstance(c, (ast.ListComp, ast.GeneratorExp)) and pat.ctor_name(c.elt) == "Compare"]
        if len(comps) != 1:
            ctx.undecided(it.short, "the comparisons of the first element with the others are not built by one comprehension")
        else:
            g = comps[0].generators[0]
            ctx.check(pat.t(g.iter) == f"{P}[1:]" and not g.ifs, "MP-polarity", mm, "the first element is compared with every other element", norm(g.iter), f"the comparisons range over `{norm(g.iter)}`{' with a filter' if g.ifs else ''}, not over every other element", comps[0])
            pat.term_rule(ctx, "MP-polarity", mm, "comparison: first element <op> other element", "Compare", {"left": f"{P}[0]", "ops": f"[{opname}]", "comparators": f"[{pat.t(g.target)}]"}, "the comparison does not put the first element on the left and the other element on the right with the selected operator", root=comps[0])
        pat.term_rule(ctx, "MP-polarity", mm, "all comparisons must hold", "BoolOp", {"op": "ast.And()", "values": lambda e: e is not None and (comps and e is comps[0])}, "the comparisons are not combined with `and` over all of them", root=it.node)
        pat.term_rule(ctx, "MP-polarity", mm, "first element wins iff it beats every other, else recurse on the rest", "IfExp", {"test": lambda e: pat.ctor_name(e) == "BoolOp", "body": f"{P}[0]", "orelse": f"{it.name}({P}[1:])"}, "the min/max selection chain is mis-wired", root=it.node)
    sm = meth("call_sum")
    it = sm.nested.get("iterif")
    if it is None:
        ctx.undecided(sm.short, "sum chain helper not found")
    else:
        P = it.params[0]
        pat.term_rule(ctx, "DP-OPS", sm, "sum -> chain of + over every element", "BinOp", {"left": f"{P}[0]", "op": "ast.Add()", "right": f"{it.name}({P}[1:])"}, "sum is not expanded to element0 + sum(rest)", root=it.node)
        calls = [c for c in q.calls(sm.node, nested=False) if isinstance(c.func, ast.Name) and c.func.id == it.name]
        binds = pat.bindings(sm.node)
        ctx.check(len(calls) == 1 and pat.t(pat.look_through(calls[0].args[0], binds)).endswith("unroll_arg(node.args[0])"), "DP-OPS", sm, "the chain starts from all unrolled elements of the argument", "", "the sum chain is not started on the unrolled elements of the argument", sm.node)
    vb = ci.methods.get("visit_BinOp")
    check_pow(ctx, vb)
    # dispatch names
    vc = ci.methods.get("visit_Call")
    for iff in [x for x in walk_no_nested(vc.node) if isinstance(x, ast.If) and "node.func.id" in norm(x.test)]:
        t = iff.test
        names = [c.value for c in ast.walk(t) if isinstance(c, ast.Constant) and isinstance(c.value, str)]
        r = [s for s in iff.body if isinstance(s, ast.Return)]
        if not r or not isinstance(r[0].value, ast.Call):
            continue
        callee = (dotted(r[0].value.func) or "").split("call_")[-1]
        ok = all(nm in callee or callee in ("anyall", "minmax") and nm in ("any", "all", "min", "max") for nm in names)
        ok = ok and ((callee == "anyall") == (sorted(names) == ["all", "any"])) and ((callee == "minmax") == (sorted(names) == ["max", "min"]))
        ctx.check(ok, "DP-OPS", vc, f"{'/'.join(names)} -> __call_{callee}", "", f"builtin(s) {names} are expanded by __call_{callee}", iff)
    aug = ci.methods.get("visit_AugAssign")
    pat.term_rule(ctx, "MP-polarity", aug, "a op= b -> a op b (target on the left)", "BinOp", {"left": "node.target", "op": "node.op", "right": "node.value"}, "the augmented assignment is expanded with swapped operands or another operator")
    ln = meth("call_len")
    pat.term_rule(ctx, "DP-OPS", ln, "len -> number of unrolled elements", "Constant", {"value": lambda e: isinstance(e, ast.Call) and pat.t(e.func) == "len" and len(e.args) == 1 and pat.t(pat.look_through(e.args[0], pat.bindings(ln.node))).endswith("unroll_arg(node.args[0])")}, "len() is not folded to the number of unrolled elements of its argument")
    for nm in ("call_ord", "call_chr"):
        m = meth(nm)
        rets = q.returns(m)
        if len(rets) != 1:
            ctx.undecided(m.short, f"{nm[5:]}: {len(rets)} returns")
            continue
        facts = [(pat.t(e), pol) for e, pol in guard_facts(m, rets[0])]
        ctx.check(pat.t(rets[0].value) == "node.args[0]", "DP-OPS", m, f"{nm[5:]} is the identity on the 8-bit encoding", norm(rets[0]), f"`{norm(rets[0])}`: {nm[5:]}(x) must translate to x itself (Qchar and its code share one encoding)", rets[0])
        ctx.check(any((not pol) and f == "len(node.args)!=1" for f, pol in facts) or any(pol and f == "len(node.args)==1" for f, pol in facts), "DP-OPS", m, f"{nm[5:]} takes exactly one argument", "", f"extra arguments of {nm[5:]}() would be dropped silently (guards {facts})", rets[0])


# ------------------------------------------------------------------------------------- comparators


def check_comparators(ctx: Ctx):
    repo = ctx.repo
    for cname in ("types.qint.QintImp", "types.qfixed.QfixedImp"):
        ci = repo.cls(cname)
        defs: Dict[str, tuple] = {}

        def term_of(name: str, depth=0):
            if depth > 4:
                raise Undecided("recursive comparator definitions")
            mi = ci.methods.get(name)
            if mi is None:
                raise AnchorError(f"{cname}.{name}", "comparator not found")
            a, b = mi.params[-2], mi.params[-1]
            r = q.returns(mi)
            if len(r) != 1 or not isinstance(r[0].value, ast.Tuple):
                raise Undecided(f"{name} does not return (bool, term)")

            def leaf(n):
                # X.cmp(p, q)[1]
                if isinstance(n, ast.Subscript) and isinstance(n.slice, ast.Constant) and n.slice.value == 1 and isinstance(n.value, ast.Call) and isinstance(n.value.func, ast.Attribute):
                    m = n.value.func.attr
                    args = [norm(x) for x in n.value.args]
                    if args == [a, b]:
                        sw = False
                    elif args == [b, a]:
                        sw = True
                    else:
                        raise Undecided(f"comparator applied to {args}")
                    if m in ("gt", "eq"):
                        return atom(("gt" if m == "gt" else "eq", sw))
                    if m in ("lt", "lte", "gte", "neq"):
                        sub = term_of(m, depth + 1)
                        return _swap(sub) if sw else sub
                return None

            return Converter(leaf).conv(r[0].value.elts[1])

        for name, true_on in (("lt", {"<"}), ("lte", {"<", "="}), ("gte", {">", "="})):
            mi = ci.methods.get(name)
            try:
                t = term_of(name)
            except Undecided as u:
                raise AnchorError(f"{cname}.{name}", str(u))
            bad = []
            for o in ("<", "=", ">"):
                env = {("gt", False): o == ">", ("gt", True): o == "<", ("eq", False): o == "=", ("eq", True): o == "="}
                from ..boolterm import ev

                val = ev(t, env)
                if val != (o in true_on):
                    bad.append(f"a {o} b gives {val}")
            ctx.check(not bad, "SB-ORDER3", mi, f"{name} is {{{','.join(sorted(true_on))}}} on every ordering", show(t), f"`{name}` is defined as {show(t)} over gt/eq; on a total order that is wrong: {'; '.join(bad)}", mi.node)
        # gt: antisymmetry of the excess handling; eq/neq: symmetric
        gt = ci.methods.get("gt")
        check_antisym(ctx, gt)
        check_gt_core(ctx, gt)
    # folds
    n = 0
    for cname in ("types.qint.QintImp", "types.qfixed.QfixedImp", "types.qchar.Qchar"):
        ci = repo.cls(cname)
        for name in ("eq", "neq"):
            mi = ci.methods.get(name)
            if mi is None:
                raise AnchorError(f"{cname}.{name}", "not found")
            n += check_fold(ctx, mi)
            check_equalise(ctx, ci, mi)
            check_bitwise_cmp(ctx, mi, name)
    te = repo.func(TE)
    n += check_fold(ctx, te)
    if n < 7:
        raise AnchorError("types", f"only {n} folds found (7 confirmed by hand)")
    qb = repo.cls("types.qbool.Qbool")
    for name, want in (("eq", "_eq"), ("neq", "_neq")):
        mi = qb.methods.get(name)
        ok = norm(q.returns(mi)[0].value).replace(" ", "") == f"(tleft[0],{want}(tleft[1],tcomp[1]))"
        ctx.check(ok, "DP-OPS", mi, f"Qbool.{name} -> {want}", "", "", mi.node)


def _swap(t):
    k = t[0]
    if k == "atom":
        return atom((t[1][0], not t[1][1]))
    if k == "const":
        return t
    if k == "not":
        return ("not", _swap(t[1]))
    if k in ("and", "or", "xor"):
        return (k, tuple(_swap(x) for x in t[1]))
    return (k,) + tuple(_swap(x) for x in t[1:])


def _excess_blocks(mi: FuncInfo):
    out = []
    for n in walk_no_nested(mi.node):
        if isinstance(n, ast.If) and isinstance(n.test, ast.Compare) and len(n.test.ops) == 1 and isinstance(n.test.ops[0], (ast.Gt, ast.Lt)):
            l, r = norm(n.test.left), norm(n.test.comparators[0])
            if l.startswith("len(") and r.startswith("len("):
                out.append((n, l[4:-1], r[4:-1], isinstance(n.test.ops[0], ast.Gt)))
    return out


def check_antisym(ctx: Ctx, gt: FuncInfo):
    blocks = _excess_blocks(gt)
    if len(blocks) != 2:
        raise AnchorError(gt.short, f"{len(blocks)} excess-width blocks found, expected 2")
    (n1, a1, b1, g1), (n2, a2, b2, g2) = blocks
    if not (a1 == a2 and b1 == b2 and g1 != g2):
        raise AnchorError(gt.short, "excess-width blocks are not `len(A) > len(B)` / `len(A) < len(B)` on the same operands")
    body1 = " ".join(norm(s) for s in n1.body)
    body2 = " ".join(norm(s) for s in n2.body)
    mirrored = body2.replace(a1, "\0").replace(b1, a1).replace("\0", b1)
    ctx.check(body1 != mirrored, "SB-ANTISYM", gt, "excess bits of the two operands are not treated by mirror-image code", "an order relation is antisymmetric", f"when the left operand is wider the code does `{body1[:70]}`, and when the right operand is wider it does the mirror image `{body2[:70]}`: a set high bit of the RIGHT operand then makes `left > right` true", n2)
    # the wider-left block ORs the excess in, the wider-right block must force false
    left_wider = n1 if g1 else n2
    right_wider = n2 if g1 else n1
    lw, rw = " ".join(norm(s) for s in left_wider.body), " ".join(norm(s) for s in right_wider.body)
    for blk, want_op, neg, role, why in (
        (left_wider, "Or", False, "extra high bits on the left make it greater", "a set excess bit of the LEFT operand must make `left > right` true"),
        (right_wider, "And", True, "extra high bits on the right make it not greater", "a set excess bit of the RIGHT operand must make `left > right` false"),
    ):
        inner = q.for_loops(blk, nested=True)
        fs = q.fold_step(inner[0]) if len(inner) == 1 else None
        if fs is None or not isinstance(inner[0].target, ast.Name):
            ctx.undecided(gt.short, f"{role}: the excess-bit block is not a single fold loop")
            continue
        acc, op, term = fs
        x = inner[0].target.id
        good = op == want_op and pat.t(term) == (f"Not({x})" if neg else x)
        ctx.check(good, "SB-ANTISYM", gt, role, norm(inner[0].body[0]), f"`{norm(inner[0].body[0])}`: {why}", blk)


def check_gt_core(ctx: Ctx, gt: FuncInfo):
    """most-significant-first scan: greater iff a_k and not b_k at the first differing bit"""
    loops = [l for l in q.for_loops(gt.node) if isinstance(l.target, ast.Tuple) and "zip" in norm(l.iter)]
    if len(loops) != 1:
        raise AnchorError(gt.short, "bit scan loop not found")
    l = loops[0]
    core, par = q.reversal_parity(l.iter)
    ctx.check(par == 1, "SB-ORDER3", gt, "bits scanned from the most significant down", norm(l.iter), f"`{norm(l.iter)}` scans LSB-first lists without reversing: the least significant differing bit would decide", l)
    a, b = (norm(e) for e in l.target.elts)
    role = "greater at bit k iff all higher bits equal, a_k set and b_k clear"
    is_and = lambda c: isinstance(c.func, ast.Name) and c.func.id == "And"
    first = pat.args_rule(ctx, "SB-ORDER3", gt, "most significant bit: greater iff a set and b clear", lambda c: is_and(c) and not any(isinstance(x, ast.Starred) for x in c.args), [a, f"Not({b})"], f"the first per-bit term of gt is not `{a} & ~{b}`", root=l, what="And(a, Not(b)) term")
    star = [c for c in q.calls(l) if is_and(c) and len(c.args) == 1 and isinstance(c.args[0], ast.Starred)]
    if len(star) != 1:
        ctx.undecided(gt.short, f"{role}: no single And(*<higher bits equal> + [...]) term")
    else:
        inner = star[0].args[0].value
        ok = isinstance(inner, ast.BinOp) and isinstance(inner.op, ast.Add) and isinstance(inner.left, ast.Name) and isinstance(inner.right, ast.List) and sorted(pat.t(e) for e in inner.right.elts) == sorted([a, f"Not({b})"])
        prev = inner.left.id if ok else None
        ctx.check(ok, "SB-ORDER3", gt, role, norm(star[0]), f"`{norm(star[0])}` is not `higher bits equal & {a} & ~{b}`", star[0])
        if prev:
            app = [c for c in q.method_calls(l, "append") if norm(c.func.value) == prev]
            good = len(app) == 1 and isinstance(app[0].args[0], ast.Call) and pat.t(app[0].args[0].func) == "_eq" and sorted(pat.t(x) for x in app[0].args[0].args) == sorted([a, b])
            ctx.check(good, "SB-ORDER3", gt, "every scanned bit pair joins the `higher bits equal` list", norm(app[0]) if app else "", f"`{prev}` does not collect _eq({a}, {b}) for every scanned pair", app[0] if app else l)
            par_or = gt.pm.get(star[0])
            good = isinstance(par_or, ast.Call) and pat.t(par_or.func) == "Or" and len(par_or.args) == 2 and isinstance(gt.pm.get(par_or), ast.Assign) and norm(gt.pm.get(par_or).targets[0]) in [norm(x) for x in par_or.args]
            ctx.check(good, "SB-ORDER3", gt, "per-bit terms are or-ed into the result", norm(par_or)[:60] if par_or is not None else "", "the per-bit term is not or-ed into the accumulated result", star[0])
    z = [c for c in q.calls(l.iter) if isinstance(c.func, ast.Name) and c.func.id == "zip"]
    zargs = [norm(x) for x in z[0].args] if z else []
    ctx.check(len(zargs) == 2 and ("tleft" in zargs[0] or "tl_" in zargs[0]) and ("tcomp" in zargs[1] or "tc_" in zargs[1]), "SB-ORDER3", gt, "left operand first", str(zargs), f"zip arguments {zargs}", l)


def check_fold(ctx: Ctx, mi: FuncInfo) -> int:
    n = 0
    for l in q.for_loops(mi.node, nested=False):
        for s in ast.walk(l):
            if isinstance(s, ast.Assign) and isinstance(s.targets[0], ast.Name) and isinstance(s.value, ast.Call) and head_name(s.value.func) in ("And", "Or", "Xor") and s.value.args and norm(s.value.args[0]) == s.targets[0].id:
                v = s.targets[0].id
                inits = [a for a in walk_no_nested(mi.node) if isinstance(a, ast.Assign) and isinstance(a.targets[0], ast.Name) and a.targets[0].id == v and not q.contains(l, a) and a.lineno < l.lineno and isinstance(a.value, (ast.Name, ast.Constant))]
                if not inits:
                    continue
                init = norm(inits[-1].value)
                op = head_name(s.value.func)
                want = {"And": ("true", "True"), "Or": ("false", "False"), "Xor": ("false", "False")}[op]
                key = (mi.short, l.lineno)
                n += 1
                ctx.check(init in want, "SB-FOLDID", mi, f"fold with {op} starts from {want[0]}", f"{v} = {init}", f"`{v} = {init}` is not the identity of {op}: the fold is constant ({'false' if op == 'And' else 'true'}) whatever the operands", inits[-1])
                break
    return n


def check_equalise(ctx: Ctx, ci: ClassInfo, mi: FuncInfo):
    zips = [c for c in q.calls(mi.node) if isinstance(c.func, ast.Name) and c.func.id == "zip"]
    if not zips:
        return
    handles = len(_excess_blocks(mi)) == 2 or any((dotted(c.func) or "").endswith(".fill") for c in q.calls(mi.node))
    comp = ci.find_method("comparable")
    own_only = False
    if comp is not None:
        r = q.returns(comp)
        own_only = all(norm(x.value) in ("other_type == cls",) for x in r if x.value is not None)
    ctx.check(handles or own_only, "SB-EQUALISE", mi, "operands of unequal width/layout are equalised, handled or excluded", "excess bits handled" if handles else "comparable() admits only the type itself", f"`{mi.name}` zips the two bit vectors (zip stops at the shorter) without handling the excess bits, while {ci.name}.comparable() admits operands of other widths/layouts: the high bits of the wider operand are ignored", zips[0])


def check_bitwise_cmp(ctx: Ctx, mi: FuncInfo, name: str):
    want = {"eq": ("And", "_eq"), "neq": ("Or", "_neq")}[name]
    role = f"{name}: {want[0]} over per-bit {want[1]}"
    loops = [l for l in q.for_loops(mi.node) if any(isinstance(c.func, ast.Name) and c.func.id == "zip" for c in q.calls(l.iter))]
    if len(loops) != 1:
        ctx.undecided(mi.short, f"{role}: {len(loops)} loops over zip(...)")
    else:
        fs, comps = q.fold_step(loops[0]), q.loop_components(loops[0])
        if fs is None or comps is None:
            ctx.undecided(mi.short, f"{role}: the loop body is not a single fold step `acc = OP(acc, term)`")
        else:
            acc, op, term = fs
            per = isinstance(term, ast.Call) and isinstance(term.func, ast.Name) and term.func.id == want[1] and sorted(norm(a) for a in term.args) == sorted(comps)
            ctx.check(op == want[0] and per, "DP-OPS", mi, role, norm(loops[0].body[0]), f"`{norm(loops[0].body[0])}` does not combine per-bit {want[1]}({comps[0]}, {comps[1]}) with {want[0]}", loops[0])
            unit = {"And": ("true", "True"), "Or": ("false", "False")}[want[0]]
            init = [n for n in walk_no_nested(mi.node) if isinstance(n, ast.Assign) and isinstance(n.targets[0], ast.Name) and n.targets[0].id == acc and order_key(n) < order_key(loops[0])]
            if len(init) == 1:
                ctx.check(norm(init[0].value) in unit, "SB-FOLDID", mi, f"{name}: the fold starts from the identity of {want[0]}", norm(init[0]), f"`{norm(init[0])}` is not the identity of {want[0]}: the result is constant", init[0])
            else:
                ctx.undecided(mi.short, f"{role}: {len(init)} initialisations of the accumulator before the loop")
    if len(_excess_blocks(mi)) == 2:
        for n, a, b, g in _excess_blocks(mi):
            inner = [l for l in q.for_loops(n, nested=True)]
            fs = q.fold_step(inner[0]) if len(inner) == 1 else None
            if fs is None or not isinstance(inner[0].target, ast.Name):
                ctx.undecided(mi.short, f"{name}: the excess-bit block is not a single fold loop")
                continue
            acc, op, term = fs
            x = inner[0].target.id
            good = (op == "And" and pat.t(term) == f"Not({x})") if name == "eq" else (op == "Or" and pat.t(term) == x)
            ctx.check(good, "SB-EQUALISE", mi, f"{name}: excess bits must all be clear / any set", norm(inner[0].body[0]), f"excess handling `{norm(inner[0].body[0])}`: for `{name}` an excess bit that is set must make the result {'false' if name == 'eq' else 'true'}", n)


# ------------------------------------------------------------------------------------- widening


def check_widening(ctx: Ctx, te: FuncInfo, ts: FuncInfo):
    repo = ctx.repo
    sites = [repo.func("types.qint.QintImp.add"), repo.func("types.qint.QintImp.bitwise_generic"), repo.func("types.qint.QintImp.mul"), repo.func("types.qfixed.QfixedImp.add"), te]
    n = 0
    for fi in sites:
        for iff in [x for x in walk_no_nested(fi.node) if isinstance(x, ast.If)]:
            cur = iff
            for test, body in q.if_chain(iff)[0]:
                if not (isinstance(test, ast.Compare) and len(test.ops) == 1 and isinstance(test.ops[0], (ast.Gt, ast.Lt))):
                    continue
                l, r = test.left, test.comparators[0]

                def stem(e):
                    t = norm(e)
                    for pre in ("len(", ):
                        if t.startswith(pre):
                            t = t[len(pre):-1]
                    t = t.replace(".BIT_SIZE", "")
                    if t.endswith("[1]") or t.endswith("[0]"):
                        t = t[:-3]
                    return t

                ls, rs = stem(l), stem(r)
                if ls in ("n", "m") and rs in ("n", "m"):
                    ls, rs = {"n": "tleft", "m": "tright"}[ls], {"n": "tleft", "m": "tright"}[rs]
                if not (ls and rs) or ls == rs or not any(k in norm(test) for k in ("len(", "BIT_SIZE", "n > m", "n < m")):
                    continue
                fills = [s for s in body if isinstance(s, ast.Assign) and isinstance(s.value, ast.Call) and isinstance(s.value.func, ast.Attribute) and s.value.func.attr == "fill"]
                if not fills:
                    continue
                wider, narrower = (ls, rs) if isinstance(test.ops[0], ast.Gt) else (rs, ls)
                f = fills[0]
                recv = norm(f.value.func.value)
                argt = norm(f.value.args[0])
                tgt = norm(f.targets[0])
                ok = recv.startswith(wider) and recv.endswith("[0]") and argt.startswith(narrower) and tgt.startswith(narrower)
                n += 1
                ctx.check(ok, "SB-WIDEN", fi, f"under `{norm(test)}`: {narrower} widened to {wider}'s type", norm(f), f"under `{norm(test)}` the code does `{norm(f)}`: the narrower operand ({narrower}) must be filled to the wider one's type ({wider}[0]) and re-bound", f)
    if n < 9:
        raise AnchorError("types", f"only {n} conditional widening sites found (10 confirmed by hand)")
    # return coercion
    br = [x for x in walk_no_nested(ts.node) if isinstance(x, ast.If) and "ast.Return" in norm(x.test)]
    if len(br) != 1:
        raise AnchorError(TS, "Return branch not found")
    chain = [x for x in br[0].body if isinstance(x, ast.If)]
    ok = False
    if chain:
        ch, els = q.if_chain(chain[0])
        t0, t1 = norm(ch[0][0]).replace(" ", ""), norm(ch[1][0]).replace(" ", "") if len(ch) > 1 else ""
        b0, b1 = norm(ch[0][1][0]).replace(" ", ""), norm(ch[1][1][0]).replace(" ", "") if len(ch) > 1 else ""
        ok = "texp.BIT_SIZE<ret_type.BIT_SIZE" in t0 and "ret_type.fill((texp,vexp))" in b0 and "texp.BIT_SIZE>ret_type.BIT_SIZE" in t1 and "ret_type.crop((texp,vexp))" in b1
        ok = ok and len(ch) == 3 and norm(ch[2][0]).replace(" ", "") == "texp!=ret_type" and isinstance(ch[2][1][0], ast.Raise)
    ctx.check(ok, "SB-WIDEN", ts, "returned value filled when narrower, cropped when wider, otherwise types must match", "", "the return coercion fills/crops in the wrong direction or lets a type mismatch through", br[0])


# ------------------------------------------------------------------------------------- polarity of normalisations


def check_polarity(ctx: Ctx, te: FuncInfo):
    repo = ctx.repo
    ci = repo.cls(RW)
    vi = ci.methods.get("visit_If")
    if vi is None:
        raise AnchorError(f"{RW}.visit_If", "not found")
    # condition evaluated once into a fresh temporary that every rewritten assignment tests
    tn = [n for n in walk_no_nested(vi.node) if isinstance(n, ast.Assign) and isinstance(n.targets[0], ast.Name) and "_iftarg" in norm(n.value) and "uniqd" in norm(n.value)]
    if len(tn) != 1:
        raise AnchorError(vi.short, "fresh condition temporary (`_iftarg` + unique id) not found")
    tname = tn[0].targets[0].id
    first = [n for n in walk_no_nested(vi.node) if isinstance(n, ast.Assign) and isinstance(n.value, ast.List) and any("node.test" in norm(e) for e in n.value.elts)]
    ok = len(first) == 1 and norm(first[0].value.elts[0]).replace(" ", "") == f"ast.Assign(targets=[ast.Name(id={tname})],value=self.visit(node.test))"
    ctx.check(ok, "MP-polarity", vi, "condition evaluated once, first, into a fresh temporary", f"{tname} = <test>", "the rewritten if does not start by storing the condition in a fresh temporary: assignments inside the branches could change what later branch assignments test", first[0] if first else vi.node)
    ifexps = [c for c in q.calls(vi.node) if (dotted(c.func) or "") == "ast.IfExp"]
    if len(ifexps) < 2:
        raise AnchorError(vi.short, "if-expression constructors not found")
    loops = q.for_loops(vi.node)
    by_loop = {}
    for c in ifexps:
        kw = {k.arg: k.value for k in c.keywords}
        test_ok = norm(kw.get("test")).replace(" ", "") == f"ast.Name(id={tname})" if kw.get("test") is not None else False
        ctx.check(test_ok, "MP-polarity", vi, f"rewritten assignment tests the temporary (line +{c.lineno - vi.node.lineno})", "", f"an if-expression built by visit_If tests `{norm(kw.get('test'))}` instead of the stored condition `{tname}`: the condition is re-read after assignments of the branch may have changed it", c)
        lp = [l for l in loops if q.contains(l, c)]
        which = norm(lp[0].iter) if lp else "?"
        by_loop[which] = kw
    b, o = by_loop.get("body"), by_loop.get("orelse")
    lv = {norm(l.iter): norm(l.target) for l in loops}
    if b is None or o is None or not all(k in kw_ for kw_ in (b, o) for k in ("body", "orelse")):
        ctx.undecided(vi.short, "the if-expressions are not built one in the loop over the then-branch and one in the loop over the else-branch")
    else:
        bv, ov = f"{lv.get('body')}.value", f"{lv.get('orelse')}.value"
        good = norm(b["body"]) == bv and norm(b["orelse"]) != bv and norm(o["orelse"]) == ov and norm(o["body"]) != ov
        swapped = (norm(b["orelse"]) == bv and norm(b["body"]) != bv) or (norm(o["body"]) == ov and norm(o["orelse"]) != ov)
        if good:
            ctx.ok("MP-polarity", vi, "then-assignments take effect when the condition holds, else-assignments when it does not", "", vi.node)
        elif swapped:
            ctx.check(False, "MP-polarity", vi, "then-assignments take effect when the condition holds, else-assignments when it does not", "", "the value assigned in a branch is placed on the wrong side of the generated if-expression", vi.node)
        else:
            ctx.undecided(vi.short, f"the generated if-expressions select between `{norm(b['body'])}` / `{norm(b['orelse'])}` and `{norm(o['body'])}` / `{norm(o['orelse'])}`: neither is the assigned value of the branch statement")
    srcs = {norm(n.targets[0]): norm(n.value) for n in walk_no_nested(vi.node) if isinstance(n, ast.Assign) and norm(n.targets[0]) in ("body", "orelse")}
    ctx.check("node.body" in srcs.get("body", "") and "node.orelse" in srcs.get("orelse", ""), "MP-polarity", vi, "body/orelse lists come from node.body/node.orelse", "", f"{srcs}", vi.node)
    # index unrolling
    vs = ci.methods.get("visit_Subscript")
    check_const_lookup(ctx, vs)
    ce = repo.func("ast2ast.astrewriter.create_if_exp")
    check_create_if_exp(ctx, ce)
    # for unrolling
    vf = ci.methods.get("visit_For")
    check_for_unroll(ctx, vf)
    rm = repo.func("ast2ast.replacemultitargetassign.ReplaceMultiTargetAssign.visit_Assign")
    check_multi_target(ctx, rm)
    # assignment: self-referencing reassignment goes through a temporary
    va = ci.methods.get("visit_Assign")
    check_self_reassign(ctx, va)


def check_const_lookup(ctx: Ctx, vs: FuncInfo):
    role = "constant-list lookup: element k selected iff index == k"
    lp = [l for l in q.for_loops(vs.node) if isinstance(l.iter, ast.Call) and pat.t(l.iter.func) == "enumerate" and isinstance(l.target, ast.Tuple) and len(l.target.elts) == 2]
    if len(lp) != 1:
        ctx.undecided(vs.short, f"{role}: {len(lp)} enumerate loops")
        return
    l = lp[0]
    i, x = (norm(e) for e in l.target.elts)
    src = l.iter.args[0]
    start = pat.t(l.iter.args[1]) if len(l.iter.args) > 1 else next((pat.t(k.value) for k in l.iter.keywords if k.arg == "start"), "0")
    if not (isinstance(src, ast.Subscript) and isinstance(src.slice, ast.Slice) and pat.t(src.slice.lower) == "1" and src.slice.upper is None and src.slice.step is None and isinstance(src.value, ast.Name)):
        ctx.undecided(vs.short, f"{role}: the loop does not range over <elements>[1:]")
        return
    E = src.value.id
    # element at position p of <E>[1:] is E[p + 1]: the index compared must be enumerate's counter + 1 - start
    want_cmp = {"0": [f"{i}+1", f"1+{i}"], "1": [i]}.get(start)
    if want_cmp is None:
        ctx.undecided(vs.short, f"{role}: enumerate start {start}")
        return
    binds = pat.bindings(vs.node)
    cmp_ok = lambda e: pat.is_ctor(e, "Compare", {"left": "node.slice", "ops": "[ast.Eq()]", "comparators": lambda c: pat.is_const_of(pat.only_elt(c), want_cmp, binds)}, binds)
    ife = pat.term_rule(ctx, "MP-polarity", vs, role, "IfExp", {"test": cmp_ok, "body": x}, f"the unrolled lookup does not select element `{x}` exactly when the index equals its position ({' / '.join(want_cmp)})", root=l)
    if ife is None:
        return
    asg = vs.pm.get(ife)
    acc = asg.targets[0].id if isinstance(asg, ast.Assign) and isinstance(asg.targets[0], ast.Name) else None
    orelse = pat.field(ife, "orelse")
    ctx.check(acc is not None and isinstance(orelse, ast.Name) and orelse.id == acc, "MP-polarity", vs, "the chain built so far is the else-branch of the next test", norm(ife)[:80], "the if-expression chain is not extended through its else-branch: earlier elements are lost", ife)
    base = [n for n in walk_no_nested(vs.node) if isinstance(n, ast.Assign) and acc and norm(n.targets[0]) == acc and n is not asg]
    ctx.check(len(base) == 1 and pat.t(base[0].value) == f"{E}[0]", "MP-polarity", vs, "element 0 is the default of the chain", norm(base[0]) if base else "", f"the chain does not start from `{E}[0]`", base[0] if base else l)


def check_create_if_exp(ctx: Ctx, ce: FuncInfo):
    role = "variable index: L[k] selected iff i == k, last element as default"
    inner, acc = ce.nested.get("_create_if_exp"), ce.nested.get("access_ij")
    if inner is None or acc is None:
        ctx.undecided(ce.short, f"{role}: helper functions not found")
        return
    nname, iname, max_i, jname, max_j = ce.params[:5]
    i, j = inner.params[:2]
    binds = pat.bindings(inner.node)
    cmp_i = lambda e: pat.is_ctor(e, "Compare", {"left": lambda x_: pat.is_name_of(x_, iname), "ops": "[ast.Eq()]", "comparators": lambda c: pat.is_const_of(pat.only_elt(c), i)}, binds)
    cmp_j = lambda e: pat.is_ctor(e, "Compare", {"left": lambda x_: pat.is_name_of(x_, jname), "ops": "[ast.Eq()]", "comparators": lambda c: pat.is_const_of(pat.only_elt(c), j)}, binds)
    both = lambda e: pat.is_ctor(e, "BoolOp", {"op": "ast.And()", "values": lambda v: isinstance(v, ast.List) and len(v.elts) == 2 and cmp_i(pat.look_through(v.elts[0], binds)) and cmp_j(pat.look_through(v.elts[1], binds))}, binds)
    ifs = pat.ctor_calls(inner.node, "IfExp")
    if len(ifs) != 2:
        ctx.undecided(ce.short, f"{role}: {len(ifs)} if-expression constructors (one- and two-index case expected)")
    else:
        for c in ifs:
            facts = [(pat.t(e), pol) for e, pol in guard_facts(inner, c)]
            two = any(pol and f == f"{jname}isnotNone" for f, pol in facts)
            test = pat.field(c, "test", binds)
            t_ok = both(test) if two else cmp_i(test)
            body_ok = pat.t(pat.field(c, "body", binds)) == f"{acc.name}({i},{j})"
            nxt = pat.field(c, "orelse", binds)
            if two:
                b2 = pat.bindings(inner.node)
                n_ok = isinstance(nxt, ast.Call) and pat.t(nxt.func) == inner.name and len(nxt.args) == 2 and pat.t(pat.look_through(nxt.args[0], b2)) == f"{i}if{j}<{max_j}else{i}+1" and pat.t(pat.look_through(nxt.args[1], b2)) == f"{j}+1if{j}<{max_j}else0"
            else:
                n_ok = pat.t(nxt) in (f"{inner.name}({i}+1)", f"{inner.name}({i}+1,None)")
            ctx.check(t_ok and body_ok and n_ok, "MP-polarity", ce, role + (" (two indices)" if two else " (one index)"), norm(c)[:80], f"the generated selection `{norm(c)[:160]}` does not test `index == k`, select element k, and continue with the next position", c)
    base = [r for r in q.returns(inner) if pat.t(r.value) == f"{acc.name}({i},{j})"]
    ok = False
    if len(base) == 1:
        f = [(pat.t(e), pol) for e, pol in guard_facts(inner, base[0])]
        pos = {f_ for f_, pol in f if pol}
        ok = f"{i}=={max_i}" in pos and (f"{jname}isNoneor{j}=={max_j}" in pos or f"{j}=={max_j}or{jname}isNone" in pos)
    pat.frag_rule(ctx, "MP-polarity", ce, "the last position is the default of the chain", ok, [(len(base) == 1, "the chain does not stop exactly at the last position (max_i, max_j): an element is unreachable or the recursion overruns")], inner.node)
    start = [r for r in q.returns(ce) if isinstance(r.value, ast.Call) and pat.t(r.value.func) == inner.name]
    ctx.check(len(start) == 1 and pat.t(start[0].value.args[0]) == "0", "MP-polarity", ce, "the chain starts at position 0", norm(start[0]) if start else "", "the selection chain does not start at index 0", start[0] if start else ce.node)
    # access_ij: L[i] / L[i][j], outer index first
    ab = pat.bindings(acc.node)
    subs = pat.ctor_calls(acc.node, "Subscript")
    outer = [c for c in subs if pat.is_name_of(pat.field(c, "value", ab), nname)]
    ok1 = len(outer) == 1 and pat.is_const_of(pat.field(outer[0], "slice", ab), acc.params[0])
    innr = [c for c in subs if c not in outer]
    ok2 = len(innr) == 1 and outer and pat.field(innr[0], "value", ab) is outer[0] and pat.is_const_of(pat.field(innr[0], "slice", ab), acc.params[1])
    pat.frag_rule(ctx, "MP-polarity", ce, "L[i][j]: outer index first", ok1 and ok2, [(len(subs) == 2, f"the element access is built as {[norm(c)[:70] for c in subs]}: not `{nname}[i]` then `[j]`")], acc.node)


def check_for_unroll(ctx: Ctx, vf: FuncInfo):
    role = "iterations unrolled front to back, body statements in order"
    lp = [l for l in q.for_loops(vf.node) if isinstance(l.iter, ast.Name)]
    if len(lp) != 1:
        ctx.undecided(vf.short, f"{role}: {len(lp)} loops over the unrolled iterable")
        return
    l = lp[0]
    binds = {n.targets[0].id: n.value for n in walk_no_nested(vf.node) if isinstance(n, ast.Assign) and isinstance(n.targets[0], ast.Name)}
    # the iterable is not reversed on the way
    srcs = [n.value for n in walk_no_nested(vf.node) if isinstance(n, ast.Assign) and isinstance(n.targets[0], ast.Name) and n.targets[0].id == l.iter.id]
    rev = any(q.is_reversed(v) is not None or "sorted(" in norm(v) for v in srcs)
    ctx.check(not rev and bool(srcs), "MP-polarity", vf, "elements are visited in their own order", "", f"the iterable is re-ordered before unrolling ({[norm(v) for v in srcs]})", l)
    adds = [c for c in q.calls(l) if isinstance(c.func, ast.Attribute) and c.func.attr in ("extend", "append", "insert")]
    acc = {norm(c.func.value) for c in adds}
    bad = [c for c in adds if c.func.attr == "insert" or any(q.is_reversed(a) is not None for a in c.args)]
    if not adds or len(acc) != 1:
        ctx.undecided(vf.short, f"{role}: the unrolled statements are not collected in one list")
        return
    ctx.check(not bad, "MP-polarity", vf, role, f"{len(adds)} appends to {sorted(acc)[0]}", f"`{norm(bad[0]) if bad else ''}` emits unrolled statements out of order", bad[0] if bad else l)
    comps = [c for c in ast.walk(l) if isinstance(c, (ast.ListComp, ast.GeneratorExp)) and pat.t(c.generators[0].iter) in ("node.body", "new_body")]
    if not comps:
        ctx.undecided(vf.short, f"{role}: body statements are not mapped by comprehensions over node.body")
    rep = [c for c in q.calls(l) if pat.ctor_name(c) == "NameValReplacer"]
    if not rep:
        ctx.undecided(vf.short, "loop variable substitution not found")
    else:
        val = None
        for n in walk_no_nested(l):
            if isinstance(n, ast.Assign) and len(rep[0].args) == 2 and norm(n.targets[0]) == norm(rep[0].args[1]):
                val = n
        ctx.check(len(rep[0].args) == 2 and pat.t(rep[0].args[0]) == "node.target.id" and val is not None, "MP-polarity", vf, "loop variable replaced by the current element", norm(rep[0]), f"`{norm(rep[0])}` does not substitute the loop variable by the element of this iteration", rep[0])


def check_multi_target(ctx: Ctx, rm: FuncInfo):
    role = "a, b = t -> a = t[0]; b = t[1] (same index on both sides)"
    # every way out of the rewriter is one of the lowerings the rules below know: the node unchanged, the element-wise
    # assignments from a name, or the temporary followed by element-wise assignments from it
    for r in q.returns(rm):
        v = r.value
        known = (
            (isinstance(v, ast.Name) and v.id == rm.params[1])
            or (isinstance(v, (ast.ListComp,)) and pat.t(v.generators[0].iter) == "range(len(node.targets[0].elts))")
            or (isinstance(v, ast.BinOp) and isinstance(v.op, ast.Add) and isinstance(v.left, ast.List) and len(v.left.elts) == 1 and isinstance(v.right, ast.Name))
        )
        if not known:
            ctx.undecided(rm.short, f"`return {norm(v)[:90]}`: a lowering of the multi-target assignment that the tables do not describe (Python evaluates the whole right-hand side before binding any target)")
    comps = [c for c in ast.walk(rm.node) if isinstance(c, (ast.ListComp, ast.GeneratorExp)) and pat.t(c.generators[0].iter) == "range(len(node.targets[0].elts))"]
    if len(comps) < 1:
        ctx.undecided(rm.short, f"{role}: no comprehension over range(len(node.targets[0].elts))")
        return
    for c in comps:
        i = norm(c.generators[0].target)
        asg = [x for x in pat.ctor_calls(c.elt, "Assign")]
        if len(asg) != 1:
            ctx.undecided(rm.short, f"{role}: the comprehension does not build one assignment per target")
            continue
        a = asg[0]
        tgt = pat.only_elt(pat.field(a, "targets"))
        val = pat.field(a, "value")
        ok = pat.is_name_of(tgt, f"node.targets[0].elts[{i}].id") and pat.is_ctor(val, "Subscript", {"slice": lambda e: pat.is_const_of(e, i)})
        ctx.check(ok and not c.generators[0].ifs, "MP-polarity", rm, role, norm(a)[:90], f"`{norm(a)[:160]}`: target k is not assigned element k", a)


def check_self_reassign(ctx: Ctx, va: FuncInfo):
    role = "x = f(x) -> __x = f(x); x = __x"
    binds = pat.bindings(va.node)
    rets = [r for r in q.returns(va) if isinstance(r.value, ast.List) and len(r.value.elts) == 2 and all(pat.ctor_name(e) == "Assign" for e in r.value.elts)]
    if len(rets) != 1:
        ctx.undecided(va.short, f"{role}: no return of two generated assignments")
        return
    first, second = rets[0].value.elts
    tmp = pat.only_elt(pat.field(first, "targets", binds))
    tmp = pat.look_through(tmp, binds) if tmp is not None else None
    tname = pat.field(tmp, "id") if pat.ctor_name(tmp) == "Name" else None
    fresh = isinstance(tname, ast.JoinedStr) and pat.t(tname).startswith("f'__{")
    al = pat.path_aliases(va.node)
    ok = fresh and pat.tx(pat.field(first, "value"), al) in ("self.visit(node.value)", "node.value") and pat.tx(pat.field(second, "targets"), al) == "node.targets" and pat.look_through(pat.field(second, "value"), binds) is tmp
    ctx.check(ok, "MP-polarity", va, role, f"{norm(first)[:60]} ; {norm(second)[:60]}", f"the self-referencing re-assignment is rewritten to `{norm(first)[:80]}` ; `{norm(second)[:80]}`: the new value must be computed into a reserved temporary first and the target assigned from it", rets[0])


# ------------------------------------------------------------------------------------- idioms


def check_idioms(ctx: Ctx):
    repo = ctx.repo

    def fn_term(short: str, which: Optional[int] = None):
        fi = repo.func(short)
        ps = fi.params
        r = q.returns(fi)
        if len(r) != 1:
            raise AnchorError(short, "expected a single return")
        v = r[0].value
        if which is not None:
            if not isinstance(v, ast.Tuple):
                raise AnchorError(short, "expected a tuple result")
            v = v.elts[which]

        def leaf(n):
            if isinstance(n, ast.Name) and n.id in ps:
                return atom(n.id)
            return None

        try:
            return fi, Converter(leaf).conv(v), ps
        except Undecided as u:
            raise AnchorError(short, f"idiom outside the tables: {u}")

    def same(fi, t, spec, role):
        eq, cex, rows = equivalent(t, spec)
        ctx.check(eq, "RW-IDIOM", fi, role, f"{show(t)} on {rows} rows", f"{show(t)} is not {show(spec)}: they differ at {cex}", fi.node)

    fi, t, ps = fn_term("types._eq")
    same(fi, t, mk("not", [mk("xor", [atom(ps[0]), atom(ps[1])])]), "_eq(a, b) is a <-> b")
    fi, t, ps = fn_term("types._neq")
    same(fi, t, mk("xor", [atom(ps[0]), atom(ps[1])]), "_neq(a, b) is a xor b")
    fi, t, ps = fn_term("types._half_adder", 0)
    same(fi, t, mk("and", [atom(ps[0]), atom(ps[1])]), "half adder carry = a & b")
    fi, t, ps = fn_term("types._half_adder", 1)
    same(fi, t, mk("xor", [atom(ps[0]), atom(ps[1])]), "half adder sum = a ^ b")
    fi, t, ps = fn_term("types._full_adder", 0)
    c, a, b = (atom(p) for p in ps)
    same(fi, t, mk("or", [mk("and", [a, b]), mk("and", [a, c]), mk("and", [b, c])]), "full adder carry = majority(a, b, c)")
    fi, t, ps = fn_term("types._full_adder", 1)
    same(fi, t, mk("xor", [a, b, c]), "full adder sum = a ^ b ^ c")
    # ripple adder
    add = repo.func("types.qint.QintImp.add")
    check_ripple(ctx, add)
    sub = repo.func("types.qint.QintImp.sub")
    check_sub(ctx, sub)
    check_shift_add(ctx, repo.func("types.qint.QintImp.mul_even_const"))
    bn = repo.func("types.qtype.Qtype.bitwise_not")
    v = bn.params[0]
    r = q.returns(bn)
    bits = r[0].value.elts[1] if len(r) == 1 and isinstance(r[0].value, ast.Tuple) and len(r[0].value.elts) == 2 else None
    if bits is None:
        ctx.undecided(bn.short, "bitwise not: the result is not returned as a (type, bits) pair")
    else:
        core = q.strip_wrappers(bits)
        as_map = isinstance(core, ast.Call) and pat.t(core.func) == "map" and len(core.args) == 2 and pat.t(core.args[1]) == f"{v}[1]"
        as_comp = isinstance(core, ast.ListComp) and pat.t(core.generators[0].iter) == f"{v}[1]" and not core.generators[0].ifs
        if as_map:
            ctx.check(pat.t(core.args[0]) == "Not", "RW-IDIOM", bn, "bitwise not = Not on every bit, in order", norm(bits), f"`{norm(bits)}` maps `{norm(core.args[0])}` over the bits, not Not", bits)
        elif as_comp:
            ctx.check(pat.t(core.elt) == f"Not({norm(core.generators[0].target)})", "RW-IDIOM", bn, "bitwise not = Not on every bit, in order", norm(bits), f"`{norm(bits)}` does not negate each bit", bits)
        else:
            pat.frag_rule(ctx, "RW-IDIOM", bn, "bitwise not = Not on every bit, in order", False, [(q.is_reversed(bits) is not None, f"`{norm(bits)}` reverses the bit order")], bits)
        ctx.check(pat.t(r[0].value.elts[0]) == f"{v}[0]", "RW-IDIOM", bn, "bitwise not keeps the operand's type", "", f"the result type is `{norm(r[0].value.elts[0])}`", r[0])
    bg = repo.func("types.qint.QintImp.bitwise_generic")
    opn = bg.params[1] if bg.params and bg.params[0] in ("cls", "self") else bg.params[0]
    comps = [c for c in ast.walk(bg.node) if isinstance(c, (ast.ListComp, ast.GeneratorExp)) and any(isinstance(x.func, ast.Name) and x.func.id == "zip" for x in q.calls(c.generators[0].iter))]
    if len(comps) != 1 or not (isinstance(comps[0].generators[0].target, ast.Tuple) and len(comps[0].generators[0].target.elts) == 2):
        ctx.undecided(bg.short, "bitwise ops: no single comprehension over zip(left bits, right bits)")
    else:
        g = comps[0].generators[0]
        ab = sorted(norm(e) for e in g.target.elts)
        e = comps[0].elt
        ok = isinstance(e, ast.Call) and pat.t(e.func) == opn and sorted(norm(x) for x in e.args) == ab and not g.ifs and q.reversal_parity(g.iter)[1] == 0
        zs = [x for x in q.calls(g.iter) if isinstance(x.func, ast.Name) and x.func.id == "zip"][0]
        ok = ok and len(zs.args) == 2 and all(pat.t(x).endswith("[1]") for x in zs.args) and not any(q.is_reversed(x) is not None for x in zs.args)
        ctx.check(ok, "RW-IDIOM", bg, "bitwise ops pair bit k with bit k", norm(comps[0]), f"`{norm(comps[0])}` does not apply the connective to bit k of the left and bit k of the right operand", comps[0])
    for nm, op in (("bitwise_xor", "Xor"), ("bitwise_and", "And"), ("bitwise_or", "Or")):
        m = repo.func(f"types.qint.QintImp.{nm}")
        ctx.check(norm(q.returns(m)[0].value).replace(" ", "") == f"cls.bitwise_generic({op},tleft,tright)", "DP-OPS", m, f"{nm} -> {op}", "", f"{nm} applies another connective", m.node)


def check_sub(ctx: Ctx, sub: FuncInfo):
    """a - b = ~(~a + b); complement and zero-extension commute only if the extension comes first, so both
    operands must be filled to a width chosen from BOTH of them before the minuend is complemented"""
    a, b = sub.params[1], sub.params[2]
    binds = {n.targets[0].id: n.value for n in walk_no_nested(sub.node) if isinstance(n, ast.Assign) and isinstance(n.targets[0], ast.Name)}
    r = q.returns(sub)
    ok = len(r) == 1 and isinstance(r[0].value, ast.Call) and norm(r[0].value.func).endswith("bitwise_not") and isinstance(r[0].value.args[0], ast.Name)
    su = binds.get(r[0].value.args[0].id) if ok else None
    ok = ok and isinstance(su, ast.Call) and norm(su.func).endswith(".add") and len(su.args) == 2 and isinstance(su.args[0], ast.Name)
    an = binds.get(su.args[0].id) if ok else None
    ok = ok and isinstance(an, ast.Call) and norm(an.func).endswith("bitwise_not")
    ctx.check(bool(ok), "RW-IDIOM", sub, "a - b = ~(~a + b)", "", "the subtraction is no longer the complement of (complement of the minuend plus the subtrahend)", sub.node)
    if not ok:
        return
    fa, fb = an.args[0], su.args[1]
    good = (
        isinstance(fa, ast.Call) and isinstance(fa.func, ast.Attribute) and fa.func.attr == "fill" and norm(fa.args[0]) == a
        and isinstance(fb, ast.Call) and isinstance(fb.func, ast.Attribute) and fb.func.attr == "fill" and norm(fb.args[0]) == b
    )
    ctx.check(good, "RW-IDIOM", sub, "minuend and subtrahend enter in order, each filled first", f"{norm(fa)} / {norm(fb)}", f"operands enter as `{norm(fa)}` and `{norm(fb)}`", sub.node)
    if not good:
        return
    ra, rb = norm(fa.func.value), norm(fb.func.value)
    wide = binds.get(ra) if ra == rb and ra in binds else None
    depends_on_both = wide is not None and isinstance(wide, ast.IfExp) and (b in q.names_in(wide)) and ("cls" in q.names_in(wide) or a in q.names_in(wide)) and any(k in norm(wide.test) for k in ("BIT_SIZE", "len("))
    ctx.check(
        depends_on_both, "SB-WIDEN", sub, "both operands are widened to the wider of the two before the complement",
        f"{ra} = {norm(wide) if wide is not None else '?'}",
        f"the minuend is filled with `{ra}` and the subtrahend with `{rb}`, which is not chosen from both operands' widths: when the subtrahend is wider, the minuend is complemented at its own width and zero-extended afterwards by the adder, so the high bits of ~a are 0 instead of 1 (Qint[2] - Qint[4] is wrong on every input)",
        fa,
    )


def check_shift_add(ctx: Ctx, fi: FuncInfo):
    """x * c for even c: c = 2**n + r with n = floor(log2 c); the product is (x << n) + x * r, so the second addend
    must multiply by the whole remainder r (recursively, r is even too), not shift by some function of r"""
    C = fi.params[1]
    adds = [c for c in q.calls(fi.node) if isinstance(c.func, ast.Attribute) and c.func.attr == "add" and len(c.args) == 2]
    if len(adds) != 1:
        raise AnchorError(fi.short, "expected one add of the two partial products")
    first, second = adds[0].args
    binds = {n.targets[0].id: n.value for n in walk_no_nested(fi.node) if isinstance(n, ast.Assign) and isinstance(n.targets[0], ast.Name)}
    sh = [c for c in q.calls(fi.node) if isinstance(c.func, ast.Attribute) and c.func.attr == "shift_left" and len(c.args) == 2]
    if len(sh) > 1:
        lead = [c for c in sh if isinstance(fi.pm.get(c), ast.Assign) and isinstance(fi.pm.get(c).targets[0], ast.Name) and fi.pm.get(c).targets[0].id in q.names_in(first)]
        sh = lead if len(lead) == 1 else sh
    if len(sh) != 1 or not isinstance(sh[0].args[1], ast.Name):
        raise AnchorError(fi.short, "expected one shift_left(<operand>, <n>) forming the leading partial product")
    N = sh[0].args[1].id
    sh_asg = fi.pm.get(sh[0])
    SH = sh_asg.targets[0].id if isinstance(sh_asg, ast.Assign) and isinstance(sh_asg.targets[0], ast.Name) else None
    ctx.check(SH is not None and SH in q.names_in(first), "SB-SHIFTADD", fi, "first addend is x << n", norm(first)[:50], f"first addend `{norm(first)}` is not the operand shifted by `{N}`", adds[0])
    # the remainder is what is left of the constant after the leading power of two that was shifted by
    rdefs = [n for n in walk_no_nested(fi.node) if isinstance(n, ast.Assign) and isinstance(n.targets[0], ast.Name) and pat.t(n.value) in (f"{C}-2**{N}", f"{C}-(1<<{N})", f"{C}-(2**{N})")]
    if len(rdefs) != 1:
        cand = [n for n in walk_no_nested(fi.node) if isinstance(n, ast.Assign) and isinstance(n.targets[0], ast.Name) and isinstance(n.value, ast.BinOp) and isinstance(n.value.op, ast.Sub) and pat.t(n.value.left) == C]
        pat.frag_rule(ctx, "SB-SHIFTADD", fi, f"remainder r = {C} - 2**{N}", False, [(len(cand) == 1, f"the remainder is `{norm(cand[0]) if cand else ''}`, not the constant minus the power of two 2**{N} that the first addend was shifted by")], cand[0] if cand else fi.node)
        return
    R = rdefs[0].targets[0].id
    ctx.ok("SB-SHIFTADD", fi, f"remainder r = {C} - 2**{N}", norm(rdefs[0]), rdefs[0])
    # n itself: any n with 2**n <= const gives a correct decomposition as long as r >= 0 is handled; the recognised
    # computations give n = floor(log2 const)
    txt = pat.t(fi.node)
    floor_log = (f"while2**{N}<={C}:" in txt and f"{N}+=1" in txt and f"if2**{N}>{C}:" in txt and f"{N}-=1" in txt) or f"{N}={C}.bit_length()-1" in txt
    pat.frag_rule(ctx, "SB-SHIFTADD", fi, f"{N} = floor(log2 {C})", floor_log, [(f"while2**{N}<={C}:" in txt and f"{N}-=1" not in txt, f"the search loop leaves {N} one past the leading power of two (2**{N} > {C}): the remainder is negative")], fi.node)
    rec = isinstance(second, ast.Call) and norm(second.func).endswith("mul_even_const") and len(second.args) >= 2 and norm(second.args[1]) == R and norm(second.args[0]) == fi.params[0]
    guard = any(pol and norm(e).replace(" ", "") == f"{R}>0" for e, pol in guard_facts(fi, adds[0], duals=True))
    if isinstance(second, ast.Call) and norm(second.func).endswith("shift_left"):
        ctx.fail("SB-SHIFTADD", fi, "second addend is x * r", f"the second addend is `{norm(second)[:70]}`: a single shift multiplies by a power of two (here 2**({norm(second.args[1])})), which equals the remainder r only for r in {{2, 4}}: x * 6 = (x << 2) + (x << 1) works, x * 14 = (x << 3) + (x << 3) does not", adds[0])
    else:
        ctx.check(rec and guard, "SB-SHIFTADD", fi, "second addend is x * r (recursion on the even remainder, only when r > 0)", norm(second)[:60], f"second addend `{norm(second)[:70]}` under guard r > 0 = {guard}", adds[0])
    # operand brought to the result width before shifting (the ripple adder has no carry-out)
    fills = [n for n in walk_no_nested(fi.node) if isinstance(n, ast.Assign) and norm(n.targets[0]) == fi.params[0] and isinstance(n.value, ast.Call) and norm(n.value.func).endswith(".fill")]
    idx_fill = fi.body.index(fills[0]) if fills and fills[0] in fi.body else None
    idx_shift = next((i for i, st in enumerate(fi.body) if st is sh_asg), None)
    ctx.check(idx_fill is not None and idx_shift is not None and idx_fill < idx_shift and norm(fills[0].value.func.value) == fi.params[2], "SB-SHIFTADD", fi, "operand widened to the result type before the partial products are formed", "", "the partial products are formed at the operand's own width: the adder drops the carry out of the wider product", fi.node)


def check_pipeline(ctx: Ctx):
    fi = ctx.repo.func("ast2ast.ast2ast.ast2ast")
    order = [norm(n.value.func.value.func) for n in fi.body if isinstance(n, ast.Assign) and isinstance(n.value, ast.Call) and isinstance(n.value.func, ast.Attribute) and n.value.func.attr == "visit" and isinstance(n.value.func.value, ast.Call)]
    want = ["ConstantFolder", "ReplaceTypeAnn", "ReplaceMultiTargetAssign", "ASTRewriter", "ConstantFolder"]
    ctx.check(order == want, "RW-ORDER", fi, "normalisation passes in dependency order", str(order), f"pass order is {order}; type annotations and multi-target assignments must be normalised before the rewriter, constants folded before and after", fi.node)
    ta = ctx.repo.func("ast2logic.t_ast.translate_ast")
    lp = [l for l in q.for_loops(ta.node) if norm(l.iter) == "fun.body"]
    if len(lp) != 1:
        ctx.undecided(ta.short, "statement loop over fun.body not found")
    else:
        ctx.check(q.reversal_parity(lp[0].iter)[1] == 0, "RW-ORDER", ta, "statements translated in source order", norm(lp[0].iter), f"`{norm(lp[0].iter)}` visits the statements in another order", lp[0])
        tr = [n for n in lp[0].body if isinstance(n, ast.Assign) and isinstance(n.value, ast.Call) and pat.t(n.value.func).endswith("translate_statement")]
        keep = [c for c in q.calls(lp[0]) if isinstance(c.func, ast.Attribute) and c.func.attr in ("append", "extend") and tr and isinstance(tr[0].targets[0], ast.Tuple) and norm(c.args[0]) == norm(tr[0].targets[0].elts[0])]
        if not tr:
            ctx.undecided(ta.short, "translate_statement call not found in the statement loop")
        else:
            facts = [f for k in keep for f in guard_facts(ta, k) if q.contains(lp[0], f[0])]
            ctx.check(len(keep) == 1 and not facts, "RW-ORDER", ta, "every statement's definitions are kept", norm(keep[0]) if keep else "", "the definitions returned for a statement are not (unconditionally) added to the result", lp[0])


def check_modmask(ctx: Ctx):
    """exact, over the modules this property is anchored in"""
    n = 0
    for fi in ctx.repo.functions.values():
        if fi.parent is not None or not any(fi.module.name.startswith(x) for x in ['qlasskit.ast2ast', 'qlasskit.ast2logic', 'qlasskit.types']):
            continue
        for site in q.modulo_by_mask_sites(fi.node):
            n += 1
            ctx.fail("SB-MODMASK", fi, f"`{norm(site)[:50]}`", f"`{norm(site)}` reduces a value with the all-ones mask as MODULUS: the largest value of that width ((1 << n) - 1) becomes 0; the modulus for n bits is 2**n (or use `& mask`)", site)
    ctx.ok("SB-MODMASK", None, "no value is reduced modulo an all-ones mask", f"{n} sites", construct="ast2ast")


# ------------------------------------------------------------------------------------- constant table of the rewriter
REWRITER = "ast2ast.astrewriter.ASTRewriter"
ENVCLS = "ast2ast.env.Environment"


def _env_methods_dropping_constant(ctx: Ctx):
    """{method name: index (without self) of the parameter whose entry in self.constants is removed}"""
    env = ctx.repo.cls(ENVCLS)
    out = {}
    for name, m in env.methods.items():
        ps = m.params[1:] if m.has_self else m.params
        for n in ast.walk(m.node):
            key = None
            if isinstance(n, ast.Call) and isinstance(n.func, ast.Attribute) and n.func.attr == "pop" and norm(n.func.value) == "self.constants" and n.args:
                key = n.args[0]
            elif isinstance(n, ast.Delete):
                for t in n.targets:
                    if isinstance(t, ast.Subscript) and norm(t.value) == "self.constants":
                        key = t.slice
            if key is not None and isinstance(key, ast.Name) and key.id in ps:
                out[name] = (ps.index(key.id), key.id)
    return out


def check_const_table(ctx: Ctx):
    """The rewriter records `x = <literal>` in Environment.constants and later substitutes the recorded literal for
    reads of x (list indices, unrolled iterables).  That is only the program's meaning while x still holds that
    literal: (DP-STALE) every re-binding of x to something else must end the entry; and, because branch bodies are
    visited unconditionally, (DP-STALE/if) a consumer that turns a recorded scalar into a literal node needs
    visit_If to end the entries of the names assigned under the condition."""
    rw = ctx.repo.cls(REWRITER)
    va = rw.methods.get("visit_Assign")
    if va is None:
        raise AnchorError(REWRITER + ".visit_Assign", "not found")
    drops = _env_methods_dropping_constant(ctx)
    tnames = [n.targets[0].id for n in walk_no_nested(va.node) if isinstance(n, ast.Assign) and isinstance(n.targets[0], ast.Name) and norm(n.value).replace(" ", "") == "node.targets[0].id"]
    if len(tnames) != 1:
        raise AnchorError(va.short, "the assigned name is not bound as `<t> = node.targets[0].id`")
    t = tnames[0]
    al_ = pat.path_aliases(va.node)
    chains = [s_ for s_ in va.body if isinstance(s_, ast.If) and "node.value" in pat.tx(s_.test, al_) and any(isinstance(c.func, ast.Attribute) and norm(c.func.value) == "self.env" for c in q.calls(s_))]
    if len(chains) != 1:
        raise AnchorError(va.short, f"{len(chains)} top-level if-chains classify node.value and update the environment: outside the tables")
    chain, els = q.if_chain(chains[0])
    branches = [(norm(test), body) for test, body in chain] + [("else", els)]
    n_ok = 0
    for label, body in branches:
        envcalls = [c for s_ in body for c in q.calls(s_) if isinstance(c.func, ast.Attribute) and norm(c.func.value) == "self.env"]
        sets = [c for c in envcalls if c.func.attr == "set_constant" and q.arg(c, 0, "name") is not None and norm(q.arg(c, 0, "name")) == t]
        ends = [c for c in envcalls if c.func.attr in drops and q.arg(c, drops[c.func.attr][0], drops[c.func.attr][1]) is not None and norm(q.arg(c, drops[c.func.attr][0], drops[c.func.attr][1])) == t]
        direct = [n for s_ in body for n in ast.walk(s_) if isinstance(n, ast.Call) and isinstance(n.func, ast.Attribute) and n.func.attr == "pop" and norm(n.func.value) == "self.env.constants" and n.args and norm(n.args[0]) == t]
        ok = bool(sets or ends or direct)
        n_ok += ok
        ctx.check(ok, "DP-STALE", va, f"re-binding under `{label[:60]}` sets or ends the name's constant", ", ".join(norm(c)[:50] for c in (sets + ends + direct)), f"the branch `{label[:80]}` re-binds `{t}` ({', '.join(norm(c) for c in envcalls) or 'no environment update'}) but leaves an earlier entry of Environment.constants in place: `l = [a, b]; l = t; l[i[0]]` then selects from [a, b]", body[0] if body else chains[0])
    if len(branches) < 3:
        raise AnchorError(va.short, "fewer than 3 value kinds classified")
    # consumers that turn a recorded scalar into a literal node
    wrap = []
    for m in rw.methods.values():
        gets = {}
        for n in walk_no_nested(m.node):
            if isinstance(n, ast.Assign) and isinstance(n.targets[0], ast.Name) and any(isinstance(c.func, ast.Attribute) and c.func.attr == "get_constant" for c in q.calls(n.value)):
                gets[n.targets[0].id] = n
        for c in q.calls(m.node):
            if (dotted(c.func) or "").endswith("Constant"):
                v = q.arg(c, 0, "value")
                if v is None:
                    continue
                if any(isinstance(x, ast.Call) and isinstance(x.func, ast.Attribute) and x.func.attr == "get_constant" for x in ast.walk(v)) or (q.names_in(v) & set(gets)):
                    wrap.append((m, c))
    # the environment is one flat table shared by the function and every function defined inside it: an entry may be
    # re-bound, never forgotten (forgetting `a` on leaving an inner `def f(a)` forgets the outer `a` too, and a later
    # `a = f(a)` is then no longer recognised as self-referencing)
    forget = []
    for m in rw.methods.values():
        for c in q.calls(m.node):
            if isinstance(c.func, ast.Attribute) and ((norm(c.func.value) == "self.env" and c.func.attr == "remove") or (norm(c.func.value) in ("self.env.types", "self.env.constants") and c.func.attr in ("pop", "clear", "popitem") and norm(c.func.value) == "self.env.types")):
                forget.append((m, c))
        for n in ast.walk(m.node):
            if isinstance(n, ast.Delete) and any("self.env" in norm(t) for t in n.targets):
                forget.append((m, n))
    for m, c in forget:
        ctx.fail("DP-STALE", m, "the rewriter never forgets a name", f"`{norm(c)[:70]}` removes a name from the environment, which is one flat table shared with the enclosing function: the enclosing function's variable of the same name is forgotten too, so a later self-referencing assignment to it (`a = f(a)`) is not split through a temporary and its bits are updated in place, each from already-updated ones", c)
    if not forget:
        ctx.ok("DP-STALE", rw.methods["visit_FunctionDef"] if "visit_FunctionDef" in rw.methods else None, "the rewriter never forgets a name", f"{len(rw.methods)} methods scanned", construct=REWRITER)
    vi = rw.methods.get("visit_If")
    if vi is None:
        raise AnchorError(REWRITER + ".visit_If", "not found")
    ends_in_if = [c for c in q.calls(vi.node) if isinstance(c.func, ast.Attribute) and ((norm(c.func.value) == "self.env" and (c.func.attr in drops or c.func.attr == "remove")) or (norm(c.func.value) == "self.env.constants" and c.func.attr in ("pop", "clear")))]
    saves = [n for n in ast.walk(vi.node) if isinstance(n, ast.Assign) and "self.env.constants" in norm(n)]
    if wrap:
        m, c = wrap[0]
        ctx.check(bool(ends_in_if or saves), "DP-STALE", m, "a recorded scalar is spliced in as a literal only if conditional assignments end the record", f"visit_If: {[norm(x)[:40] for x in ends_in_if + saves]}", f"`{norm(c)}` substitutes the literal recorded for a name, but visit_If visits both branch bodies unconditionally and never ends the records they make: after `i = 1` / `if c: i = 2` the table says i == 2 whatever c is, so `l[i]` becomes l[2]", c)
    else:
        ctx.ok("DP-STALE", rw.methods["visit_Subscript"], "no consumer turns a recorded scalar into a literal node", "conditional records cannot reach the translation as literals", nontrivial=False)


def check_pow(ctx: Ctx, vb: FuncInfo):
    """a ** n with a literal n > 0 is unrolled into a product of exactly n factors `a`; a ** 0 is 1"""
    role = "a ** n -> product of n factors a; a ** 0 -> 1"
    loops = [l for l in q.for_loops(vb.node, nested=True) if isinstance(l.iter, ast.Call) and pat.t(l.iter.func) == "range" and "node.right.value" in pat.t(l.iter)]
    if len(loops) != 1:
        ctx.undecided(vb.short, f"{role}: no single unrolling loop over range(<exponent>)")
        return
    l = loops[0]
    facts = [(norm(e), pol) for e, pol in guard_facts(vb, l)]
    ctx.check(any(pol and "ast.Pow" in f for f, pol in facts), "DP-OPS", vb, "the unrolling applies to ** only", "", f"the multiplication loop is not guarded by the operator being ast.Pow (guards {facts})", l)
    ctx.check(any(pol and "node.right.value>0" in f.replace(" ", "") for f, pol in facts) or any(pol and "node.right.value>=1" in f.replace(" ", "") for f, pol in facts), "DP-OPS", vb, "unrolled only for a positive literal exponent", "", f"the unrolling is not guarded by `exponent > 0` (guards {[f for f, _ in facts]})", l)
    mul = pat.term_rule(ctx, "DP-OPS", vb, "each step multiplies the running product by the base", "BinOp", {"op": "ast.Mult()", "left": lambda e: pat.t(e) != "", "right": lambda e: pat.t(e) != ""}, "the unrolled step is not a multiplication", root=l)
    if mul is None:
        return
    asg = vb.pm.get(mul)
    if not (isinstance(asg, ast.Assign) and isinstance(asg.targets[0], ast.Name)):
        ctx.undecided(vb.short, f"{role}: the product is not accumulated in a local name")
        return
    acc = asg.targets[0].id
    ops = {pat.t(pat.field(mul, "left")), pat.t(pat.field(mul, "right"))}
    ctx.check(ops == {acc, "node.left"}, "DP-OPS", vb, "running product times base", norm(mul), f"`{norm(mul)}` does not multiply the running product `{acc}` by the base `node.left`", mul)
    inits = [n for n in ast.walk(vb.node) if isinstance(n, ast.Assign) and isinstance(n.targets[0], ast.Name) and n.targets[0].id == acc and n is not asg]
    if len(inits) != 1:
        ctx.undecided(vb.short, f"{role}: {len(inits)} initialisations of the running product")
        return
    init, count = pat.t(inits[0].value), pat.t(l.iter.args[0]) if len(l.iter.args) == 1 else pat.t(l.iter)
    good = (init == "node.left" and count in ("node.right.value-1",)) or (init in ("ast.Constant(value=1)", "ast.Constant(1)") and count == "node.right.value")
    known = init in ("node.left", "ast.Constant(value=1)", "ast.Constant(1)") and count.startswith("node.right.value")
    pat.frag_rule(ctx, "DP-OPS", vb, role, good, [(known, f"the product starts from `{init}` and multiplies `{count}` more times: that is not n factors")], l, f"init {init}, {count} further factors")
    rets = [r for r in q.returns(vb) if r.value is not None and pat.t(r.value) == acc]
    ctx.check(len(rets) == 1, "DP-OPS", vb, "the product is what replaces the power", "", "the accumulated product is not returned", l)
    zero = [r for r in q.returns(vb) if pat.ctor_name(r.value) == "Constant"]
    if zero:
        f0 = [(norm(e).replace(" ", ""), pol) for e, pol in guard_facts(vb, zero[0])]
        ctx.check(pat.t(pat.field(zero[0].value, "value")) == "1" and any(pol and "node.right.value==0" in f for f, pol in f0), "DP-OPS", vb, "a ** 0 -> 1", norm(zero[0]), f"`{norm(zero[0])}` under {[f for f, p_ in f0 if p_]}", zero[0])


def check_ripple(ctx: Ctx, add: FuncInfo):
    role = "ripple adder: carry-in false, carry threaded LSB to MSB, sums appended in order"
    lp = [l for l in q.for_loops(add.node) if any(isinstance(c.func, ast.Name) and c.func.id == "zip" for c in q.calls(l.iter))]
    if len(lp) != 1:
        ctx.undecided(add.short, f"{role}: {len(lp)} loops over zip(...)")
        return
    l = lp[0]
    comps = q.loop_components(l)
    ctx.check(q.reversal_parity(l.iter)[1] == 0, "RW-IDIOM", add, "bits are added from the least significant up", norm(l.iter), f"`{norm(l.iter)}` visits the bits most significant first: the carry would travel downwards", l)
    steps = [n for n in l.body if isinstance(n, ast.Assign) and isinstance(n.targets[0], ast.Tuple) and len(n.targets[0].elts) == 2 and isinstance(n.value, ast.Call) and pat.t(n.value.func).endswith("_full_adder")]
    if len(steps) != 1 or comps is None:
        ctx.undecided(add.short, f"{role}: no single `carry, sum = _full_adder(...)` step in the loop")
        return
    st = steps[0]
    c_out, s_out = (norm(e) for e in st.targets[0].elts)
    args = sorted(norm(a) for a in st.value.args)
    ctx.check(args == sorted([c_out, comps[0], comps[1]]), "RW-IDIOM", add, "the carry out of bit k is the carry into bit k+1", norm(st), f"`{norm(st)}`: the adder step must take the previous carry `{c_out}` and bit k of both operands ({comps[0]}, {comps[1]})", st)
    init = [n for n in walk_no_nested(add.node) if isinstance(n, ast.Assign) and norm(n.targets[0]) == c_out and not q.contains(l, n)]
    ctx.check(len(init) == 1 and norm(init[0].value) in ("False", "false"), "RW-IDIOM", add, "carry into bit 0 is false", norm(init[0]) if init else "", f"the initial carry is `{norm(init[0].value) if init else '?'}`", init[0] if init else l)
    app = [c for c in q.method_calls(l, "append") if len(c.args) == 1 and norm(c.args[0]) == s_out]
    ctx.check(len(app) == 1, "RW-IDIOM", add, "sum bit k is appended as result bit k", norm(app[0]) if app else "", f"the sum bit `{s_out}` is not appended to the result once per step", l)


def check_mod_mask(ctx: Ctx):
    """SB-MODPOW2: `x % y` implemented as `x & (y - 1)` is x mod y only for y = 2**n.  Every path to the masking
    must have established that (a dominating check on the value of y), or reject."""
    fi = ctx.repo.func("types.qint.QintImp.mod")
    ands = [c for c in q.calls(fi.node) if isinstance(c.func, ast.Attribute) and c.func.attr == "bitwise_and"]
    subs = [c for c in q.calls(fi.node) if isinstance(c.func, ast.Attribute) and c.func.attr == "sub" and len(c.args) == 2 and pat.t(c.args[1]).endswith("const(1)")]
    if len(ands) != 1 or len(subs) != 1:
        ctx.undecided(fi.short, "modulo is no longer implemented as x & (y - 1): outside the tables")
        return
    y = pat.t(subs[0].args[0])
    facts = [(pat.t(e), pol) for e, pol in guard_facts(fi, ands[0])]
    # the power-of-two test may sit under `if is_const(y):` - then only the constant path is guarded
    pow2 = [n for n in ast.walk(fi.node) if isinstance(n, ast.If) and any(isinstance(x, ast.BinOp) and isinstance(x.op, ast.BitAnd) for x in ast.walk(n.test)) and any(isinstance(s_, ast.Raise) for s_ in n.body)]
    const_guard = [(pat.t(e), pol) for n in pow2 for e, pol in guard_facts(fi, n)]
    ctx.check(bool(pow2), "SB-MODPOW2", fi, "constant modulus: powers of two only", "a constant y with y & (y - 1) != 0 is rejected", f"`{norm(ands[0])[:60]}` computes x & (y - 1) for any modulus: `a % 3` is accepted and translated to `a & 2`", ands[0], construct=fi.short + "#const")
    only_const = any(pol and "is_const" in f for f, pol in const_guard)
    nonconst_rejected = any((not pol) and "is_const" in f for f, pol in facts) is False and any(pol and "is_const" in f for f, pol in facts)
    ctx.check(bool(pow2) and (not only_const or nonconst_rejected), "SB-MODPOW2", fi, "non-constant modulus: rejected or shown to be a power of two", "", f"when {y} is not a compile-time constant the mask identity is applied unchecked: `a % b` is translated to `a & (b - 1)`, which is a mod b only for b = 2**n (a=5, b=3 gives 0 instead of 2); the test-suite relies on `b = 4; a % b`, so the variable case cannot simply be rejected", ands[0], construct=fi.short + "#nonconst")
