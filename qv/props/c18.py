"""C18 - The quadratic-model export has the function's minimisers as ground states."""
from __future__ import annotations

import ast
from typing import Dict, List, Optional

from .. import q
from ..boolterm import HEADS, Converter, Undecided, atom, equivalent, head_name, mk, show
from ..core import AnchorError, Ctx, FuncInfo, dotted, guard_facts, norm, walk_no_nested
from ..rewrite import single_bindings

ID = "C18"
TECHNIQUE = (
    "inlining-before-modelling dataflow, per-branch translation validation of the expression visitor's source terms "
    "(n-ary folds instantiated for 2..4 operands), fail-closed chains, table agreement of formats, bit-order "
    "provenance of decode_samples"
)
EXPLANATION = (
    "Decides (pyqubo being absent does not matter to a static rule): (RW-INLINE) the model is built from inlined "
    "return expressions; (MP-vars) a binary variable is created for every argument bit and every return symbol; "
    "(RW-EQUIV) each branch of SympyToBQM.visit hands the modelling library a term that denotes the same boolean "
    "function as the sympy node, for 2, 3 and 4 operands (the pairwise folds of And/Xor keep every operand), leaves "
    "map to their own variable; (DP-CLOSED) the visitor, the per-definition chain and the format chain raise for "
    "anything they do not know; (DP-TABLE) the formats offered are the formats implemented; (OR-FLOW) decode_samples "
    "reads arg.bitvec in order, hands interpret_as_qtype that list reversed once (a measurement-order string) with "
    "the argument's type and length, keyed by argument name.  It does NOT decide anything about energies and ground "
    "states of the model the library builds."
)
NOT_DECIDED = "energies and ground states; pyqubo's own operators"
MIN_OBLIGATIONS = 14


def run(ctx: Ctx):
    from .. import memo as _memo

    ctx.section(_memo.check_memo_keys, ctx, ('bqm.', 'qlassfun.QlassF.to_bqm', 'boolopt.'))
    repo = ctx.repo
    check_visitor(ctx, repo.func("bqm.SympyToBQM.visit"))
    check_to_bqm(ctx, repo.func("bqm.to_bqm"))
    check_decode(ctx, repo.func("bqm.decode_samples"))


def check_visitor(ctx: Ctx, fi: FuncInfo):
    e = fi.params[1]
    chains = [s for s in fi.body if isinstance(s, ast.If)]
    if len(chains) != 1:
        raise AnchorError(fi.short, "dispatch chain not found")
    chain, els = q.if_chain(chains[0])
    ctx.check(bool(els) and isinstance(els[-1], ast.Raise), "DP-CLOSED", fi, "unknown heads raise", "", "an expression head without a rule is dropped from the model silently", chains[0])
    seen = set()
    for test, body in chain:
        hs = q.isinstance_heads(test, e)
        if len(hs) != 1:
            raise AnchorError(fi.short, f"branch test `{norm(test)}` outside the tables")
        h = hs[0]
        seen.add(h)
        rets = [r for s in body for r in ast.walk(s) if isinstance(r, ast.Return)]
        if h == "Symbol":
            ok = len(rets) == 1 and norm(rets[0].value) == f"self.a_vars[{e}.name]"
            ctx.check(ok, "RW-EQUIV", fi, "Symbol -> its own binary variable", "", f"a symbol is mapped to `{norm(rets[0].value) if rets else '?'}`, not to the variable of its own name", test)
            continue
        if h in ("BooleanTrue", "BooleanFalse"):
            ok = len(rets) == 1 and isinstance(rets[0].value, ast.Constant) and rets[0].value.value is (h == "BooleanTrue")
            ctx.check(ok, "RW-EQUIV", fi, f"{h} -> {h == 'BooleanTrue'}", "", f"{h} is mapped to `{norm(rets[0].value) if rets else '?'}`", test)
            continue
        if h not in HEADS:
            raise AnchorError(fi.short, f"head {h} outside the tables")
        binds = {}
        for s in body:
            if isinstance(s, ast.Assign) and isinstance(s.targets[0], ast.Name):
                binds[s.targets[0].id] = s.value
        arities = [1] if h == "Not" else [2, 3, 4]
        failed = False
        for n in arities:
            # the return taken for this arity
            taken = None
            for r in rets:
                facts = guard_facts(fi, r)
                ok_here = True
                for ge, pol in facts:
                    t = norm(ge).replace(" ", "")
                    for nm in list(binds) + [f"{e}.args"]:
                        if t == f"len({nm})>2":
                            ok_here = ok_here and ((n > 2) == pol)
                        elif t == f"len({nm})==2":
                            ok_here = ok_here and ((n == 2) == pol)
                if ok_here and taken is None:
                    taken = r
            if taken is None:
                raise AnchorError(fi.short, f"{h}: no return found for {n} operands")
            try:
                term = _term(fi, taken.value, e, n, binds, h)
            except Undecided as u:
                lost = _reduction_helper_loses_operand(ctx, fi, taken.value)
                if lost:
                    ctx.fail("RW-EQUIV", fi, f"{h}: model term equals the node", lost, taken)
                    failed = True
                    break
                raise AnchorError(fi.short, f"{h} with {n} operands: `{norm(taken.value)[:70]}`: {u}")
            spec = mk(HEADS[h], [atom(f"c{k}") for k in range(n)])
            eq, cex, rows = equivalent(term, spec)
            if not eq:
                ctx.fail("RW-EQUIV", fi, f"{h}: model term equals the node", f"for {n} operands the branch builds {show(term)} but the node is {show(spec)}; they differ at {cex} (an operand is dropped, duplicated or combined with the wrong operator)", taken)
                failed = True
                break
        if not failed:
            ctx.ok("RW-EQUIV", fi, f"{h}: model term equals the node", f"checked for {arities} operands", test)
    for need in ("Symbol", "Not", "And", "Or", "Xor", "BooleanTrue", "BooleanFalse"):
        ctx.check(need in seen, "DP-CLOSED", fi, f"{need} handled", "", f"no branch for {need}", chains[0])


def _reduction_helper_loses_operand(ctx: Ctx, fi: FuncInfo, expr) -> str:
    """operands of a reduction are linear resources: a variable that takes an operand out of the list inside a loop
    and is only read after the loop is overwritten by any later iteration that takes another one"""
    for c in ast.walk(expr):
        if not (isinstance(c, ast.Call) and isinstance(c.func, ast.Attribute) and isinstance(c.func.value, ast.Name) and c.func.value.id in ("self", "cls", fi.cls.name if fi.cls else "")):
            continue
        hp = fi.cls.find_method(c.func.attr) if fi.cls is not None else None
        if hp is None:
            continue
        lists = set(hp.params)
        for loop in [n for n in walk_no_nested(hp.node) if isinstance(n, (ast.While, ast.For))]:
            for a in [n for n in ast.walk(loop) if isinstance(n, ast.Assign) and isinstance(n.targets[0], ast.Name)]:
                v = a.targets[0].id
                takes = any(
                    (isinstance(x, ast.Call) and isinstance(x.func, ast.Attribute) and x.func.attr in ("pop", "popleft") and isinstance(x.func.value, ast.Name) and x.func.value.id in lists)
                    or (isinstance(x, ast.Subscript) and isinstance(x.value, ast.Name) and x.value.id in lists and not isinstance(x.slice, ast.Slice))
                    for x in ast.walk(a.value)
                ) and not isinstance(a.value, (ast.ListComp, ast.List))
                if not takes or v in lists:
                    continue
                reads_in_loop = [n for n in ast.walk(loop) if isinstance(n, ast.Name) and n.id == v and isinstance(n.ctx, ast.Load)]
                guarded_once = any(pol and norm(ge).replace(" ", "") in (f"{v}isNone",) for ge, pol in guard_facts(hp, a))
                reads_after = any(isinstance(n, ast.Name) and n.id == v and isinstance(n.ctx, ast.Load) for s_ in hp.body[hp.body.index(loop) + 1:] for n in ast.walk(s_)) if loop in hp.body else False
                if not reads_in_loop and reads_after and not guarded_once:
                    return (
                        f"the reduction helper `{hp.short}` takes an operand out of the list into `{v}` inside a loop ({hp.loc(a)}: `{norm(a)}`) and combines it only "
                        f"after the loop: when a later iteration takes another operand, the earlier one is overwritten and never reaches the model (an operand is dropped "
                        f"for some operand counts)"
                    )
    return ""


def _term(fi: FuncInfo, expr, e: str, n: int, binds: Dict[str, ast.expr], h: str):
    """term of the value handed to pyqubo, atoms c0..c{n-1} = children of the node"""
    children = [atom(f"c{k}") for k in range(n)]
    holder: list = [None]

    def sl(lst: List, s: ast.Slice) -> List:
        def iv(x, d):
            if x is None:
                return d
            if isinstance(x, ast.Constant) and isinstance(x.value, int):
                return x.value
            if isinstance(x, ast.UnaryOp) and isinstance(x.op, ast.USub) and isinstance(x.operand, ast.Constant):
                return -x.operand.value
            raise Undecided(f"slice bound `{norm(x)}`")
        if s.step is not None:
            raise Undecided("stepped slice")
        return lst[iv(s.lower, None) : iv(s.upper, None)]

    def lst_of(node) -> Optional[List]:
        if isinstance(node, ast.Attribute) and node.attr == "args" and norm(node.value) == e:
            return list(children)
        if isinstance(node, ast.Name) and node.id in binds:
            return lst_of(binds[node.id])
        if isinstance(node, (ast.ListComp, ast.GeneratorExp)) and len(node.generators) == 1 and not node.generators[0].ifs:
            src = lst_of(node.generators[0].iter)
            if src is None:
                return None
            var = norm(node.generators[0].target)
            out = []
            for t in src:
                elt = node.elt
                # self.visit(a) -> a
                if isinstance(elt, ast.Call) and norm(elt.func) == "self.visit" and len(elt.args) == 1 and norm(elt.args[0]) == var:
                    out.append(t)
                elif norm(elt) == var:
                    out.append(t)
                else:
                    raise Undecided(f"element `{norm(elt)}`")
            return out
        if isinstance(node, ast.Subscript) and isinstance(node.slice, ast.Slice):
            base = lst_of(node.value)
            return None if base is None else sl(base, node.slice)
        if isinstance(node, ast.Call) and isinstance(node.func, ast.Name) and node.func.id in ("list", "tuple") and len(node.args) == 1:
            return lst_of(node.args[0])
        return None

    def leaf(node):
        if isinstance(node, tuple) and node and node[0] == "list":
            r = lst_of(node[1])
            return r
        if isinstance(node, ast.Subscript) and not isinstance(node.slice, ast.Slice):
            base = lst_of(node.value)
            if base is not None and isinstance(node.slice, ast.Constant) and isinstance(node.slice.value, int):
                if not (-len(base) <= node.slice.value < len(base)):
                    raise Undecided(f"index {node.slice.value} out of range for {len(base)} operands")
                return base[node.slice.value]
        if isinstance(node, ast.Call):
            d = norm(node.func)
            if d == "self.visit" and len(node.args) == 1:
                return holder[0].conv(node.args[0])
            hn = head_name(node.func)
            if d.startswith("pyqubo.") and hn in HEADS:
                return mk(HEADS[hn], holder[0].seq(node.args))
        return None

    holder[0] = Converter(leaf, binds)
    return holder[0].conv(expr)


def check_to_bqm(ctx: Ctx, fi: FuncInfo):
    exprs = fi.params[2]
    args = fi.params[0]
    # inlining first
    loops = [l for l in q.for_loops(fi.node) if isinstance(l.target, ast.Tuple) and norm(l.iter) == exprs]
    if len(loops) != 1:
        raise AnchorError(fi.short, "loop over the definitions not found")
    loop = loops[0]
    idx = q.stmt_index(fi.body, loop)
    merged = [s for s in fi.body[:idx] if isinstance(s, ast.Assign) and norm(s.targets[0]) == exprs and isinstance(s.value, ast.Call) and (dotted(s.value.func) or "").split(".")[-1] == "merge_expressions" and norm(s.value.args[0]) == exprs]
    ctx.check(len(merged) == 1, "RW-INLINE", fi, "definitions are inlined to return expressions first", f"{exprs} = merge_expressions({exprs})", "the model is built from the raw definition list: shared intermediates become unconstrained variables of the model", loop)
    def is_binary_of(v, key: str) -> bool:
        return isinstance(v, ast.Call) and (dotted(v.func) or "").split(".")[-1] == "Binary" and len(v.args) == 1 and not v.keywords and norm(v.args[0]) == key

    def is_binary(v) -> bool:
        return isinstance(v, ast.Call) and (dotted(v.func) or "").split(".")[-1] == "Binary"

    # a binary for each argument bit
    verdict = None
    for l in q.for_loops(fi.node):
        if norm(l.iter) == args:
            inner = [m for m in q.for_loops(l, nested=True) if m is not l and norm(q.reversal_parity(m.iter)[0]) == f"{norm(l.target)}.bitvec"]
            if len(inner) == 1 and len(l.body) == 1 and len(inner[0].body) == 1:
                st = [n for n in ast.walk(inner[0]) if isinstance(n, ast.Assign) and isinstance(n.targets[0], ast.Subscript)]
                b = norm(inner[0].target)
                if len(st) == 1 and is_binary(st[0].value):
                    verdict = (norm(st[0].targets[0].slice) == b and is_binary_of(st[0].value, b), st[0])
    if verdict is None:
        ctx.undecided(fi.short, "the model variables of the argument bits are not created by `for arg in args: for b in arg.bitvec: vars[b] = Binary(b)`")
    else:
        ctx.check(verdict[0], "MP-vars", fi, "one binary variable per argument bit", "a_vars[b] = Binary(b) for every b of every arg.bitvec", f"`{norm(verdict[1])}`: an argument bit does not get a model variable of its own name", verdict[1])
    sym = norm(loop.target.elts[0])
    st = [n for n in loop.body if isinstance(n, ast.Assign) and isinstance(n.targets[0], ast.Subscript) and is_binary(n.value)]
    if len(st) != 1:
        ctx.undecided(fi.short, f"{len(st)} model variables are created per definition (one confirmed by hand)")
    else:
        ctx.check(norm(st[0].targets[0].slice) == f"{sym}.name" and is_binary_of(st[0].value, f"{sym}.name"), "MP-vars", fi, "one binary variable per defined symbol", "", f"`{norm(st[0])}`: the defined symbol does not get a model variable of its own name", st[0])
    # the _ret branch goes through the visitor with the whole expression
    ex = norm(loop.target.elts[1])
    ret_br = [n for n in ast.walk(loop) if isinstance(n, ast.If) and "_ret" in norm(n.test)]
    ok = False
    for n in ast.walk(loop):
        if isinstance(n, ast.If):
            ch, els = q.if_chain(n)
            for test, body in ch:
                if "_ret" in norm(test):
                    ok = any(isinstance(c, ast.Call) and norm(c.func).endswith(".visit") and norm(c.args[0]) == ex for s in body for c in ast.walk(s))
            if ch and "_ret" in " ".join(norm(t) for t, _ in ch):
                ctx.check(bool(els) and isinstance(els[-1], ast.Raise), "DP-CLOSED", fi, "unknown definition kinds raise", "", "", n)
                break
    ctx.check(ok, "RW-EQUIV", fi, "return expressions are modelled whole by the visitor", f"SympyToBQM.visit({ex})", "the return expression is not handed to the visitor as a whole", loop)
    # accumulation: every definition contributes
    acc = [n for n in loop.body if isinstance(n, ast.If) and "is None" in norm(n.test)]
    ok = len(acc) == 1 and any(isinstance(x, ast.AugAssign) and isinstance(x.op, ast.Add) for x in ast.walk(acc[0])) and not any(isinstance(x, (ast.Continue, ast.Break)) for x in _own_loop_nodes(loop))
    ctx.check(ok, "MP-vars", fi, "every return bit contributes to the model", "e = new_e / e += new_e", "some definitions are skipped when the model is summed", loop)
    # formats
    lit = ctx.repo.module("bqm").globals_assigned.get("BQMFormat")
    offered = sorted(e.value for e in ast.walk(lit) if isinstance(e, ast.Constant) and isinstance(e.value, str)) if lit is not None else []
    fmt = fi.params[3]
    impl = {}
    first = [i for i, s in enumerate(fi.body) if isinstance(s, ast.If) and norm(s.test).startswith(f"{fmt} ==")]
    if not first:
        raise AnchorError(fi.short, "format chain not found")
    ch, els = q.dispatch_chain(fi.body[first[0]:])
    if els is None:
        raise AnchorError(fi.short, "the format dispatch is neither one if/elif chain nor a sequence of returning ifs")
    mdl = [n for n in walk_no_nested(fi.node) if isinstance(n, ast.Assign) and isinstance(n.value, ast.Call) and isinstance(n.value.func, ast.Attribute) and n.value.func.attr == "compile" and not n.value.args]
    model = norm(mdl[0].targets[0]) if len(mdl) == 1 else "model"
    for test, body in ch:
        if not (isinstance(test, ast.Compare) and len(test.comparators) == 1 and isinstance(test.comparators[0], ast.Constant) and norm(test.left) == fmt):
            raise AnchorError(fi.short, f"format test `{norm(test)}` is not a comparison of `{fmt}` with a literal")
        k = test.comparators[0].value
        impl[k] = norm(body[0].value).replace(model, "model") if isinstance(body[0], ast.Return) and body[0].value is not None else "?"
    want = {"bqm": "model.to_bqm()", "ising": "model.to_ising()", "qubo": "model.to_qubo()", "pq_model": "model"}
    ctx.check(sorted(impl) == offered and all(impl.get(k) == v for k, v in want.items()), "DP-TABLE", fi, "formats offered = formats implemented, each by its own conversion", str(impl), f"BQMFormat offers {offered}; implemented: {impl}", fi.body[first[0]])
    ctx.check(bool(els) and isinstance(els[-1], ast.Raise), "DP-CLOSED", fi, "unknown formats raise", "", "an unknown format falls through without an error", fi.body[first[0]])


def check_decode(ctx: Ctx, fi: FuncInfo):
    loops = [l for l in q.for_loops(fi.node, nested=True) if norm(l.iter).endswith(".args")]
    if len(loops) != 1:
        raise AnchorError(fi.short, "loop over the function's arguments not found")
    l = loops[0]
    a = norm(l.target)
    binds = {n.targets[0].id: n.value for n in l.body if isinstance(n, ast.Assign) and isinstance(n.targets[0], ast.Name)}
    cs = [c for c in q.calls(l) if (dotted(c.func) or "").endswith("interpret_as_qtype")]
    if len(cs) != 1:
        raise AnchorError(fi.short, "interpret_as_qtype call not found")
    c = cs[0]
    core, par = q.reversal_parity(c.args[0], binds)
    src_iter = None  # the iterable the bit list is filled from, in order
    if isinstance(core, ast.ListComp) and len(core.generators) == 1 and core.generators[0].ifs and norm(q.reversal_parity(core.generators[0].iter)[0]) == f"{a}.bitvec":
        ctx.fail("OR-FLOW", fi, "bits read in bitvec (LSB-first) order, reversed once for interpret_as_qtype", f"`{norm(core)[:100]}` skips the bits that fail `{norm(core.generators[0].ifs[0])}`: every later bit moves down one position (bit k of the list is no longer bit k of the argument)", c)
        return
    if isinstance(core, ast.ListComp) and not core.generators[0].ifs and len(core.generators) == 1:
        src_iter = core.generators[0].iter
    elif isinstance(core, ast.List) and not core.elts:
        # `bits = []` filled by appends in one loop, every iteration appending exactly once
        nm = [k for k, v in binds.items() if v is core]
        lps = [x for x in q.for_loops(l, nested=True) if x is not l and nm and any(norm(cc.func.value) == nm[0] for cc in q.method_calls(x, "append"))]
        if len(lps) == 1 and not any(isinstance(cc.func, ast.Attribute) and cc.func.attr == "insert" and norm(cc.func.value) == nm[0] for cc in q.calls(l)):
            src_iter = lps[0].iter
    if src_iter is None:
        ctx.undecided(fi.short, f"the bit list handed to interpret_as_qtype (`{norm(c.args[0])[:60]}`) is not built by one comprehension / one appending loop over the argument's bits")
    else:
        s_core, s_par = q.reversal_parity(src_iter)
        ok = norm(s_core) == f"{a}.bitvec"
        tot = (par + s_par) % 2
        ctx.check(ok and tot == 1, "OR-FLOW", fi, "bits read in bitvec (LSB-first) order, reversed once for interpret_as_qtype", f"{tot} reversal(s) of the bits of {a}.bitvec", f"interpret_as_qtype expects a measurement-order (MSB-first) sequence and reverses it itself; it is handed `{norm(c.args[0])}` = {tot} reversal(s) of the bits of `{norm(s_core)[:60]}`", c)
    ctx.check([norm(x) for x in c.args[1:]] == [f"{a}.ttype", f"len({a})"], "OR-FLOW", fi, "decoded with the argument's type and width", "", f"decoded with {[norm(x) for x in c.args[1:]]}", c)
    if src_iter is not None and isinstance(core, ast.ListComp):
        elt = core.elt
        bv = norm(core.generators[0].target)
        ctx.check(f"sample[{bv}]" in norm(elt), "OR-FLOW", fi, "each bit read from the sample under its own name", norm(elt)[:60], "", c)
    elif src_iter is not None:
        lp_ = [x for x in q.for_loops(l, nested=True) if x.iter is src_iter]
        bv = norm(lp_[0].target) if lp_ else "?"
        reads = [n for n in ast.walk(lp_[0]) if isinstance(n, ast.Subscript) and norm(n.value).endswith(".sample")] if lp_ else []
        ctx.check(bool(reads) and all(norm(n.slice) == bv for n in reads), "OR-FLOW", fi, "each bit read from the sample under its own name", f"sample[{bv}]", f"a bit is read from the sample under {[norm(n.slice) for n in reads]}, not under its own name `{bv}`", c)
    par_st = fi.pm.get(c)
    ctx.check(isinstance(par_st, ast.Assign) and norm(par_st.targets[0]).endswith(f"[{a}.name]"), "OR-FLOW", fi, "result keyed by argument name", "", "", c)


def _own_loop_nodes(loop):
    """nodes of the loop body that belong to this loop: a break / continue inside a nested loop leaves that loop only"""
    stack = list(loop.body)
    while stack:
        n = stack.pop()
        yield n
        for c in ast.iter_child_nodes(n):
            if isinstance(c, (ast.For, ast.While, ast.AsyncFor, ast.FunctionDef, ast.AsyncFunctionDef, ast.Lambda)):
                # the else-clause of a nested loop still belongs to the outer iteration
                for e_ in getattr(c, "orelse", []) or []:
                    stack.append(e_)
                continue
            stack.append(c)
