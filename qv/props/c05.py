"""C05 - Values survive the encode -> circuit -> decode round trip."""
from __future__ import annotations

import ast
from typing import Dict

from .. import fx, q
from ..core import AnchorError, Ctx, FuncInfo, dotted, norm, walk_no_nested
from ..orient import Orient, Qual, Sig
from . import c09, c10

ID = "C05"
TECHNIQUE = (
    "bit-order qualifier flow from encode_input through to_bin and from a measurement string through format_outcome / "
    "interpret_as_qtype / from_bool; agreement of the three tuple-flattening traversals; dominance of the input-qubit "
    "allocation; provenance of the return-bit names on the writer and reader side; effect analysis of the decode path"
)
EXPLANATION = (
    "Decides: (OR-FLOW/OR-EXT) encode_input concatenates the LSB-first encodings of the arguments in order and reverses "
    "once, decode_output and the algorithms hand interpret_as_qtype a measurement-order string, which reverses it once; "
    "a reading is zero-extended on the side its orientation dictates; (OR-SEQ) encode_input.val_to_bin, "
    "interpret_as_qtype._interpret and translate_argument all walk nested element types forward and accumulate in "
    "order; (MP-inputs-first) each compiler allocates the input qubits, in argument then bit order, before anything "
    "else, and input_qubits is 0..n-1; output_qubits is qubit_map[b] for b in returns.bitvec in order; (MP-ret-names) "
    "the names bound for the return value and the names output_qubits reads come from one table; (FX-PARAM) decoding "
    "does not modify the caller's reading.  It does NOT decide that the decoded value equals f(v), nor qubit sharing "
    "between output bits."
)
NOT_DECIDED = "that the decoded value equals f(v) (depends on C01/C02); qubit sharing between output bits"
MIN_OBLIGATIONS = 30


def run(ctx: Ctx):
    from .. import memo as _memo

    ctx.section(_memo.check_memo_keys, ctx, ('qlassfun.QlassF.encode_input', 'qlassfun.QlassF.decode_output', 'qlassfun.QlassF.input_qubits', 'qlassfun.QlassF.output_qubits', 'qlassfun.QlassF.input_size', 'qlassfun.QlassF.output_size', 'types.', 'ast2logic.t_arguments', 'ast2logic.typing', 'qcircuit.qcircuitwrapper'))
    repo = ctx.repo
    an = fx.effects(ctx)
    ctx.section(check_encode, ctx, repo.func("qlassfun.QlassF.encode_input"))
    ctx.section(check_decode, ctx)
    ctx.section(c09.check_nested_decoding, ctx)
    ctx.section(check_translate_argument, ctx, repo.func("ast2logic.t_arguments.translate_argument"))
    ctx.section(check_inputs_first, ctx)
    ctx.section(check_qubit_lists, ctx)
    ctx.section(check_ret_names, ctx)
    ctx.section(
        fx.check_frozen,
        ctx,
        "FX-FROZEN",
        "ast2logic.typing.Arg",
        "the objects in QlassF.args are the ones the translator bound in its environment: a change made through one "
        "holder changes the widths / bit names encode_input, input_qubits and the compiler read through the others, "
        "which then disagree about where each argument's bits are",
    )
    rep = fx.PurityReport(ctx, "FX-PARAM", c10.designed_mutators(ctx))
    for short in ("types.format_outcome", "types.interpret_as_qtype", "qlassfun.QlassF.decode_output", "qcircuit.qcircuitwrapper.QCircuitWrapper.decode_counts", "qlassfun.QlassF.encode_input"):
        fi = repo.func(short)
        fx.check_params_pure(ctx, "FX-PARAM", an, fi, None, rep, c10.EXEMPT_ORIGINS)
    rep.flush()


def check_encode(ctx: Ctx, fi: FuncInfo):
    vt = fi.nested.get("val_to_bin")
    if vt is None:
        raise AnchorError(fi.short, "val_to_bin not found")
    argt, val = vt.params
    # leaves
    rets = q.returns(vt)
    leaf_q = [r for r in rets if isinstance(r.value, ast.Call) and isinstance(r.value.func, ast.Attribute) and r.value.func.attr == "to_bin" and norm(r.value.func.value) == val]
    ctx.check(len(leaf_q) == 1, "OR-FLOW", vt, "a Qtype value contributes its own LSB-first encoding", f"{val}.to_bin()", "a typed value is not encoded by its own to_bin()", vt.node)
    leaf_b = [r for r in rets if isinstance(r.value, ast.IfExp) and norm(r.value.body) == "'1'" and norm(r.value.orelse) == "'0'" and norm(r.value.test) == val]
    ctx.check(len(leaf_b) == 1, "OR-FLOW", vt, "a bool contributes '1' iff true", "", "", vt.node)
    # tuple branch: forward zip over element types and values, appended in order
    def zip_walks(root):
        """(zip call, target, recursive calls, in-order accumulation?) for every walk over a zip(...): a for loop that
        appends to one accumulator, or a generator / list comprehension handed to ''.join (both keep the order)"""
        out = []
        for l in q.for_loops(root):
            if isinstance(l.iter, ast.Call) and isinstance(l.iter.func, ast.Name) and l.iter.func.id == "zip":
                acc = [s_ for s_ in ast.walk(l) if isinstance(s_, ast.AugAssign) and isinstance(s_.op, ast.Add)]
                out.append((l.iter, l.target, [c for c in q.calls(l) if norm(c.func) == "val_to_bin"], len(acc) == 1 and isinstance(acc[0].target, ast.Name), l))
        for n in walk_no_nested(root):
            if isinstance(n, (ast.GeneratorExp, ast.ListComp)) and len(n.generators) == 1 and not n.generators[0].ifs:
                g = n.generators[0]
                if isinstance(g.iter, ast.Call) and isinstance(g.iter.func, ast.Name) and g.iter.func.id == "zip":
                    par = vt.pm.get(n) if any(x is n for x in ast.walk(vt.node)) else fi.pm.get(n)
                    joined = isinstance(par, ast.Call) and isinstance(par.func, ast.Attribute) and par.func.attr == "join" and isinstance(par.func.value, ast.Constant) and par.func.value.value == ""
                    out.append((g.iter, g.target, [c for c in q.calls(n.elt) if norm(c.func) == "val_to_bin"] + ([n.elt] if isinstance(n.elt, ast.Call) and norm(n.elt.func) == "val_to_bin" and False else []), joined, n))
        return out

    walks = zip_walks(vt.node)
    if len(walks) != 1:
        raise AnchorError(vt.short, "tuple branch loop not found")
    zc, ztarget, rec, in_order, l = walks[0]
    za = [norm(a) for a in zc.args]
    ok = za == [f"get_args({argt})", val] and isinstance(ztarget, ast.Tuple)
    ctx.check(ok, "OR-SEQ", vt, "element types and element values paired forward", str(za), f"zip arguments {za}", l)
    a, i = (norm(e) for e in ztarget.elts)
    ok = len(rec) == 1 and [norm(x) for x in rec[0].args] == [a, i] and in_order
    ctx.check(ok, "OR-SEQ", vt, "elements encoded recursively and appended in order", "", "nested elements are not encoded with their own type and appended left to right (a prepend or a swapped recursion re-orders the bits)", l)
    # top level
    o = Orient(fi, {**c09.sigs_for(False), "val_to_bin": Sig({"argt": "ANY", "val": "ANY"}, "LE")}, {}).run()
    for iss in o.issues:
        ctx.fail(iss.rule, fi, "encode_input", iss.msg, iss.node)
    c09.expect_ret(ctx, fi, o, "BE", "encode_input")
    top = [w for w in zip_walks(fi.node) if not any(x is w[4] for x in ast.walk(vt.node))]
    ok = len(top) == 1 and [norm(a_) for a_ in top[0][0].args] == ["self.args", fi.node.args.vararg.arg if fi.node.args.vararg else "?"] and top[0][3]
    ctx.check(ok, "OR-SEQ", fi, "arguments encoded in declaration order", "zip(self.args, qvals)", "", fi.node)
    if top:
        c = top[0][2]
        tg = norm(top[0][1].elts[0]) if isinstance(top[0][1], ast.Tuple) else "?"
        ctx.check(len(c) == 1 and norm(c[0].args[0]) == f"{tg}.ttype", "OR-SEQ", fi, "each argument encoded with its declared type", "", "", top[0][4])


def check_decode(ctx: Ctx):
    repo = ctx.repo
    sig = c09.sigs_for(False)
    do = repo.func("qlassfun.QlassF.decode_output")
    o = Orient(do, sig, {do.params[1]: Qual("BE")}).run()
    if o.issues:
        for iss in o.issues:
            ctx.fail(iss.rule, do, "decode_output", iss.msg, iss.node)
    else:
        ctx.ok("OR-FLOW", do, "measurement string reaches interpret_as_qtype MSB-first", "even number of reversals on the way", do.node)
    cs = [c for c in q.calls(do.node) if (dotted(c.func) or "").endswith("interpret_as_qtype")]
    ok = len(cs) == 1 and [norm(a) for a in cs[0].args[1:]] == ["self.returns.ttype", "len(self.returns)"]
    ctx.check(ok, "OR-FLOW", do, "decoded with the return type and width", "", "", do.node)
    # format_outcome: polymorphic, but its zero-extension side fixes the orientation it is correct for
    fo = repo.func("types.format_outcome")
    callers_layout = "BE"  # interpret_as_qtype (declared BE) and decode_output (measurement string) are its callers
    o = Orient(fo, sig, {fo.params[0]: Qual(callers_layout)}).run()
    pads = [v for r, v in o.returns if v.lay.startswith(("ENDPAD", "FRONTPAD"))]
    pads += [v for k, v in o.env.items() if v.lay.startswith(("ENDPAD", "FRONTPAD"))]
    if not pads:
        raise AnchorError(fo.short, "zero-extension of a short reading not found")
    side = pads[0].lay.split(":")[0]
    ctx.check(side == "FRONTPAD", "OR-EXT", fo, "short readings are zero-extended on the most-significant side", "zeros in front of an MSB-first reading", "format_outcome appends zeros AFTER the reading, but every caller (interpret_as_qtype, decode_output) passes a measurement-order, MSB-first reading: the value is multiplied by a power of two instead of being widened (decode_output(1) on a 2-bit result reads 2)", fo.node)
    # string -> list keeps order; int -> MSB-first digits
    p0 = fo.params[0]
    digit_walks = []
    for n in ast.walk(fo.node):
        if isinstance(n, (ast.ListComp, ast.GeneratorExp)) and len(n.generators) == 1 and any(isinstance(x, ast.Constant) and x.value == "1" for x in ast.walk(n.elt)):
            core, par = q.reversal_parity(n.generators[0].iter)
            if isinstance(core, ast.Name) and core.id == p0:
                digit_walks.append((n, par))
    bins = [n for n in ast.walk(fo.node) if isinstance(n, ast.Subscript) and isinstance(n.slice, ast.Slice) and isinstance(n.slice.lower, ast.Constant) and n.slice.lower.value == 2 and n.slice.upper is None and n.slice.step is None and "bin(" in norm(n.value) and p0 in q.names_in(n.value)]
    if len(digit_walks) != 1 or len(bins) != 1:
        ctx.undecided(fo.short, f"OR-FLOW [strings and ints are read digit by digit, MSB first]: {len(digit_walks)} digit-by-digit readings of `{p0}` and {len(bins)} `bin({p0})[2:]` conversions found ({fo.loc(fo.node)})")
    else:
        ctx.check(digit_walks[0][1] == 0, "OR-FLOW", fo, "strings and ints are read digit by digit, MSB first", norm(digit_walks[0][0])[:60], f"`{norm(digit_walks[0][0])[:70]}` reads the string back to front: the reading arrives most significant digit first and every caller expects it in that order", digit_walks[0][0])
    dc = repo.func("qcircuit.qcircuitwrapper.QCircuitWrapper.decode_counts")
    ctx.check("self.decode_output(e)" in norm(dc.node) and "counts.items()" in norm(dc.node), "OR-FLOW", dc, "each counts key is decoded by decode_output", "", "", dc.node)
    ctx.section(check_counts_threshold, ctx)


def check_translate_argument(ctx: Ctx, fi: FuncInfo):
    # the loops that flatten a tuple annotation, found by what they do (they contain the recursive call), whichever
    # way the element index is kept (manual counter or enumerate) and whether the two spellings of Tuple share one loop
    loops = [l for l in q.for_loops(fi.node, nested=True) if any(norm(c.func) == "translate_argument" for c in q.calls(l))]
    if len(loops) < 1:
        raise AnchorError(fi.short, f"{len(loops)} tuple traversals found (a loop over the element annotations with a recursive call)")
    for l in loops:
        it = l.iter
        tgt = l.target
        idx = None
        if isinstance(it, ast.Call) and isinstance(it.func, ast.Name) and it.func.id == "enumerate" and it.args and isinstance(tgt, ast.Tuple) and len(tgt.elts) == 2:
            start = it.args[1] if len(it.args) > 1 else next((k.value for k in it.keywords if k.arg == "start"), None)
            if start is not None and not (isinstance(start, ast.Constant) and start.value == 0):
                ctx.fail("OR-SEQ", fi, "tuple elements are numbered from 0", f"`{norm(it)}` numbers the elements from {norm(start)}: the bit names of element k must be base.k.*", l)
                continue
            idx, i, it = norm(tgt.elts[0]), norm(tgt.elts[1]), it.args[0]
        else:
            i = norm(tgt)
            ind = [s_ for s_ in l.body if isinstance(s_, ast.AugAssign) and isinstance(s_.op, ast.Add) and isinstance(s_.value, ast.Constant) and s_.value.value == 1]
            if len(ind) == 1:
                idx = norm(ind[0].target)
        rec = [c for c in q.calls(l) if norm(c.func) == "translate_argument"]
        if idx is None or len(rec) != 1:
            ctx.undecided(fi.short, f"OR-SEQ [tuple elements flattened forward]: the element loop at line {l.lineno} keeps no index the tables describe (manual counter or enumerate) or makes {len(rec)} recursive calls")
            continue
        ok = norm(rec[0].args[0]) == i and q.reversal_parity(it)[1] == 0
        base_ok = any(k.arg == "base" and f"{{{idx}}}" in norm(k.value) for k in rec[0].keywords) or (len(rec[0].args) > 2 and f"{{{idx}}}" in norm(rec[0].args[2]))
        ext = [c for c in q.method_calls(l, "extend")] + [s_ for s_ in ast.walk(l) if isinstance(s_, ast.AugAssign) and isinstance(s_.op, ast.Add) and "bitvec" in norm(s_.value)]
        ctx.check(ok and base_ok and len(ext) == 1 and "bitvec" in norm(ext[0]), "OR-SEQ", fi, f"tuple elements flattened forward (loop at line {l.lineno - fi.node.lineno})", "index advances once per element; element bits extend the list in order", "the bit names of a nested tuple are not accumulated element by element, left to right, under base.<index>", l)
    # leaf: Qtype -> base.0 .. base.(n-1)
    leaf = [n for n in walk_no_nested(fi.node) if isinstance(n, ast.ListComp) and "BIT_SIZE" in norm(n)]
    ok = len(leaf) == 1 and norm(leaf[0].generators[0].iter).replace(" ", "") == "range(t.BIT_SIZE)" and "{base}.{i}" in norm(leaf[0].elt)
    ctx.check(ok, "OR-SEQ", fi, "a typed leaf has bits base.0 .. base.(n-1), LSB first", "", "", fi.node)


def check_inputs_first(ctx: Ctx):
    repo = ctx.repo
    ic = repo.func("compiler.internalcompiler.InternalCompiler.compile")
    body = ic.body
    alloc = None
    for i, s in enumerate(body):
        if any(dotted(c.func) == "qc.add_qubit" for c in q.calls(s)):
            alloc = i
            break
    if alloc is None:
        raise AnchorError(ic.short, "input allocation not found")
    st = body[alloc]
    src = None
    comp = [n for n in ast.walk(st) if isinstance(n, (ast.ListComp, ast.GeneratorExp))]
    if comp:
        src = norm(comp[0].generators[0].iter)
    elif isinstance(st, ast.For):
        src = norm(st.iter)
    # where the allocated names come from: a flattening of the arguments' bit vectors, possibly through
    # self.input_symbols and/or a local
    if src is None:
        raise AnchorError(ic.short, "the input allocation is neither a loop nor a comprehension")
    defs = {}
    for n in body[:alloc]:
        if isinstance(n, ast.Assign) and len(n.targets) == 1:
            defs.setdefault(norm(n.targets[0]), []).append(n.value)
    cur, hops = (comp[0].generators[0].iter if comp else st.iter), 0
    par_alloc = 0
    while hops < 6:
        hops += 1
        cur, p_ = q.reversal_parity(cur)
        par_alloc ^= p_
        if norm(cur) in defs and len(defs[norm(cur)]) == 1:
            cur = defs[norm(cur)][0]
            continue
        break
    ff = q.flatten_form(cur)
    if ff is None and isinstance(st, ast.For) and isinstance(st.target, ast.Name) and len(st.body) == 1 and isinstance(st.body[0], ast.For) and isinstance(st.body[0].target, ast.Name):
        # `for arg in args: for b in arg.bitvec: qc.add_qubit(b)`
        inner_l = st.body[0]
        calls_ = [c for c in q.calls(inner_l) if dotted(c.func) == "qc.add_qubit"]
        if len(calls_) == 1 and calls_[0].args and norm(calls_[0].args[0]) == inner_l.target.id and len(inner_l.body) == 1:
            o_, p0_ = q.reversal_parity(st.iter)
            i_, p1_ = q.reversal_parity(inner_l.iter)
            ff = (o_, i_, st.target.id, p0_, p1_)
            par_alloc = 0
    if ff is None:
        ctx.undecided(ic.short, f"input qubits are allocated from `{src}` = `{norm(cur)[:80]}`, which is not a flattening of the arguments' bit vectors")
    else:
        outer, inner, a, p0, p1 = ff
        if norm(outer) != "args":
            ctx.undecided(ic.short, f"input qubits come from a flattening of `{norm(outer)}`, not of the argument list")
        elif norm(inner) != f"{a}.bitvec":
            ctx.undecided(ic.short, f"input qubits come from `{norm(inner)}` of every argument, not from its bit vector")
        else:
            ctx.check(p0 == 0 and p1 == 0 and par_alloc == 0, "MP-inputs-first", ic, "one qubit per argument bit, in argument then bit order", "[arg_b for arg in args for arg_b in arg.bitvec]", f"input qubits are allocated from `{src}` = `{norm(cur)[:80]}`: reversed argument or bit order", st)
    isym = defs.get("self.input_symbols", [])
    earlier = [c for s in body[:alloc] for c in q.calls(s) if (dotted(c.func) or "").startswith("qc.") or (dotted(c.func) or "").startswith("self.compile")]
    ctx.check(not earlier, "MP-inputs-first", ic, "nothing is allocated or emitted before the inputs", "", f"calls before the input allocation: {[norm(c) for c in earlier]}: inputs would not be qubits 0..n-1", st)
    rc = repo.func("compiler.recompiler.ReCompiler.compile")
    loops = [l_ for l_ in q.for_loops(rc.node) if norm(l_.iter) == "args"]
    first_stmt_calls = [c for s_ in rc.body[: rc.body.index(loops[0])] for c in q.calls(s_) if (dotted(c.func) or "").startswith("qc.")] if loops and loops[0] in rc.body else ["?"]
    ok = bool(loops) and not first_stmt_calls and any(norm(l2.iter).endswith(".bitvec") and any(dotted(c.func) == "qc.add_qubit" for c in q.calls(l2)) for l2 in q.for_loops(loops[0], nested=True) if l2 is not loops[0])
    ctx.check(ok, "MP-inputs-first", rc, "ReCompiler allocates inputs first, in order", "", "", rc.node)
    # add_qubit returns consecutive indices
    aq = repo.func("qcircuit.qcircuit.QCircuit.add_qubit")
    ctx.section(check_add_qubit, ctx, aq)


def check_qubit_lists(ctx: Ctx):
    repo = ctx.repo
    iq = repo.func("qlassfun.QlassF.input_qubits")
    r = q.returns(iq)
    t = norm(r[0].value).replace(" ", "") if r else ""
    v0 = q.strip_wrappers(r[0].value) if len(r) == 1 else None
    tot = q.is_total_len(v0.args[0], "self.args") if isinstance(v0, ast.Call) and isinstance(v0.func, ast.Name) and v0.func.id == "range" and len(v0.args) == 1 else None
    if tot is None and "qubit_map" in t:
        ctx.fail("MP-inputs-first", iq, "input qubits = 0 .. (total argument bits - 1)", f"input_qubits is `{t[:100]}`: it looks the argument names up in the circuit's name -> qubit map, but the compiler re-points a name whenever the program assigns to it (`a = a and b` moves `a` to the qubit holding the new value): the inputs are the first sum(len(arg)) qubits, in allocation order, whatever the names point at afterwards", iq.node)
    elif tot is None:
        ctx.undecided(iq.short, f"input_qubits is `{t[:80]}`: not range(<a sum over self.args>)")
    else:
        ctx.check(tot, "MP-inputs-first", iq, "input qubits = 0 .. (total argument bits - 1)", t[:60], f"input_qubits is `{t}`: the inputs are the first sum(len(arg)) qubits, one per argument bit", iq.node)
    oq = repo.func("qlassfun.QlassF.output_qubits")
    r = q.returns(oq)
    v = r[0].value if r else None
    ok = isinstance(v, ast.ListComp) and norm(v.generators[0].iter) == "self.returns.bitvec" and not v.generators[0].ifs and norm(v.elt) == f"self._qcircuit.qubit_map[{norm(v.generators[0].target)}]"
    ctx.check(ok, "MP-inputs-first", oq, "output qubits = qubit_map[b] for b in returns.bitvec, in order", "", f"output_qubits is `{norm(v) if v is not None else '?'}`", oq.node)
    osz = repo.func("qlassfun.QlassF.output_size")
    ctx.check(norm(q.returns(osz)[0].value) == "len(self.returns)", "MP-inputs-first", osz, "output size = number of return bits", "", "", osz.node)


def check_ret_names(ctx: Ctx):
    """writer: the Return branch binds `_ret` names; reader: translate_argument(fun.returns, base='_ret').bitvec"""
    repo = ctx.repo
    ts = repo.func("ast2logic.t_statement.translate_statement")
    br = [n for n in walk_no_nested(ts.node) if isinstance(n, ast.If) and "ast.Return" in norm(n.test)]
    if len(br) != 1:
        raise AnchorError(ts.short, "Return branch not found")
    body_txt = " ".join(norm(s) for s in br[0].body)
    writer = [c for s in br[0].body for c in q.calls(s) if (dotted(c.func) or "") == "decompose_to_symbols"]
    ta = repo.func("ast2logic.t_ast.translate_ast")
    reader = [c for c in q.calls(ta.node) if (dotted(c.func) or "") == "translate_argument" and any(k.arg == "base" and norm(k.value) == "'_ret'" for k in c.keywords)]
    if not reader:
        raise AnchorError(ta.short, "reader of the return names (translate_argument(fun.returns, base='_ret')) not found")
    uses_reader_names = "bitvec" in body_txt and ("ret_" in body_txt or "returns" in body_txt)
    ctx.check(
        uses_reader_names and not writer, "MP-ret-names", ts, "return bits are bound under the declared return value's bit names",
        "names come from the return Arg's bitvec",
        "the names written for the return value are generated from the nesting of the returned VALUE (decompose_to_symbols(vexp, '_ret')), "
        "while output_qubits reads the names generated from the nesting of the declared TYPE (translate_argument(..., base='_ret').bitvec); "
        "a reference to a tuple-typed variable is a flat bit list (Arg.to_exp flattens), so `t = (a, b); return t` with "
        "Tuple[Qint[2], bool] binds _ret.0, _ret.1, _ret.2 but output_qubits looks up _ret.0.0: KeyError",
        br[0],
    )
    # `_ret` symbols kept by the optimizer / truth table: prefix convention is shared
    me = repo.func("boolopt.bool_optimizer.merge_expressions")
    ctx.check("'_ret'" in norm(me.node), "MP-ret-names", me, "optimizer keeps `_ret*` definitions", "", "", me.node)


def check_add_qubit(ctx: Ctx, aq):
    """the index recorded for the new name, and returned, is the number of qubits before the call; the count
    grows by exactly one.  Positions are compared along the top-level statement list of the method."""
    body = aq.body
    cnt = "self.num_qubits"
    inc = [i for i, s_ in enumerate(body) if (isinstance(s_, ast.AugAssign) and norm(s_.target) == cnt) or (isinstance(s_, ast.Assign) and norm(s_.targets[0]) == cnt)]
    if len(inc) != 1:
        raise AnchorError(aq.short, f"{len(inc)} top-level updates of {cnt}: outside the tables")
    st = body[inc[0]]
    env0 = q.straight_line_env(body, st)
    env0.pop(cnt, None)
    lf = q.linear_form(st.value, env0) if isinstance(st, ast.Assign) else None
    by_one = (isinstance(st, ast.AugAssign) and isinstance(st.op, ast.Add) and norm(st.value) == "1") or (lf == {cnt: 1, "": 1})
    ctx.check(by_one, "MP-inputs-first", aq, "the qubit count grows by one per add_qubit", norm(st), f"`{norm(st)}`", st)
    # names standing for the old count
    old = {cnt}
    for s_ in body[: inc[0]]:
        if isinstance(s_, ast.Assign) and isinstance(s_.targets[0], ast.Name) and norm(s_.value) == cnt:
            old.add(s_.targets[0].id)
    stores = [(i, s_) for i, s_ in enumerate(body) if isinstance(s_, ast.Assign) and isinstance(s_.targets[0], ast.Subscript) and norm(s_.targets[0].value) in ("self.qubit_map", "self")]
    if len(stores) != 1:
        raise AnchorError(aq.short, f"{len(stores)} top-level stores of the new name -> index: outside the tables")
    i, s_ = stores[0]
    v = norm(s_.value).replace(" ", "")
    ok = (i < inc[0] and v in old) or (i > inc[0] and (v == f"{cnt}-1" or (v in old and v != cnt)))
    ctx.check(ok, "MP-inputs-first", aq, "the new name is mapped to the next free index", norm(s_), f"`{norm(s_)}` ({'before' if i < inc[0] else 'after'} the count is updated) does not record the number of qubits before the call as the new qubit's index", s_)
    rets = q.returns(aq)
    if len(rets) != 1:
        raise AnchorError(aq.short, "expected one return")
    r = rets[0]
    ri = q.stmt_index(body, r)
    v = norm(r.value).replace(" ", "")
    ok = ri is not None and ((ri > inc[0] and (v == f"{cnt}-1" or (v in old and v != cnt))) or (ri < inc[0] and v in old))
    ctx.check(ok, "MP-inputs-first", aq, "add_qubit returns the index it assigned", norm(r), f"`{norm(r)}` is not the index recorded for the new qubit", r)


def check_counts_threshold(ctx: Ctx):
    """MP-threshold: decode_counts sums the counts of all readings that decode to the same outcome and THEN drops the
    outcomes below `discard_lower`.  Several raw readings decode to one outcome (the algorithms measure more qubits
    than the decoded register), so a threshold applied to the raw readings drops an outcome whose readings are each
    below it although their sum is not."""
    dc = ctx.repo.func("qcircuit.qcircuitwrapper.QCircuitWrapper.decode_counts")
    if len(dc.params) < 3:
        raise AnchorError(dc.short, "decode_counts(self, counts, discard_lower) expected")
    raw, thr = dc.params[1], dc.params[2]
    role = "the threshold is applied to the summed counts of the decoded outcomes"
    cmps = [c for c in ast.walk(dc.node) if isinstance(c, ast.Compare) and thr in q.names_in(c) and len(c.ops) == 1 and isinstance(c.ops[0], (ast.GtE, ast.Gt, ast.Lt, ast.LtE))]
    if not cmps:
        ctx.undecided(dc.short, f"MP-threshold [{role}]: no comparison with `{thr}` found")
        return
    pm = dc.pm
    for c in cmps:
        # the collection whose entries are compared: the iterable of the enclosing comprehension / filter / loop
        node, src = c, None
        while node in pm:
            node = pm[node]
            if isinstance(node, (ast.ListComp, ast.DictComp, ast.GeneratorExp, ast.SetComp)):
                src = node.generators[0].iter
                break
            if isinstance(node, ast.Call) and isinstance(node.func, ast.Name) and node.func.id == "filter" and len(node.args) == 2:
                src = node.args[1]
                break
            if isinstance(node, ast.For):
                src = node.iter
                break
            if isinstance(node, (ast.FunctionDef, ast.AsyncFunctionDef)):
                break
        if src is None:
            ctx.undecided(dc.short, f"MP-threshold [{role}]: `{norm(c)}` does not filter a collection the tables describe")
            continue
        base = src
        while isinstance(base, ast.Call) and isinstance(base.func, ast.Attribute) and base.func.attr in ("items", "keys", "values", "copy"):
            base = base.func.value
        if isinstance(base, ast.Name) and base.id == raw:
            # is `raw` still the parameter here, or has it been re-bound to the aggregate?
            rebinds = [a for a in walk_no_nested(dc.node) if isinstance(a, ast.Assign) and any(isinstance(t, ast.Name) and t.id == raw for t in a.targets)]
            from ..core import order_key

            before = [a for a in rebinds if order_key(a) < order_key(c) and not q.contains(a, c)]
            if not before:
                ctx.fail("MP-threshold", dc, role, f"`{norm(c)}` filters `{norm(src)}`, the raw readings, before they are decoded and summed: readings that decode to the same outcome are each dropped when below `{thr}` although their total is not (the algorithms' outcome is split over the measured output/scratch qubits)", c)
                continue
        ctx.ok("MP-threshold", dc, role, f"`{norm(c)}` filters `{norm(src)[:40]}`", c)
