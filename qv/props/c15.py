"""C15 - Grover search amplifies exactly the solutions of the predicate."""
from __future__ import annotations

import ast

from .. import fx, pat, q
from ..core import AnchorError, Ctx, FuncInfo, dotted, guard_facts, norm, walk_no_nested
from ..typestate import CircuitProgram, apply, flatten, state_at_first_oracle
from . import c07, c10, c16

ID = "C15"
TECHNIQUE = (
    "typestate of search register and phase qubit through Grover.__init__ read as a circuit-building program; role "
    "disjointness of oracle and diffuser; effect analysis of the oracle argument; decoder twin rules; dominance of the "
    "default iteration count"
)
EXPLANATION = (
    "Decides: (TS-PREP) when the first oracle is applied the search register is in |+> and the phase qubit has been "
    "prepared (|+>, by exactly one h); each iteration is oracle circuit + one controlled-Z from the result qubit onto "
    "the phase qubit, followed by the diffuser; the diffuser touches only the search register and the phase qubit, "
    "is an h;x ... x;h sandwich around one multi-controlled Z over the whole search register, and the "
    "iterations are a repeat() of oracle+diffuser by the iteration count; (MP-default-iterations) the default count "
    "is computed only when none is given; (FX-PARAM) the oracle argument (and its circuit) is not modified - the "
    "phase qubit and gate go onto a copy; (SB-TWIN) decode_output/output_qubits read the search register with the "
    "argument's type and length; (FX-FLOW) oraclize binds the wrapped function through a to_logicfun() copy and "
    "compares its result with the element; (MP-reverse/MP-keep-guard, shared with C03) the compiler's final reverse "
    "replay, which returns the oracle's scratch qubits to zero, walks every gate in reverse and keeps only the result "
    "qubits.  It does NOT decide any clause about the output distribution, nor the "
    "iteration-count formula."
)
NOT_DECIDED = "every clause about the output distribution; the iteration-count formula; the oracle's own correctness"
# decode_output goes through the nested decoder of the types package (the property's last sentence)
LINT_EXTRA = ("types.interpret_as_qtype.", "types.format_outcome.")
MIN_OBLIGATIONS = 16

G = "algorithms.grover.Grover"


def run(ctx: Ctx):
    from .. import memo as _memo

    ctx.section(_memo.check_memo_keys, ctx, ('algorithms.', 'qcircuit.', 'qlassfun.QlassF.compile', 'qlassfun.QlassF.circuit', 'qlassfun.QlassF.to_logicfun'))
    # the amplification argument needs an oracle that returns its scratch qubits to zero (interference): the final
    # reverse replay of the compiler is part of what Grover relies on
    from . import c03 as _c03

    ctx.section(_c03.check_uncompute_all, ctx)
    an = fx.effects(ctx)
    ci = ctx.repo.cls(G)
    init = ci.methods.get("__init__")
    if init is None:
        raise AnchorError(G + ".__init__", "not found")
    rep = fx.PurityReport(ctx, "FX-PARAM", c10.designed_mutators(ctx))
    fx.check_params_pure(ctx, "FX-PARAM", an, init, ["oracle", "element_to_search"], rep, c10.EXEMPT_ORIGINS)
    rep.flush()
    oz = ctx.repo.func("algorithms.qalgorithm.oraclize")
    rep = fx.PurityReport(ctx, "FX-PARAM", c10.designed_mutators(ctx))
    fx.check_params_pure(ctx, "FX-PARAM", an, oz, ["qf", "element"], rep, c10.EXEMPT_ORIGINS)
    rep.flush()
    # decode_output reads the measured string through interpret_as_qtype (tuple / list arguments)
    from . import c09

    ctx.section(c09.check_nested_decoding, ctx)
    check_program(ctx, init)
    c16.check_decoders(ctx, ci, "self.oracle")
    check_oraclize(ctx, oz)


def check_program(ctx: Ctx, init: FuncInfo):
    prog = CircuitProgram(init)
    events = prog.run()
    st, idx, flat = state_at_first_oracle(events, ("in", "out", "phase"))
    unplaced = [e for e in flat if "?loop" in e[1:]]
    if unplaced:
        raise AnchorError(init.short, f"gates emitted in a loop over an iterable outside the tables: {c16._show(unplaced)}")
    subset = [e for e in flat if "in~" in e[1:]]
    ctx.check(not subset, "TS-PREP", init, "no gate layer is restricted to a run-time-selected subset of the qubits", "", f"{c16._show(subset)}: the loop visits only the qubits passing a run-time filter - preparation and diffuser must cover the whole search register", init.node)
    if st is None:
        ctx.fail("TS-PREP", init, "an oracle is applied", f"no oracle application in {c16._show(flat)}", init.node)
        return
    ctx.check(st["in"] == "+", "TS-PREP", init, "search register in |+> at the first oracle", f"state {st}", f"search register is in state {st['in']} at the first oracle (events before: {c16._show(flat[:idx])})", init.node)
    ctx.check(st["phase"] == "+", "TS-PREP", init, "phase qubit prepared at the first oracle", f"state {st}", f"phase qubit is in state {st['phase']} at the first oracle: it must have received exactly one h (events before: {c16._show(flat[:idx])})", init.node)
    # top level: [... prep ..., REPEAT(iteration, n)]
    reps = [e for e in events if e[0] == "REPEAT"]
    ctx.check(len(reps) == 1 and events[-1][0] == "REPEAT", "TS-PREP", init, "iterations = repeat(oracle + diffuser)", "", f"the main circuit is {c16._show(events)}: not preparation followed by a repeated iteration", init.node)
    if len(reps) != 1:
        return
    ctx.check(reps[0][2] == "n_iterations", "MP-default-iterations", init, "repeated n_iterations times", reps[0][2], f"the iteration block is repeated `{reps[0][2]}` times", init.node)
    it = list(reps[0][1])
    n_or = [i for i, e in enumerate(it) if e[0] == "ORACLE"]
    ctx.check(n_or == [0], "TS-PREP", init, "one oracle per iteration, first", c16._show(it), f"iteration is {c16._show(it)}", init.node)
    if n_or != [0]:
        return
    if len(it) > 1 and "?" in it[1][1:]:
        # a gate on a qubit the typestate program cannot place is not evidence of a wrong circuit
        ctx.undecided(init.short, f"after the oracle the iteration applies {it[1]}: an operand is a qubit expression outside the tables (the result qubit is known as `<oracle circuit>['_ret']`)")
        return
    ctx.check(len(it) > 1 and it[1] == ("cz", "out", "phase"), "TS-PREP", init, "result qubit kicks its value onto the phase qubit", str(it[1]) if len(it) > 1 else "", f"after the oracle the iteration applies {it[1] if len(it) > 1 else None}, not one controlled-Z from `_ret` onto the phase qubit", init.node)
    diff = it[2:]
    regs = set()
    for e in diff:
        regs |= set(e[1:])
    ctx.check(regs <= {"in", "phase"}, "TS-PREP", init, "diffuser touches only search register and phase qubit", str(sorted(regs)), f"the diffuser acts on {sorted(regs)}: it must not touch the oracle's result or scratch qubits", init.node)
    mcz = [i for i, e in enumerate(diff) if e == ("cz", "in", "phase")]
    ok = len(mcz) == 1
    if ok:
        pre, post = diff[: mcz[0]], diff[mcz[0] + 1:]
        # h;x on both registers before, x;h after
        def seq_for(evs, reg):
            return [e[0] for e in evs if e[1] == reg]
        ok = seq_for(pre, "in") == ["h", "x"] and seq_for(pre, "phase") == ["h", "x"] and seq_for(post, "in") == ["x", "h"] and seq_for(post, "phase") == ["x", "h"] and len(pre) == 4 and len(post) == 4
    ctx.check(ok, "TS-PREP", init, "diffuser = h;x / multi-controlled Z over the search register / x;h", c16._show(diff), f"the diffuser is {c16._show(diff)}", init.node)
    unknown = [e for e in flatten(events) if "?" in e[1:]]
    if unknown:
        ctx.undecided(init.short, f"TS-PREP [every gate acts on a known register]: gates on qubits the analysis cannot place: {c16._show(unknown)}")
    else:
        ctx.ok("TS-PREP", init, "every gate acts on a known register", "", init.node)
    # default iteration count only when none is given
    asg = [n for n in walk_no_nested(init.node) if isinstance(n, ast.Assign) and norm(n.targets[0]) == "n_iterations"]
    ok = len(asg) == 1 and any(pol and f == "n_iterations is None" for f, pol in [(norm(e), p) for e, p in guard_facts(init, asg[0])])
    ctx.check(ok, "MP-default-iterations", init, "default count used only when none is given", "", "n_iterations is overwritten even when the caller supplied it", asg[0] if asg else init.node)
    # the extra qubits of the oracle circuit exist in the main circuit
    adds = [c for c in q.calls(init.node) if dotted(c.func) == "self._qcircuit.add_qubit"]
    from ..rewrite import single_bindings as _sb

    verdict = None
    for c in adds:
        par = init.pm.get(c)
        while par is not None and not isinstance(par, (ast.ListComp, ast.For)):
            par = init.pm.get(par)
        if par is None:
            continue
        itn = par.generators[0].iter if isinstance(par, ast.ListComp) else par.iter
        if not (isinstance(itn, ast.Call) and isinstance(itn.func, ast.Name) and itn.func.id == "range" and len(itn.args) == 1):
            continue
        lf = q.linear_form(itn.args[0], _sb(init))
        if lf is None:
            continue
        wide = [k for k, v in lf.items() if k.endswith(".num_qubits") and v == 1]
        verdict = (len(wide) == 1 and lf.get("self.search_space_size") == -1 and len(lf) == 2, norm(itn), c)
    if verdict is None:
        ctx.undecided(init.short, "the main circuit is not widened by `for _ in range(<oracle qubits> - <search register>): add_qubit()`")
    else:
        ctx.check(verdict[0], "TS-PREP", init, "main circuit widened to the oracle circuit's qubit count", verdict[1], f"the main circuit gets `{verdict[1]}` extra qubits, not one per oracle qubit beyond the search register", verdict[2])
    # single-argument oracle check first
    first = [n for n in walk_no_nested(init.node) if isinstance(n, ast.Assign) and norm(n.targets[0]) == "self._qcircuit"]
    facts = [(norm(e), pol) for e, pol in guard_facts(init, first[0])] if first else []
    ctx.check(any((not pol) and f.replace(" ", "") == "len(oracle.args)!=1" for f, pol in facts), "TS-PREP", init, "exactly one argument required", "", "no dominating argument-count check", init.node)


def check_oraclize(ctx: Ctx, fi: FuncInfo):
    # source of the generated oracle: `return <callee>(v) == <element>`
    fs = [n for n in walk_no_nested(fi.node) if isinstance(n, ast.Assign) and isinstance(n.value, ast.JoinedStr) and any(isinstance(v, ast.Constant) and "def " in str(v.value) for v in n.value.values)]
    if len(fs) != 1:
        raise AnchorError(fi.short, "generated oracle source not found")
    txt = norm(fs[0].value)
    ok = "(v) == {element}" in txt and "-> bool" in txt and "{argt_name}" in txt
    ctx.check(ok, "FX-FLOW", fi, "oracle is `callee(v) == element` over the callee's argument type", txt[:80], f"generated source `{txt[:100]}` is not the equality test of the wrapped function's result with the element", fs[0])
    # the name called in the source is the name of the bound definition
    cs = [c for c in q.calls(fi.node) if (dotted(c.func) or "").endswith("from_function")]
    if len(cs) != 1:
        raise AnchorError(fi.short, "from_function call not found")
    dv = q.arg(cs[0], 2, "defs")
    ok = isinstance(dv, ast.List) and len(dv.elts) == 1
    if not ok:
        ctx.undecided(fi.short, "the definitions handed to from_function are not a one-element list")
    else:
        lf = norm(dv.elts[0])
        al = pat.path_aliases(fi.node)
        vals = fs[0].value.values
        called = [pat.tx(v_.value, al) for i_, v_ in enumerate(vals) if isinstance(v_, ast.FormattedValue) and i_ + 1 < len(vals) and isinstance(vals[i_ + 1], ast.Constant) and str(vals[i_ + 1].value).startswith("(v)")]
        # the first component of the bound definition: `lf[0]`, or the name it was rebuilt with (`lf = (n,) + lf[1:]`)
        firsts = {f"{lf}[0]"}
        for n_ in walk_no_nested(fi.node):
            if isinstance(n_, ast.Assign) and norm(n_.targets[0]) == lf and isinstance(n_.value, ast.BinOp) and isinstance(n_.value.left, ast.Tuple) and len(n_.value.left.elts) == 1:
                firsts.add(pat.tx(n_.value.left.elts[0], al))
                firsts.add(norm(n_.value.left.elts[0]))
        if len(called) != 1:
            ctx.undecided(fi.short, f"the generated source applies {called} to the argument: not one call `<name>(v)`")
        else:
            good = called[0] in firsts or norm(ast.parse(called[0], mode="eval").body) in firsts or ("to_logicfun()" in lf and called[0] == "qf.name")
            pat.frag_rule(ctx, "FX-FLOW", fi, "the generated source calls the bound definition by its bound name", good, [(called[0] in ("qf.name", "name"), f"the generated source calls `{called[0]}` while the wrapped function is bound as `{lf}[0]` (it is renamed on a clash with the oracle's own name)")], cs[0])
    ct = [n for n in walk_no_nested(fi.node) if isinstance(n, ast.Raise) and "ConstantOracle" in norm(n)]
    ctx.check(len(ct) == 1, "FX-FLOW", fi, "constant oracles are rejected", "", "", fi.node)
