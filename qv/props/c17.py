"""C17 - Command-line tools print what the library computes."""
from __future__ import annotations

import ast
from typing import Dict, List, Optional

from .. import pat, q
from ..boolterm import head_name
from ..core import AnchorError, Ctx, FuncInfo, dotted, guard_facts, norm, walk_no_nested
from ..rewrite import single_bindings

ID = "C17"
TECHNIQUE = (
    "inlining-before-combination dataflow, head guard on `.args` used as a clause list, completeness of the clause "
    "pipeline (no filtering between construction and printing), literal-sign rule, argparse choices vs implementing "
    "branches, entry-point selection dominance"
)
EXPLANATION = (
    "Decides: (RW-INLINE) py2bexp combines return expressions only after they went through the inliner "
    "(merge_expressions), so the printed expression is over argument bits; (RW-ARITY) `.args` is taken as the list of "
    "clauses only of an established And, and a negated literal is read only under isinstance Not; (MP-clauses) every "
    "clause yields exactly one DIMACS line: one unconditional append per clause, no filtering/de-duplication between "
    "building and printing, negative literals get a minus sign, variable numbering is an enumeration (injective), the "
    "header counts variables and clauses of what is printed; (DP-TABLE) --form/--format/--compiler/--qasm-version "
    "choices and the branches/tables that implement them agree, each form maps to the sympy function of that form; "
    "(MP-entrypoint) the presence test on the selected function does not depend on the function's value (no "
    "__bool__/__len__ in QlassF's class hierarchy while `if qlassf:` is used); -e selects by name, its absence selects through find_last_qlassf, which returns the last "
    "definition; py2qasm compiles with the chosen compiler and exports with the chosen version in circuit mode; "
    "(MP-output) only the result is written to the destination stream (no fixed message).  It "
    "does NOT decide logical equivalence of sympy's normal forms nor the text format."
)
NOT_DECIDED = "logical equivalence of sympy's normal forms; exact output text"
MIN_OBLIGATIONS = 20

B = "tools.py2bexp"
Q = "tools.py2qasm"
FORM_FUNCS = {"anf": "to_anf", "cnf": "to_cnf", "dnf": "to_dnf", "nnf": "to_nnf"}


def run(ctx: Ctx):
    from .. import memo as _memo

    ctx.section(_memo.check_memo_keys, ctx, ('tools.',))
    repo = ctx.repo
    check_bool_expression(ctx, repo.func(f"{B}.convert_to_bool_expression"))
    check_dimacs(ctx, repo.func(f"{B}.convert_to_dimacs"))
    check_output_result(ctx, repo.func(f"{B}.output_result"))
    for m_ in (B, Q):
        orf = repo.maybe_func(f"{m_}.output_result")
        if orf is not None:
            ctx.section(check_only_result_written, ctx, orf)
    for mod in (B, Q):
        check_main(ctx, repo.func(f"{mod}.main"))
    check_quasm(ctx, repo.func(f"{Q}.convert_to_quasm"), repo.func(f"{Q}.main"))
    ctx.section(check_discovery, ctx, repo.func("tools.utils.parse_file"))
    fl = repo.func("tools.tools.find_last_qlassf")
    r = q.returns(fl)
    p = fl.params[0]
    al = pat.path_aliases(fl.node)
    vals = []
    for r_ in r:
        v = r_.value
        for a_ in ([v.body, v.orelse] if isinstance(v, ast.IfExp) else [v]):
            if a_ is not None and not (isinstance(a_, ast.Constant) and a_.value is None):
                vals.append(pat.tx(a_, al))
    if len(vals) != 1:
        ctx.undecided(fl.short, f"find_last_qlassf returns {vals}: not one non-None alternative")
    else:
        known = vals[0] in (f"{p}[-1][1]", f"{p}[0][1]", f"{p}[-1][0]", f"{p}[0]", f"{p}[-1]")
        if not known:
            ctx.undecided(fl.short, f"find_last_qlassf returns `{vals[0]}`: outside the tables")
        else:
            ctx.check(vals[0] == f"{p}[-1][1]", "MP-entrypoint", fl, "default entry point is the last definition", vals[0], f"find_last_qlassf returns `{vals[0]}`, not the function of the last (name, qlassf) pair", fl.node)


def check_bool_expression(ctx: Ctx, fi: FuncInfo):
    qf = fi.params[0]
    form = fi.params[1]
    binds = single_bindings(fi)
    comb = None
    for n in walk_no_nested(fi.node):
        if isinstance(n, ast.Assign) and isinstance(n.value, ast.Call) and head_name(n.value.func) == "And":
            comb = n
    if comb is None:
        raise AnchorError(fi.short, "conjunction of the return bits not found")
    # source list of the conjunction
    arg = comb.value.args[0]
    src = arg.value if isinstance(arg, ast.Starred) else arg
    it = src.generators[0].iter if isinstance(src, (ast.ListComp, ast.GeneratorExp)) else src
    chain = it
    inlined = False
    depth = 0
    while depth < 6:
        depth += 1
        if isinstance(chain, ast.Call) and (dotted(chain.func) or "").split(".")[-1] == "merge_expressions":
            inlined = chain.args and norm(chain.args[0]) == f"{qf}.expressions"
            break
        if isinstance(chain, ast.Name) and chain.id in binds:
            chain = binds[chain.id]
            continue
        break
    ctx.check(bool(inlined), "RW-INLINE", fi, "return bits are inlined before they are combined", f"And(*[e for _, e in merge_expressions({qf}.expressions)])", f"the conjunction is built from `{norm(it)}`: {qf}.expressions is a definition list with shared intermediates (x0, x1, ... after CSE), so combining right-hand sides without the inliner prints free symbols that are not argument bits and constrains intermediates instead of defining them", comb)
    if isinstance(src, (ast.ListComp, ast.GeneratorExp)):
        tgt = src.generators[0].target
        elt = norm(src.elt)
        ok = (isinstance(tgt, ast.Tuple) and elt == norm(tgt.elts[1])) or elt == f"{norm(tgt)}[1]"
        ctx.check(ok and not src.generators[0].ifs, "RW-INLINE", fi, "every return expression, and only the expression, enters the conjunction", elt, f"element `{elt}` / filter {[norm(x) for x in src.generators[0].ifs]}", comb)
    # form -> function table
    seen: Dict[str, str] = {}
    for n in walk_no_nested(fi.node):
        if isinstance(n, ast.If) and isinstance(n.test, ast.Compare) and norm(n.test.left) == form and isinstance(n.test.comparators[0], ast.Constant):
            f_ = n.test.comparators[0].value
            rets = [r for r in n.body if isinstance(r, ast.Return)]
            if rets and isinstance(rets[0].value, ast.Call):
                fn = (dotted(rets[0].value.func) or "").split(".")[-1]
                seen[f_] = fn
                ok = FORM_FUNCS.get(f_) == fn and norm(rets[0].value.args[0]) == norm(comb.targets[0])
                ctx.check(ok, "DP-TABLE", fi, f"form {f_} -> {FORM_FUNCS.get(f_)}", fn, f"form `{f_}` is produced by `{norm(rets[0].value)}`", rets[0])
    if len(seen) < 4:
        raise AnchorError(fi.short, f"only {len(seen)} form branches found")
    ctx.extra["forms"] = sorted(seen)


def check_dimacs(ctx: Ctx, fi: FuncInfo):
    expr = fi.params[0]
    binds = single_bindings(fi)
    # clause list
    loops = [l for l in q.for_loops(fi.node) if not isinstance(l.target, ast.Tuple) and "clause" in norm(l.target) and "lit" not in norm(l.target)]
    main = [l for l in loops if any(isinstance(n, ast.For) for n in ast.walk(l) if n is not l)]
    if len(main) != 1:
        raise AnchorError(fi.short, "loop over clauses not found")
    loop = main[0]
    clauses_src = loop.iter
    v = binds.get(clauses_src.id) if isinstance(clauses_src, ast.Name) else clauses_src
    # `.args` only of an established And
    ok = False
    why = f"clauses = `{norm(v) if v is not None else norm(clauses_src)}`"
    if isinstance(v, ast.IfExp):
        t = norm(v.test)
        ok = "isinstance" in t and "And" in t and norm(v.body).endswith(".args") and isinstance(v.orelse, ast.List) and len(v.orelse.elts) == 1
    elif v is not None and norm(v).endswith(".args"):
        facts = [(norm(e), pol) for e, pol in guard_facts(fi, v)]
        ok = any(pol and "isinstance" in f and "And" in f for f, pol in facts)
    ctx.check(ok, "RW-ARITY", fi, "`.args` taken as clause list only of an And", why, why + ": to_cnf returns a bare clause (Or / literal) when there is only one, and `.args` of that is its literals: `a | b` would be printed as two unit clauses", v if v is not None else loop)
    # one append per clause, unconditional
    lst = None
    apps = [s for s in loop.body if isinstance(s, ast.Expr) and isinstance(s.value, ast.Call) and isinstance(s.value.func, ast.Attribute) and s.value.func.attr == "append"]
    if len(apps) == 1:
        lst = norm(apps[0].value.func.value)
    inner_apps = [c for c in q.method_calls(loop, "append") if lst and norm(c.func.value) == lst]
    ctx.check(lst is not None and len(inner_apps) == 1 and not any(isinstance(n, (ast.Continue, ast.Break)) for n in ast.walk(loop)), "MP-clauses", fi, "every clause yields exactly one line", f"{lst}.append(...) is an unconditional statement of the clause loop", "clauses are appended conditionally (or the loop is cut short): some clauses are not printed, so the DIMACS problem has more models than the function", loop)
    if lst is None:
        return
    # no filtering between construction and printing
    idx = fi.body.index(loop) if loop in fi.body else None
    bad = []
    if idx is not None:
        for s in fi.body[idx + 1:]:
            for n in ast.walk(s):
                if isinstance(n, ast.Assign) and any(norm(t) == lst for t in n.targets):
                    txt = norm(n.value)
                    filt = any(k in txt for k in ("groupby", "set(", "fromkeys", "filter(", "unique")) or any(isinstance(c, (ast.ListComp, ast.GeneratorExp)) and (c.generators[0].ifs or "next(" in norm(c.elt)) for c in ast.walk(n.value)) or any(isinstance(c, ast.Subscript) and isinstance(c.slice, ast.Slice) for c in ast.walk(n.value))
                    if filt:
                        bad.append(norm(n)[:90])
                if isinstance(n, ast.Call) and isinstance(n.func, ast.Attribute) and norm(n.func.value) == lst and n.func.attr in ("remove", "pop", "clear"):
                    bad.append(norm(n)[:60])
                if isinstance(n, ast.Delete):
                    bad.append(norm(n)[:60])
    ctx.check(not bad, "MP-clauses", fi, "no clause is dropped between construction and printing", "", f"the clause list is filtered / de-duplicated after it was built: {bad}: clauses that differ only in literal signs or order are distinct constraints", loop)
    # literal sign
    neg = [n for n in ast.walk(loop) if isinstance(n, ast.If) and "isinstance" in norm(n.test) and "Not" in norm(n.test)]
    ok = False
    if len(neg) == 1:
        b = norm(neg[0].body[0]) if neg[0].body else ""
        o = norm(neg[0].orelse[0]) if neg[0].orelse else ""
        ok = "-var_dict[" in b.replace(" ", "") and ".args[0]" in b and "-" not in o.split("append(")[-1]
    ctx.check(ok, "MP-clauses", fi, "negated literal -> negative variable number, plain literal -> positive", "", "literal polarity is not carried into the DIMACS sign", neg[0] if neg else loop)
    # injective numbering
    vd = [n for n in walk_no_nested(fi.node) if isinstance(n, ast.Assign) and isinstance(n.value, ast.DictComp)]
    ok = False
    if len(vd) == 1:
        dc = vd[0].value
        g = dc.generators[0]
        src_txt = norm(g.iter)
        if isinstance(g.iter, ast.Call) and g.iter.args and isinstance(g.iter.args[0], ast.Name) and g.iter.args[0].id in binds:
            src_txt += " <- " + norm(binds[g.iter.args[0].id])
        ok = isinstance(g.iter, ast.Call) and isinstance(g.iter.func, ast.Name) and g.iter.func.id == "enumerate" and isinstance(g.target, ast.Tuple) and norm(dc.key) == norm(g.target.elts[1]) and norm(dc.value).replace(" ", "") in (f"{norm(g.target.elts[0])}+1",) and "free_symbols" in src_txt
    ctx.check(ok, "MP-clauses", fi, "variables numbered 1..n by enumeration of the free symbols", "", "the variable numbering is not an enumeration of the expression's symbols (two variables may share a number, or 0 may be used)", vd[0] if vd else fi.node)
    txt = norm(fi.node)
    ctx.check(f"len({lst})" in txt and "len(var_dict)" in txt, "MP-clauses", fi, "header counts what is printed", "", "the `p cnf` header does not count the printed variables/clauses", fi.node)
    # printing loop reads the same list
    pl = [l for l in loops if l is not loop and norm(l.iter) == lst]
    ctx.check(len(pl) == 1, "MP-clauses", fi, "printed lines come from the built clause list, in order", "", "the printing loop does not iterate the built clause list", fi.node)


def check_output_result(ctx: Ctx, fi: FuncInfo):
    txt = norm(fi.node)
    ok = "output_format == 'dimacs'" in txt and "convert_to_dimacs(result)" in txt
    ctx.check(ok, "DP-TABLE", fi, "format dimacs -> convert_to_dimacs", "", "the dimacs format is not routed through convert_to_dimacs", fi.node)
    ifs = [n for n in walk_no_nested(fi.node) if isinstance(n, ast.If) and "form != 'cnf'" in norm(n.test)]
    ok = len(ifs) == 1 and "to_cnf(result" in norm(ifs[0])
    ctx.check(ok, "DP-TABLE", fi, "non-CNF forms are converted before DIMACS printing", "", "", fi.node)


def check_only_result_written(ctx: Ctx, fi: FuncInfo):
    """MP-output: what goes to the chosen destination (-o file or the stream standing for it) is the result and only
    the result.  A diagnostic written to that stream becomes part of the expression / clause set / QASM text."""
    outp = next((p_ for p_ in fi.params if "output" in p_ and "format" not in p_), None)
    if outp is None:
        raise AnchorError(fi.short, "output destination parameter not found")
    streams = set()
    for w in ast.walk(fi.node):
        if isinstance(w, (ast.With, ast.AsyncWith)):
            for it in w.items:
                if it.optional_vars is not None and isinstance(it.optional_vars, ast.Name) and outp in q.names_in(it.context_expr):
                    streams.add(it.optional_vars.id)
    role = "only the result is written to the output destination"
    n = 0
    for c in q.calls(fi.node):
        target = None
        payload = []
        if isinstance(c.func, ast.Name) and c.func.id == "print":
            f = next((k.value for k in c.keywords if k.arg == "file"), None)
            if isinstance(f, ast.Name) and f.id in streams:
                target, payload = f.id, list(c.args)
        elif isinstance(c.func, ast.Attribute) and c.func.attr in ("write", "writelines") and isinstance(c.func.value, ast.Name) and c.func.value.id in streams:
            target, payload = c.func.value.id, list(c.args)
        if target is None:
            continue
        n += 1
        literal_only = bool(payload) and all(not q.names_in(a) for a in payload)
        ctx.check(not literal_only, "MP-output", fi, role, norm(c)[:60], f"`{norm(c)[:80]}` writes a fixed message to `{target}`, the stream the result goes to: with -o the message becomes part of the output file (a DIMACS file that starts with a warning line is not a clause set)", c)
    if not n:
        ctx.ok("MP-output", fi, role, "no explicit write to the destination stream besides the result", fi.node, nontrivial=False)


def argparse_choices(fi: FuncInfo) -> Dict[str, List[str]]:
    out: Dict[str, List[str]] = {}
    for c in q.calls(fi.node):
        if isinstance(c.func, ast.Attribute) and c.func.attr == "add_argument":
            names = [a.value for a in c.args if isinstance(a, ast.Constant) and isinstance(a.value, str)]
            long = [n for n in names if n.startswith("--")]
            ch = q.arg(c, None, "choices")
            if long and ch is not None:
                out[long[0]] = static_strings(fi, ch)
    return out


def static_strings(fi: FuncInfo, e) -> Optional[List[str]]:
    """the list of string constants an expression denotes, read off literals and module-level tables: a list/tuple of
    constants; `[n for n, _ in TABLE]` / `[r[0] for r in TABLE]`; `list(D)`, `sorted(D)`, `D.keys()`, `D` for a
    module-level dict literal D.  None when the expression is anything else (no verdict can be based on it)."""
    mod = fi.module

    def table(name):
        return mod.globals_assigned.get(name) if mod is not None else None

    if isinstance(e, (ast.List, ast.Tuple)):
        return [x.value for x in e.elts] if all(isinstance(x, ast.Constant) and isinstance(x.value, str) for x in e.elts) else None
    if isinstance(e, ast.Call) and isinstance(e.func, ast.Name) and e.func.id in ("list", "sorted", "tuple") and len(e.args) == 1:
        return static_strings(fi, e.args[0])
    if isinstance(e, ast.Call) and isinstance(e.func, ast.Attribute) and e.func.attr == "keys" and not e.args:
        return static_strings(fi, e.func.value)
    if isinstance(e, ast.Name):
        t = table(e.id)
        if isinstance(t, ast.Dict):
            return [k.value for k in t.keys] if all(isinstance(k, ast.Constant) and isinstance(k.value, str) for k in t.keys) else None
        if isinstance(t, (ast.List, ast.Tuple)):
            return static_strings(fi, t)
        return None
    if isinstance(e, (ast.ListComp, ast.GeneratorExp)) and len(e.generators) == 1 and not e.generators[0].ifs and isinstance(e.generators[0].iter, ast.Name):
        t = table(e.generators[0].iter.id)
        g = e.generators[0]
        if not isinstance(t, (ast.List, ast.Tuple)):
            return None
        k = None
        if isinstance(g.target, ast.Tuple) and isinstance(e.elt, ast.Name):
            ks = [i for i, x in enumerate(g.target.elts) if isinstance(x, ast.Name) and x.id == e.elt.id]
            k = ks[0] if len(ks) == 1 else None
        elif isinstance(g.target, ast.Name) and isinstance(e.elt, ast.Subscript) and isinstance(e.elt.value, ast.Name) and e.elt.value.id == g.target.id and isinstance(e.elt.slice, ast.Constant):
            k = e.elt.slice.value
        if k is None:
            return None
        out = []
        for r in t.elts:
            if not (isinstance(r, (ast.Tuple, ast.List)) and k < len(r.elts) and isinstance(r.elts[k], ast.Constant) and isinstance(r.elts[k].value, str)):
                return None
            out.append(r.elts[k].value)
        return out
    return None


def check_main(ctx: Ctx, fi: FuncInfo):
    ch = argparse_choices(fi)
    repo = ctx.repo
    if fi.short.startswith(B):
        forms = ctx.extra.get("forms", [])
        for opt, want, role in (("--form", sorted(forms), "--form choices = implemented forms"), ("--format", ["dimacs", "sympy"], "--format choices = {sympy, dimacs}")):
            got = ch.get(opt)
            if got is None:
                ctx.undecided(fi.short, f"DP-TABLE [{role}]: the choices of {opt} are not a list the tables can read")
            else:
                ctx.check(sorted(got) == want, "DP-TABLE", fi, role, str(got), f"{opt} offers {got} but the tool implements {want}", fi.node)
    else:
        lit = repo.module("compiler").globals_assigned.get("SupportedCompiler")
        sup = [e.value for e in ast.walk(lit) if isinstance(e, ast.Constant) and isinstance(e.value, str)] if lit is not None else []
        for opt, want, role in (("--compiler", sorted(sup), "--compiler choices = SupportedCompiler"), ("--qasm-version", ["2.0", "3.0"], "--qasm-version choices = {2.0, 3.0}")):
            got = ch.get(opt)
            if got is None:
                ctx.undecided(fi.short, f"DP-TABLE [{role}]: the choices of {opt} are not a list the tables can read")
            else:
                ctx.check(sorted(got) == want, "DP-TABLE", fi, role, str(got), f"{opt} offers {got} but the library supports {want}", fi.node)
        ver = [n for n in walk_no_nested(fi.node) if isinstance(n, ast.Assign) and norm(n.targets[0]) == "version"]
        role = "3.0 -> exporter version 3, 2.0 -> version 2"
        vt = norm(ver[0].value).replace(" ", "") if len(ver) == 1 else None
        if vt in ("3ifargs.qasm_version=='3.0'else2", "2ifargs.qasm_version=='2.0'else3", "2ifargs.qasm_version!='3.0'else3"):
            ctx.ok("DP-TABLE", fi, role, vt, ver[0])
        elif vt in ("2ifargs.qasm_version=='3.0'else3", "3ifargs.qasm_version=='2.0'else2"):
            ctx.fail("DP-TABLE", fi, role, f"`{vt}` maps the version option to the exporter version of the OTHER number", ver[0])
        else:
            ctx.undecided(fi.short, f"DP-TABLE [{role}]: the exporter version is computed by `{vt}`, a form outside the tables")
    # entry point selection
    sel = [n for n in walk_no_nested(fi.node) if isinstance(n, ast.If) and norm(n.test) == "args.entrypoint"]
    role = "-e selects by name, otherwise the last definition"
    if len(sel) != 1 or not sel[0].body or not sel[0].orelse or not isinstance(sel[0].body[0], ast.Assign) or not isinstance(sel[0].orelse[0], ast.Assign):
        ctx.undecided(fi.short, f"MP-entrypoint [{role}]: the selection is not `if args.entrypoint: <by name> else: <last>`")
    else:
        v, why = selection_by_name(repo, fi, sel[0].body[0].value, "args.entrypoint")
        o = norm(sel[0].orelse[0].value)
        if v == "ok" and "find_last_qlassf(qlassf_list)" in o:
            ctx.ok("MP-entrypoint", fi, role, why, sel[0])
        elif v == "bad":
            ctx.fail("MP-entrypoint", fi, role, why, sel[0])
        elif v == "ok":
            ctx.undecided(fi.short, f"MP-entrypoint [{role}]: without -e the function is `{o[:60]}`, not find_last_qlassf(qlassf_list)")
        else:
            ctx.undecided(fi.short, f"MP-entrypoint [{role}]: {why}")
    txt = norm(fi.node)
    ctx.check("parse_str(script)" in txt, "MP-entrypoint", fi, "functions come from the given script", "", "", fi.node)
    ctx.section(check_found_test, ctx, fi, sel[0] if len(sel) == 1 else None)


def check_found_test(ctx: Ctx, fi: FuncInfo, sel):
    """MP-entrypoint (presence): "was a function selected" must not depend on the function's value.  `if qlassf:` is a
    presence test only as long as no class of QlassF's MRO defines __bool__/__len__ - otherwise a selected function
    that happens to be 'empty' (e.g. a circuit without gates) is reported as not found and nothing is printed."""
    if sel is None or not sel.body or not isinstance(sel.body[0], ast.Assign) or not isinstance(sel.body[0].targets[0], ast.Name):
        raise AnchorError(fi.short, "the variable holding the selected function was not found")
    v = sel.body[0].targets[0].id
    tests = []
    for n in walk_no_nested(fi.node):
        if isinstance(n, (ast.If, ast.IfExp)):
            t = n.test
            while isinstance(t, ast.UnaryOp) and isinstance(t.op, ast.Not):
                t = t.operand
            if isinstance(t, ast.Name) and t.id == v:
                tests.append((n, "truth"))
            elif isinstance(t, ast.Compare) and isinstance(t.left, ast.Name) and t.left.id == v and len(t.ops) == 1 and isinstance(t.ops[0], (ast.Is, ast.IsNot)) and isinstance(t.comparators[0], ast.Constant) and t.comparators[0].value is None:
                tests.append((n, "identity"))
    if not tests:
        raise AnchorError(fi.short, f"no presence test on `{v}`")
    qf = ctx.repo.cls("qlassfun.QlassF")
    offenders = []
    for b in qf.mro():
        for m in ("__bool__", "__len__"):
            if m in b.methods:
                offenders.append(b.methods[m])
    for n, kind in tests:
        role = "the presence test on the selected function does not depend on its value"
        if kind == "identity" or not offenders:
            ctx.ok("MP-entrypoint", fi, role, f"`{norm(n.test)}` ({kind}); QlassF's classes define no __bool__/__len__", n)
        else:
            o = offenders[0]
            ctx.fail("MP-entrypoint", fi, role, f"`if {norm(n.test)}` asks for the truth value of the selected QlassF, and {o.short} (line {o.node.lineno}) makes that value-dependent: a selected function for which it returns 0/False is treated as 'No qlassf function found' and nothing is printed", n)


def _callee_params(repo, qual: str):
    f = repo.func(qual)
    ps = list(f.params)
    return ps[1:] if ps and ps[0] in ("self", "cls") else ps


def check_quasm(ctx: Ctx, fi: FuncInfo, main: FuncInfo):
    """the three calls of convert_to_quasm receive the function's own parameters, whichever way they are spelled"""
    repo = ctx.repo
    p_f, p_c, p_v = fi.params[0], fi.params[1], fi.params[2]
    comp = [c for c in q.calls(fi.node) if isinstance(c.func, ast.Attribute) and c.func.attr == "compile" and norm(c.func.value) == p_f]
    ctor = [c for c in q.calls(fi.node) if (dotted(c.func) or "").split(".")[-1] == "QasmExporter"]
    exp = [c for c in q.calls(fi.node) if isinstance(c.func, ast.Attribute) and c.func.attr == "export"]
    if not (len(comp) == 1 and len(ctor) == 1 and len(exp) == 1):
        ctx.undecided(fi.short, f"expected one compile / QasmExporter / export call each, found {len(comp)}/{len(ctor)}/{len(exp)}")
    else:
        a_c = q.bound_args(repo, comp[0], _callee_params(repo, "qlassfun.QlassF.compile"))
        a_v = q.bound_args(repo, ctor[0], _callee_params(repo, "qcircuit.exporter_qasm.QasmExporter.__init__"))
        a_e = q.bound_args(repo, exp[0], _callee_params(repo, "qcircuit.exporter_qasm.QasmExporter.export"))
        if a_c is None or a_v is None or a_e is None:
            ctx.undecided(fi.short, "a call in convert_to_quasm uses * / ** or an unknown keyword")
        else:
            bad = []
            if a_c[0] is None or norm(a_c[0]) != p_c:
                bad.append(f"`{norm(comp[0])}` does not compile with `{p_c}`")
            if a_v[0] is None or norm(a_v[0]) != p_v:
                bad.append(f"`{norm(ctor[0])}` does not export version `{p_v}`")
            mode = a_e[1] if len(a_e) > 1 else None
            if not (isinstance(mode, ast.Constant) and mode.value == "circuit"):
                bad.append(f"`{norm(exp[0])}` does not export in circuit mode")
            ctx.check(not bad, "DP-TABLE", fi, "compiles with the chosen compiler, exports the chosen version, circuit mode", "", "; ".join(bad), fi.node)
    cs = [c for c in q.calls(main.node) if (dotted(c.func) or "") == "convert_to_quasm"]
    if len(cs) != 1:
        ctx.undecided(main.short, f"{len(cs)} convert_to_quasm calls")
        return
    a_m = q.bound_args(repo, cs[0], list(fi.params))
    if a_m is None:
        ctx.undecided(main.short, "convert_to_quasm is called with * / ** or an unknown keyword")
        return
    got = [norm(x) if x is not None else None for x in a_m[1:3]]
    ctx.check(got == ["compiler", "version"], "DP-TABLE", main, "options reach convert_to_quasm", "", f"the parsed options are not forwarded: compiler={got[0]}, version={got[1]}", cs[0])


def check_discovery(ctx: Ctx, pf: FuncInfo):
    """MP-entrypoint (discovery): the functions a script offers are ALL the QlassF members of its module - built by a
    decorator, from a source string or by binding a template alike.  The member filter is the class test alone."""
    from ..normalize import _expr_of_body

    gm = [c for c in q.calls(pf.node) if (dotted(c.func) or "").split(".")[-1] == "getmembers"]
    if len(gm) != 1:
        ctx.undecided(pf.short, f"{len(gm)} getmembers(...) calls: the members of the script module are not enumerated in a form the tables know")
        return
    holder = pf.pm.get(gm[0])
    pred = None
    var = None
    if isinstance(holder, ast.Call) and isinstance(holder.func, ast.Name) and holder.func.id == "filter" and len(holder.args) == 2 and holder.args[1] is gm[0]:
        f = holder.args[0]
        if isinstance(f, ast.Lambda) and len(f.args.args) == 1:
            pred, var = f.body, f.args.args[0].arg
        elif isinstance(f, ast.Name):
            nd = [n for n in ast.walk(pf.node) if isinstance(n, ast.FunctionDef) and n.name == f.id]
            if nd and len(nd[0].args.args) == 1:
                pred, var = _expr_of_body(nd[0].body), nd[0].args.args[0].arg
    elif isinstance(holder, ast.comprehension):
        comp = pf.pm.get(holder)
        if len(holder.ifs) == 1 and isinstance(holder.target, (ast.Name, ast.Tuple)):
            pred = holder.ifs[0]
            var = norm(holder.target) if isinstance(holder.target, ast.Name) else None
            if var is None:
                var = "(" + ",".join(norm(e) for e in holder.target.elts) + ")"
    if pred is None:
        ctx.undecided(pf.short, "the member filter is neither filter(<predicate>, getmembers(..)) nor a comprehension with one condition")
        return
    t = norm(pred).replace(" ", "")
    conj = pred.values if isinstance(pred, ast.BoolOp) and isinstance(pred.op, ast.And) else [pred]
    is_cls = [c for c in conj if isinstance(c, ast.Call) and norm(c.func) == "isinstance" and len(c.args) == 2 and "QlassF" in norm(c.args[1])]
    others = [c for c in conj if c not in is_cls]
    if not is_cls:
        ctx.undecided(pf.short, f"member filter `{t[:80]}` does not test for QlassF")
    else:
        ctx.check(not others, "MP-entrypoint", pf, "every QlassF member of the script is offered", t[:60], f"members are also required to satisfy {[norm(o)[:70] for o in others]}: compiled functions of the script that fail it (built from a source string, bound from a template, aliased) silently disappear - the tool prints nothing or picks another function", gm[0])


def selection_by_name(repo, fi: FuncInfo, value, wanted: str, depth=0):
    """('ok' | 'bad' | 'unknown', why) for an expression that picks, from the list of (module-level name, QlassF)
    pairs, the function whose name is `wanted`.  Followed into a helper `F(list, name)`.  The name a function is
    offered under is the FIRST component of its pair (the module-level variable), not the `.name` of the QlassF
    (the def it was translated from: bound templates and aliases differ)."""
    def judge(cmp, elem_names, first_names, second_names):
        """cmp: the Compare that mentions `wanted`"""
        sides = [cmp.left] + list(cmp.comparators)
        if len(sides) != 2 or not isinstance(cmp.ops[0], ast.Eq):
            return "unknown", f"`{norm(cmp)}` is not an equality test"
        other = sides[1] if norm(sides[0]) == wanted else sides[0]
        t = norm(other)
        if t in first_names or any(t == f"{e}[0]" for e in elem_names):
            return "ok", f"`{norm(cmp)}`"
        if isinstance(other, ast.Attribute) and other.attr in ("name", "__name__"):
            return "bad", f"`{norm(cmp)}` compares the -e value with the function's own `.{other.attr}` (the name of the def it was translated from), not with the module-level name it is offered under: a bound template or an alias cannot be selected, or selects another function"
        return "unknown", f"`{norm(cmp)}` compares the -e value with `{t}`"

    cmps = []
    if isinstance(value, ast.Call) and isinstance(value.func, ast.Name) and value.func.id == "next" and value.args and isinstance(value.args[0], (ast.GeneratorExp, ast.ListComp)):
        g = value.args[0].generators[0]
        elem, first, second = set(), set(), set()
        if isinstance(g.target, ast.Name):
            elem.add(g.target.id)
        elif isinstance(g.target, ast.Tuple) and len(g.target.elts) == 2:
            first.add(norm(g.target.elts[0])); second.add(norm(g.target.elts[1]))
        for c in g.ifs:
            for x in ast.walk(c):
                if isinstance(x, ast.Compare) and wanted in [norm(y) for y in [x.left] + list(x.comparators)]:
                    cmps.append((x, elem, first, second))
        if not cmps:
            return "unknown", f"`{norm(value)[:70]}` does not compare anything with `{wanted}`"
        return judge(*cmps[0])
    if isinstance(value, ast.Call) and isinstance(value.func, ast.Name) and depth < 2:
        callee = None
        r = repo.resolve_name(fi.module, value.func.id) if fi.module is not None else None
        if isinstance(r, FuncInfo):
            callee = r
        if callee is None:
            # a helper of a helper that was inlined here from another module: the name is not imported in this one
            cands = [f for f in repo.functions.values() if f.parent is None and f.cls is None and f.name == value.func.id and f.short.startswith("tools.")]
            if len(cands) == 1:
                callee = cands[0]
        if callee is None:
            return "unknown", f"`{value.func.id}` could not be resolved"
        ps = callee.params
        passed = None
        for i_, a_ in enumerate(value.args):
            if norm(a_) == wanted and i_ < len(ps):
                passed = ps[i_]
        for kw in value.keywords:
            if norm(kw.value) == wanted:
                passed = kw.arg
        if passed is None:
            return "unknown", f"`{wanted}` is not handed to `{value.func.id}`"
        # generator form inside the helper
        for rt in q.returns(callee):
            if isinstance(rt.value, ast.Call) and isinstance(rt.value.func, ast.Name) and rt.value.func.id == "next":
                return selection_by_name(repo, callee, rt.value, passed, depth + 1)
            if isinstance(rt.value, ast.Call) and isinstance(rt.value.func, ast.Name) and rt.value.func.id != callee.name and any(norm(a_) == passed for a_ in rt.value.args):
                guards = [norm(e_) for e_, pol in guard_facts(callee, rt) if pol]
                if passed in guards or not guards:
                    return selection_by_name(repo, callee, rt.value, passed, depth + 1)
        # loop form
        for l_ in q.for_loops(callee.node):
            elem, first, second = set(), set(), set()
            if isinstance(l_.target, ast.Name):
                elem.add(l_.target.id)
            elif isinstance(l_.target, ast.Tuple) and len(l_.target.elts) == 2:
                first.add(norm(l_.target.elts[0])); second.add(norm(l_.target.elts[1]))
            for x in ast.walk(l_):
                if isinstance(x, ast.Compare) and passed in [norm(y) for y in [x.left] + list(x.comparators)]:
                    saved = wanted
                    wanted = passed
                    try:
                        return judge(x, elem, first, second)
                    finally:
                        wanted = saved
        return "unknown", f"`{value.func.id}` does not look the name up in a way the tables describe"
    return "unknown", f"`{norm(value)[:70]}` is not a look-up by name the tables describe"
