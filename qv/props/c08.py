"""C08 - Binding parameters is specialisation."""
from __future__ import annotations

import ast

from .. import fx, pat, q
from ..core import AnchorError, Ctx, dotted, guard_facts, norm, walk_no_nested
from ..rewrite import single_bindings

ID = "C08"
TECHNIQUE = (
    "effect analysis of UnboundQlassf.bind with ast.NodeTransformer.visit and the stored translation closure modelled "
    "as mutating; dominance/ordering rules on the injected assignments; agreement of the two Parameter predicates"
)
EXPLANATION = (
    "Decides: (FX-SELF/FX-PARAM) bind never writes through self or its keyword values - the tree it edits and hands to "
    "the translation closure (which normalises it in place) is a deep copy; (MP-one-assign) every accepted keyword "
    "becomes exactly one `name = value` assignment, built from that keyword's name and value, nested values converted "
    "element-wise in order; (MP-prepend) the injected assignments come before the original body; (MP-remove) all and "
    "only the Parameter-annotated arguments are removed from the signature; (MP-checks-first) the count check and the "
    "unknown-name check dominate the edit; (SB-TWIN) every annotation from_function detects as a parameter is removed "
    "by bind.  It does NOT decide agreement with the unbound Python function on every input, nor constant propagation "
    "in the AST rewriter."
)
NOT_DECIDED = "agreement with the unbound Python function on every input; constant propagation of the injected assignments"
MIN_OBLIGATIONS = 11

BIND = "qlassfun.UnboundQlassf.bind"


def run(ctx: Ctx):
    # the injected `name = value` assignments take effect through the rewriter's table of compile-time constants
    from . import c01 as _c01

    ctx.section(_c01.check_const_table, ctx)
    from .. import memo as _memo

    ctx.section(_memo.check_memo_keys, ctx, ('qlassfun.UnboundQlassf', 'qlassfun.QlassF.from_function', 'qlassfun.is_parameter', 'ast2ast.', 'types.parameter'))
    an = fx.effects(ctx)
    fi = ctx.repo.func(BIND)
    rep = fx.PurityReport(ctx, "FX-SELF")
    fx.check_params_pure(ctx, "FX-SELF", an, fi, ["self"], rep)
    rep.flush()
    rep = fx.PurityReport(ctx, "FX-PARAM")
    fx.check_params_pure(ctx, "FX-PARAM", an, fi, [p for p in fi.all_params if p != "self"], rep)
    rep.flush()
    # the translation closure is resolved (otherwise its in-place normalisation is invisible to the analysis)
    cl = an.attr_closures.get(("qlasskit.qlassfun.UnboundQlassf", "_do_translate"), [])
    ctx.check(len(cl) >= 1, "FX-SELF", fi, "translation closure resolved", f"self._do_translate -> {[c.short for c in cl]}", "self._do_translate could not be resolved to the closure built in from_function: its effects on the tree are not analysed", fi.node)
    # the tree that is edited = what is handed to the translation closure (FX-SELF above decides that it is not
    # reachable from self: today it is `copy.deepcopy(self.fun_ast)`)
    calls = [c for c in q.calls(fi.node) if dotted(c.func) == "self._do_translate"]
    if len(calls) != 1 or not calls[0].args or not isinstance(calls[0].args[0], ast.Name):
        raise AnchorError(BIND, "expected one self._do_translate(<tree>, ...) call")
    tree = calls[0].args[0].id

    # the injected assignment `name = value`: where do name and value come from?
    asgs = [c for c in q.calls(fi.node) if pat.ctor_name(c) == "Assign" and (dotted(c.func) or "").startswith("ast.")]
    lst = None
    if len(asgs) != 1:
        ctx.undecided(BIND, f"{len(asgs)} generated assignments (one `name = value` per keyword expected)")
    else:
        asg = asgs[0]
        tg = pat.only_elt(pat.field(asg, "targets"))
        val = pat.field(asg, "value")
        kname = pat.field(tg, "id") if pat.ctor_name(tg) == "Name" else None
        if not isinstance(kname, ast.Name) or val is None:
            ctx.undecided(BIND, f"generated assignment `{norm(asg)[:80]}`: target is not ast.Name(id=<keyword>)")
        else:
            k = kname.id
            ws = sorted(q.names_in(val) - {k, "to_val", "ast", "self"} - set(fi.nested))
            # the binding construct of k: a for loop or a comprehension whose target mentions k
            binder = None
            cur = asg
            while cur is not None:
                cur = fi.pm.get(cur)
                if isinstance(cur, ast.For) and k in q.names_in(cur.target):
                    binder = (cur.target, cur.iter, cur)
                    break
                if isinstance(cur, (ast.ListComp, ast.GeneratorExp)) and any(k in q.names_in(g.target) for g in cur.generators):
                    g = [g for g in cur.generators if k in q.names_in(g.target)][0]
                    binder = (g.target, g.iter, cur)
                    break
            if binder is None:
                ctx.undecided(BIND, f"the keyword name `{k}` of the generated assignment is not bound by an enclosing loop or comprehension")
            else:
                target, it, node = binder
                itxt = pat.t(it)
                kw = "kwargs"
                pair_target = isinstance(target, ast.Tuple) and len(target.elts) == 2 and norm(target.elts[0]) == k and all(w_ in q.names_in(target.elts[1]) for w_ in ws) and len(ws) == 1
                if pair_target and itxt in (f"{kw}.items()", f"list({kw}.items())", f"zip({kw}.keys(),{kw}.values())", f"zip({kw},{kw}.values())"):
                    ctx.ok("MP-one-assign", fi, "one assignment per keyword, name -> its own value", f"({k}, {ws[0]}) from {itxt}", node)
                elif isinstance(target, ast.Name) and target.id == k and pat.t(val).count(f"{kw}[{k}]") >= 1 and not ws:
                    ctx.ok("MP-one-assign", fi, "one assignment per keyword, name -> its own value", f"{k} in {itxt}, value {kw}[{k}]", node)
                elif pair_target and isinstance(it, ast.Call) and pat.t(it.func) == "zip" and len(it.args) == 2:
                    binds = pat.bindings(fi.node)
                    a0, a1 = (pat.look_through(x, binds) for x in it.args)
                    ctx.fail("MP-one-assign", fi, "one assignment per keyword, name -> its own value", f"names come from `{norm(a0)[:60]}` and values from `{norm(a1)[:60]}`: two sequences in different orders are zipped, so a name is paired with whatever value sits at the same position, not with the value passed for it (bind(hi=3, lo=1) binds lo=3, hi=1)", node)
                else:
                    ctx.undecided(BIND, f"(name, value) pairs come from `{norm(it)[:80]}`: outside the tables")
            # where the generated assignments are collected
            app = fi.pm.get(asg)
            if isinstance(app, ast.Call) and isinstance(app.func, ast.Attribute) and app.func.attr == "append":
                lst = norm(app.func.value)
            else:
                holder = q.enclosing_stmt(fi, asg)
                if isinstance(holder, ast.Assign) and isinstance(holder.targets[0], ast.Name):
                    lst = holder.targets[0].id
            # unknown names are rejected before anything is injected
            unk = [n for n in ast.walk(fi.node) if isinstance(n, ast.If) and pat.t(n.test).endswith("notinself.parameters") and any(isinstance(x, ast.Raise) for x in n.body)]
            ctx.check(bool(unk), "MP-checks-first", fi, "unknown parameter names are rejected", "", "no `<name> not in self.parameters -> raise`: a keyword that is not a parameter of the function is injected as a new assignment", fi.node)
    loops = [l for l in q.for_loops(fi.node) if "kwargs" in norm(l.iter)]
    loop = loops[0] if loops else fi.node
    # count check dominates the construction
    anchor = asgs[0] if asgs else fi.node
    facts = [(norm(e), pol) for e, pol in guard_facts(fi, anchor)]
    ok = any((not pol) and "len(kwargs" in f and "len(self.parameters" in f and "!=" in f for f, pol in facts)
    ctx.check(ok, "MP-checks-first", fi, "all parameters must be bound at once", "length check raises first", f"the generated assignments are not dominated by the parameter-count check (guards: {facts})", anchor)
    # to_val: nested values, element-wise and in order
    tv = fi.nested.get("to_val")
    if tv is None:
        raise AnchorError(BIND + ".to_val", "value converter not found")
    txt = norm(tv.node)
    rets = q.returns(tv)
    tup = [r for r in rets if isinstance(r.value, ast.Call) and (dotted(r.value.func) or "").endswith("Tuple")]
    con = [r for r in rets if isinstance(r.value, ast.Call) and (dotted(r.value.func) or "").endswith("Constant")]
    ok = len(tup) == 1 and len(con) == 1
    if ok:
        elts = q.arg(tup[0].value, 0, "elts")
        core, par = q.reversal_parity(elts)
        ok = par == 0 and ("map(to_val" in norm(core) or "to_val(" in norm(core)) and tv.params[0] in q.names_in(core) and "sorted" not in norm(elts) and "set(" not in norm(elts)
        cv = q.arg(con[0].value, 0, "value")
        ok = ok and cv is not None and norm(cv) == tv.params[0]
    ctx.check(ok, "MP-one-assign", tv, "values converted element-wise, in order", "Tuple(elts=map(to_val, w)) / Constant(value=w)", "nested parameter values are not converted element by element in their original order", tv.node)

    ctx.section(check_edit, ctx, fi, tree, lst)
    ctx.section(check_modmask, ctx)


def check_modmask(ctx: Ctx):
    """exact, over the modules this property is anchored in"""
    n = 0
    for fi in ctx.repo.functions.values():
        if fi.parent is not None or not any(fi.module.name.startswith(x) for x in ['qlasskit.qlassfun', 'qlasskit.types.parameter']):
            continue
        for site in q.modulo_by_mask_sites(fi.node):
            n += 1
            ctx.fail("SB-MODMASK", fi, f"`{norm(site)[:50]}`", f"`{norm(site)}` reduces a value with the all-ones mask as MODULUS: the largest value of that width ((1 << n) - 1) becomes 0; the modulus for n bits is 2**n (or use `& mask`)", site)
    ctx.ok("SB-MODMASK", None, "no value is reduced modulo an all-ones mask", f"{n} sites", construct="qlassfun")


def _expand_aliases(fi, tree: str):
    """single-binding local names that stand for a part of the edited tree (`fun_def = fun_ast.body[0]`)"""
    import re

    al = {}
    for n in walk_no_nested(fi.node):
        if isinstance(n, ast.Assign) and len(n.targets) == 1 and isinstance(n.targets[0], ast.Name):
            al.setdefault(n.targets[0].id, []).append(n.value)
    al = {k: norm(v[0]) for k, v in al.items() if len(v) == 1 and isinstance(v[0], (ast.Attribute, ast.Subscript)) and (norm(v[0]).startswith(tree + ".") or norm(v[0]).startswith(tree + "["))}

    def ex(e) -> str:
        t = norm(e)
        for k, v in al.items():
            t = re.sub(rf"(?<![\w.]){re.escape(k)}(?!\w)", v, t)
        return t

    return ex


def check_edit(ctx: Ctx, fi, tree: str, lst):
    ex = _expand_aliases(fi, tree)
    # prepend
    st = [n for n in walk_no_nested(fi.node) if isinstance(n, ast.Assign) and ex(n.targets[0]).endswith(".body") and ex(n.targets[0]).startswith(tree) and ex(n.targets[0]) != f"{tree}.body"]
    ok = False
    why = ""
    if not st:
        raise AnchorError(BIND, f"no assignment to the function body of the tree `{tree}` handed to the translation: the edit is made in a form outside the tables")
    if len(st) == 1 and isinstance(st[0].value, ast.BinOp) and isinstance(st[0].value.op, ast.Add):
        ok = lst is not None and norm(st[0].value.left) == lst and ex(st[0].value.right) == ex(st[0].targets[0])
        why = f"`{norm(st[0])}`: the injected assignments must come first, followed by the whole original body"
    ctx.check(ok, "MP-prepend", fi, "injected assignments are prepended", "body = new_body + body", why, st[0] if st else fi.node)
    # removal of the parameters
    rm = [n for n in walk_no_nested(fi.node) if isinstance(n, ast.Assign) and ex(n.targets[0]).endswith(".args.args") and ex(n.targets[0]).startswith(tree)]
    ok = False
    why = ""
    if not rm:
        raise AnchorError(BIND, f"no assignment to the argument list of the tree `{tree}` handed to the translation: the edit is made in a form outside the tables")
    pred = None
    if len(rm) == 1 and isinstance(rm[0].value, ast.ListComp):
        lc = rm[0].value
        g = lc.generators[0]
        ok = norm(lc.elt) == norm(g.target) and ex(g.iter) == ex(rm[0].targets[0]) and len(g.ifs) == 1 and isinstance(g.ifs[0], ast.UnaryOp) and isinstance(g.ifs[0].op, ast.Not) and isinstance(g.ifs[0].operand, ast.Call)
        if ok:
            pred = dotted(g.ifs[0].operand.func)
            ok = norm(g.ifs[0].operand.args[0]) == f"{norm(g.target)}.annotation"
        why = f"`{norm(rm[0])[:100]}` does not keep exactly the arguments whose annotation is not a Parameter"
    ctx.check(ok, "MP-remove", fi, "exactly the Parameter[...] arguments are removed", f"filter: not {pred}(arg.annotation)", why, rm[0] if rm else fi.node)

    # SB-TWIN: what from_function detects is what bind removes
    ff = ctx.repo.func("qlassfun.QlassF.from_function")
    det = [n for n in walk_no_nested(ff.node) if isinstance(n, ast.If) and "Parameter" in norm(n.test)]
    if len(det) != 1:
        raise AnchorError(ff.short, "parameter detection not found")
    dt = norm(det[0].test)
    detects_subscript_name = "ast.Subscript" in dt and "ast.Name" in dt and "== 'Parameter'" in dt
    pf = ctx.repo.maybe_func(f"qlassfun.{pred}") if pred else None
    removes = False
    if pf is not None:
        for n in walk_no_nested(pf.node):
            if isinstance(n, ast.If) and "ast.Subscript" in norm(n.test):
                inner = [m for m in ast.walk(n) if isinstance(m, ast.If) and "ast.Name" in norm(m.test) and "== 'Parameter'" in norm(m.test)]
                removes = any(any(isinstance(r, ast.Return) and isinstance(r.value, ast.Constant) and r.value.value is True for r in ast.walk(m)) for m in inner)
    ctx.check(detects_subscript_name and removes, "SB-TWIN", ff, "detected parameters are removed parameters", "Subscript(Name('Parameter')) is recognised by both predicates", "the annotation form that makes from_function return an UnboundQlassf is not the form bind() removes: a detected parameter stays in the signature (or an undetected one is removed)", det[0])
    # the detected name is stored as key of self.parameters
    st = [n for n in ast.walk(det[0]) if isinstance(n, ast.Assign) and isinstance(n.targets[0], ast.Subscript)]
    ctx.check(len(st) == 1 and norm(st[0].targets[0].slice).endswith(".arg"), "SB-TWIN", ff, "parameters are recorded under the argument's name", norm(st[0])[:60] if st else "", "the parameter table is not keyed by argument name", det[0])
