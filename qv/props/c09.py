"""C09 - Type codecs are exact and mutually inverse."""
from __future__ import annotations

import ast
from typing import Dict, List, Optional, Tuple

from .. import fx, q
from ..core import AnchorError, ClassInfo, Ctx, FuncInfo, const_value, dotted, norm, walk_no_nested
from ..rewrite import single_bindings
from ..orient import NA, UNK, Orient, Qual, Sig

ID = "C09"
TECHNIQUE = (
    "bit-order qualifier inference (LE / BE / fixed-point layout pieces, `0b` prefix position) over every codec "
    "function with declared signatures that are re-inferred from the bodies; class-constant arithmetic; registry "
    "agreement; module-state rule on the constant inference"
)
EXPLANATION = (
    "Decides: (OR-FLOW/OR-PREFIX/OR-EXT/OR-SIG) in to_bool/from_bool/const/to_amplitudes of QintImp, Qchar and "
    "QfixedImp, in bin_to_bool_list, bool_list_to_bin, Qtype.to_bin/from_bin/fill/crop/shift_left/shift_right and the "
    "fixed-point helpers (integer_part, fractional_part, _to_qint_repr, _from_qint_repr), every bit sequence keeps one "
    "orientation from producer to consumer: bin() output is stripped of its prefix before it is reversed, int(., 2) "
    "only ever reads MSB-first strings, zero-extension is at the end of LSB-first lists and at the front of MSB-first "
    "ones, encoders return and decoders accept the LSB-first (fixed point: LSB-first integer part followed by "
    "MSB-first fraction) layout, and the amplitude index is the integer whose bit k is bit k of the encoding; "
    "(SB-TWIN) const() agrees with to_bool() by construction or by qualifier; (OR-SEQ) nested decoding walks the "
    "element types forward, each slice bounded by its own size; (SB-CONST) class names, BIT_SIZE constants, "
    "BIT_SIZE = INTEGER + FRACTIONAL, registries and the constant-inference candidate list agree; (FX-MODSTATE) "
    "nothing in the types package keeps module-level state; (OR-EXACT) a rounding call in the fixed-point codecs keeps "
    "at least as many decimals as the finest shipped type has fractional bits.  It does NOT decide equality over all 2^w patterns nor "
    "float rounding in the fractional part."
)
NOT_DECIDED = "exhaustive equality over all 2^w patterns; float rounding in the fractional part"
MIN_OBLIGATIONS = 70

T = "types"


def sigs_for(fixed: bool) -> Dict[str, Sig]:
    enc = "QF" if fixed else "LE"
    return {
        "bin_to_bool_list": Sig({"b": "BE", "bit_size": "ANY"}, "BE"),
        "bool_list_to_bin": Sig({"b_lst": "ANY"}, "ANY:b_lst"),
        "to_bool": Sig({}, enc),
        "to_bin": Sig({}, enc),
        "from_bool": Sig({"v": enc}, "NA"),
        "from_bin": Sig({"v": enc}, "NA"),
        "fill": Sig({"v": "TEXP"}, "TEXP"),
        "crop": Sig({"v": "TEXP"}, "TEXP"),
        "integer_part": Sig({"v": "TEXP"}, "LEint"),
        "fractional_part": Sig({"v": "TEXP"}, "FR"),
        "_to_qint_repr": Sig({"v": "TEXP"}, "SCALED"),
        "_from_qint_repr": Sig({"v": "TEXP"}, "QF"),
        "format_outcome": Sig({"out": "ANY", "out_len": "ANY"}, "ANY:out"),
        "interpret_as_qtype": Sig({"out": "BE", "qtype": "ANY", "out_len": "ANY"}, "NA"),
    }


def analyse(ctx: Ctx, fi: FuncInfo, env: Dict[str, Qual], fixed: bool, texp_layout="LE") -> Orient:
    o = Orient(fi, sigs_for(fixed), env, texp_layout=texp_layout).run()
    return o


def report(ctx: Ctx, fi: FuncInfo, o: Orient, what: str):
    if not o.issues:
        ctx.ok("OR-FLOW", fi, what, "every bit sequence reaches its consumer in the orientation the consumer reads", fi.node)
        return
    seen = set()
    for i in o.issues:
        if i.rule in seen:
            continue
        seen.add(i.rule)
        ctx.fail(i.rule, fi, what, i.msg, i.node)


def expect_ret(ctx: Ctx, fi: FuncInfo, o: Orient, want: str, what: str):
    if not o.returns:
        raise AnchorError(fi.short, "no return value")
    for r, v in o.returns:
        n_before = len(o.issues)
        v2 = o.resolve_pad(v, r, norm(r.value)) if v.lay.startswith(("FRONTPAD", "ENDPAD")) else v
        if v.lay.startswith("TEXP:") and v.lay.split(":", 1)[1].startswith(("FRONTPAD", "ENDPAD")) and what not in ("fill", "shift_left"):
            o.resolve_pad(Qual(v.lay.split(":", 1)[1]), r, norm(r.value))
        for iss in o.issues[n_before:]:
            ctx.fail(iss.rule, fi, what, iss.msg, iss.node)
        lay = v2.lay.split(":", 1)[1] if v2.lay.startswith("TEXP:") else v2.lay
        if lay.startswith(("FRONTPAD", "ENDPAD")):
            lay = lay.split(":", 1)[1]
        ok = lay == want or (want == "LE" and lay in ("LE", "SCALED")) or (want == "BE" and lay in ("BE",))
        if lay == "?" and o.issues:
            continue  # the flow findings already reported explain why no layout can be assigned
        if lay == "?":
            raise AnchorError(fi.short, f"{what}: the layout of `{norm(r.value)[:60]}` cannot be inferred (idiom outside the tables)")
        ctx.check(ok and v2.pre == "none", "OR-SIG", fi, f"{what}: returns {want}", f"inferred {v2}", f"declared (docstring / callers) to return a {want} sequence, but `{norm(r.value)[:70]}` is {v2}", r)


def run(ctx: Ctx):
    from .. import memo as _memo

    ctx.section(_memo.check_memo_keys, ctx, ('types.',))
    repo = ctx.repo
    qint = repo.cls(f"{T}.qint.QintImp")
    qchar = repo.cls(f"{T}.qchar.Qchar")
    qfix = repo.cls(f"{T}.qfixed.QfixedImp")
    qtype = repo.cls(f"{T}.qtype.Qtype")

    # ---- helpers
    b2l = repo.func(f"{T}.qtype.bin_to_bool_list")
    o = analyse(ctx, b2l, {b2l.params[0]: Qual("BE", "front")}, False)
    report(ctx, b2l, o, "bin_to_bool_list")
    expect_ret(ctx, b2l, o, "BE", "bin_to_bool_list")
    # the prefix is stripped before anything else
    strip = [n for n in walk_no_nested(b2l.node) if isinstance(n, (ast.If, ast.IfExp)) and "startswith('0b')" in norm(n.test)]
    if len(strip) != 1:
        ctx.undecided(b2l.short, f"`0b` prefix handling: {len(strip)} tests for the prefix")
    else:
        # what is cut off under the test is the first two characters
        cut = [n for n in ast.walk(strip[0]) if isinstance(n, ast.Subscript) and isinstance(n.slice, ast.Slice)]
        front = [n for n in cut if norm(n.slice.lower) == "2" and n.slice.upper is None and n.slice.step is None] if cut else []
        ctx.check(bool(front), "OR-PREFIX", b2l, "`0b` prefix stripped from the front", norm(front[0]) if front else "", f"under the `0b` test the string is cut as {[norm(n) for n in cut]}: the prefix is the first two characters", strip[0])
    l2b = repo.func(f"{T}.qtype.bool_list_to_bin")
    for lay in ("LE", "BE"):
        o = analyse(ctx, l2b, {l2b.params[0]: Qual(lay)}, False)
        expect_ret(ctx, l2b, o, lay, f"bool_list_to_bin({lay})")

    # ---- integer-like types
    for ci, unit in ((qint, "self.value"), (qchar, "ord(self.value)")):
        fb = need(ci, "from_bool")
        o = analyse(ctx, fb, {fb.params[1]: Qual("LE")}, False)
        report(ctx, fb, o, "from_bool(LE)")
        tb = need(ci, "to_bool")
        o = analyse(ctx, tb, {}, False)
        report(ctx, tb, o, "to_bool")
        expect_ret(ctx, tb, o, "LE", "to_bool")
        cs = need(ci, "const")
        o = analyse(ctx, cs, {}, False)
        report(ctx, cs, o, "const")
        check_texp_args(ctx, cs, o, "LE", "const")
        ta = need(ci, "to_amplitudes")
        o = analyse(ctx, ta, {}, False)
        report(ctx, ta, o, "to_amplitudes")
        check_amplitudes(ctx, ta, o, unit)

    # ---- fixed point
    fb = need(qfix, "from_bool")
    o = analyse(ctx, fb, {fb.params[1]: Qual("QF")}, True)
    report(ctx, fb, o, "from_bool(QF)")
    fr_loops = [(n, t, v) for (n, t, v) in o.bit_loops]
    ok = any(v.lay == "FR" for _, _, v in fr_loops)
    if not fr_loops:
        ctx.undecided(fb.short, "no loop over bits in the fixed-point decoder: the fraction is decoded in a form outside the tables")
    else:
        ctx.check(ok, "OR-FLOW", fb, "fraction bits weighted MSB-first", "loop over the MSB-first fraction with weight 2**-(i+1)", f"the fractional weights are not accumulated over the MSB-first fraction (loops over {[(t, str(v)) for _, t, v in fr_loops]})", fb.node)
    if ok:
        lp = [n for n, _, v in fr_loops if v.lay == "FR"][0]
        # weight of the k-th visited bit (k = 0 first): 2 ** -(k + 1), whatever the counter starts at
        it = lp.iter
        start = 0
        is_enum = isinstance(it, ast.Call) and isinstance(it.func, ast.Name) and it.func.id == "enumerate" and isinstance(lp.target, ast.Tuple) and len(lp.target.elts) == 2 and isinstance(lp.target.elts[0], ast.Name)
        if is_enum:
            sv = it.args[1] if len(it.args) > 1 else next((k.value for k in it.keywords if k.arg == "start"), None)
            if sv is not None:
                start = sv.value if isinstance(sv, ast.Constant) and isinstance(sv.value, int) else None
        pows = [n for n in ast.walk(lp) if isinstance(n, ast.BinOp) and isinstance(n.op, ast.Pow) and isinstance(n.left, ast.Constant) and n.left.value == 2]
        if not is_enum or start is None or len(pows) != 1:
            ctx.undecided(fb.short, f"the fraction loop is not `for i, bit in enumerate(fraction[, start])` with one power of two ({len(pows)} found)")
        else:
            iv = lp.target.elts[0].id
            lf = q.linear_form(pows[0].right)
            par = fb.pm.get(pows[0])
            divided = isinstance(par, ast.BinOp) and isinstance(par.op, ast.Div) and par.right is pows[0]
            if lf is None:
                ctx.undecided(fb.short, f"the exponent `{norm(pows[0].right)}` is not linear in the bit index")
            else:
                if divided:
                    lf = {k: -v for k, v in lf.items()}
                # exponent = -(i - start + 1) = -i + start - 1
                want = {iv: -1}
                if start - 1:
                    want[""] = start - 1
                ctx.check(lf == want, "OR-FLOW", fb, "fraction bit i has weight 2**-(i+1)", f"exponent {norm(pows[0].right)}, counter from {start}", f"the k-th fraction bit (counter `{iv}` from {start}) is weighted 2**({norm(pows[0].right)}){' in a denominator' if divided else ''}, not 2**-(k+1)", pows[0])
    tb = need(qfix, "to_bool")
    o = analyse(ctx, tb, {}, True)
    # the fraction list is built MSB-first by repeated doubling
    o2 = o
    report(ctx, tb, o, "to_bool")
    check_fixed_to_bool(ctx, tb, o)
    cs = need(qfix, "const")
    o = analyse(ctx, cs, {}, True)
    report(ctx, cs, o, "const")
    r = q.returns(cs)
    twin = len(r) == 1 and any(isinstance(c, ast.Call) and isinstance(c.func, ast.Attribute) and c.func.attr == "to_bool" for n in walk_no_nested(cs.node) for c in [n] if isinstance(n, ast.Call))
    ctx.check(twin, "SB-TWIN", cs, "const() is to_bool() of the same value", "cls(v).to_bool()", "the compile-time encoding is not obtained from the runtime encoder", cs.node)
    ta = need(qfix, "to_amplitudes")
    o = analyse(ctx, ta, {}, True)
    report(ctx, ta, o, "to_amplitudes")
    check_amplitudes(ctx, ta, o, None)
    for name, layout, want in (("integer_part", "QF", "LEint"), ("fractional_part", "QF", "FR"), ("_to_qint_repr", "QF", "SCALED"), ("_from_qint_repr", "SCALED", "QF")):
        fi = need(qfix, name)
        o = analyse(ctx, fi, {fi.params[0]: Qual("TEXP")}, True, texp_layout=layout)
        report(ctx, fi, o, name)
        expect_ret(ctx, fi, o, want, name)

    # ---- Qtype generic codecs
    tb = need(qtype, "to_bin")
    o = analyse(ctx, tb, {}, False)
    expect_ret(ctx, tb, o, "LE", "Qtype.to_bin")
    fbn = need(qtype, "from_bin")
    o = analyse(ctx, fbn, {fbn.params[1]: Qual("LE")}, False)
    report(ctx, fbn, o, "Qtype.from_bin(LE)")
    ctx.section(check_extension_ops, ctx, qtype)
    ctx.section(check_constants, ctx)
    ctx.section(check_const_to_qtype, ctx)
    ctx.section(check_nested_decoding, ctx)
    # module state in the types package (constant caches etc.)
    an = fx.effects(ctx)
    n = 0
    for qn, s in an.summaries.items():
        if not qn.startswith("qlasskit.types"):
            continue
        n += 1
        for k, org in s.gmut.items():
            ctx.fail("FX-MODSTATE", ctx.repo.maybe_func(org.func), f"writes module-level `{k[-1].split('.')[-1]}`", f"{org.what}: encodings/inference results then depend on what was encoded earlier in the process (keys that compare equal, 1 == 1.0 == True, share an entry)", None, construct=org.func)
    for fi in ctx.repo.functions.values():
        if fi.module.name.startswith("qlasskit.types") and not isinstance(fi.node, ast.Lambda):
            for d in fi.node.decorator_list:
                dn = dotted(d.func) if isinstance(d, ast.Call) else dotted(d)
                if dn and dn.split(".")[-1] in ("lru_cache", "cache"):
                    ctx.fail("FX-MODSTATE", fi, f"@{dn}", "memoisation keyed by argument equality conflates 1, 1.0 and True", fi.node)
    ctx.ok("FX-MODSTATE", None, "types package keeps no module-level state", f"{n} summaries scanned", construct="types")
    ctx.section(check_modmask, ctx)
    ctx.section(check_exact, ctx)


def need(ci: ClassInfo, name: str) -> FuncInfo:
    m = ci.methods.get(name)
    if m is None:
        raise AnchorError(f"{ci.qualname[len('qlasskit.'):]}.{name}", "codec method not found")
    return m


def check_texp_args(ctx: Ctx, fi: FuncInfo, o: Orient, want: str, what: str):
    if not o.texp_args:
        raise AnchorError(fi.short, f"{what}: no (type, bits) value is built")
    for c, key, txt, v in o.texp_args:
        lay = v.lay
        ctx.check(lay in ("LE", "QF") if want == "LE" else lay == want, "OR-SIG", fi, f"{what}: bits handed to {key} are {want}", f"`{txt}` is {v}", f"`{txt}` is {v} where `{key}` (which pads/cuts at the high end of an LSB-first list) needs a {want} list: the constant is encoded bit-reversed", c)


def check_amplitudes(ctx: Ctx, fi: FuncInfo, o: Orient, unit: Optional[str]):
    if not o.index_stores:
        raise AnchorError(fi.short, "no `ampl[index] = 1` store")
    sb = single_bindings(fi)
    for tgt, v in o.index_stores:
        idx = tgt.slice
        hops = set()
        while isinstance(idx, ast.Name) and idx.id in sb and idx.id not in hops:  # `i = int(...); ampl[i] = 1`
            hops.add(idx.id)
            idx = sb[idx.id]
        t = norm(idx)
        if unit is not None and t == unit:
            ctx.ok("OR-FLOW", fi, "amplitude index = the encoded integer itself", t, tgt)
            continue
        if isinstance(idx, ast.Call) and isinstance(idx.func, ast.Name) and idx.func.id == "int":
            # issues (if any) were raised by the int(., 2) rule
            bad = [i for i in o.issues if i.node is idx]
            if not bad:
                ctx.ok("OR-FLOW", fi, "amplitude index = sum bit_k 2^k of the encoding", t, tgt)
            continue
        # `<QintClass>.from_bool(<own LSB-first bits>).value`: correct only if that class is at least as wide as
        # every type using this method (QintImp keeps its value modulo 2**BIT_SIZE)
        if isinstance(idx, ast.Attribute) and idx.attr == "value" and isinstance(idx.value, ast.Call) and isinstance(idx.value.func, ast.Attribute) and idx.value.func.attr == "from_bool" and len(idx.value.args) == 1 and norm(idx.value.args[0]) == "self.to_bool()":
            k = ctx.repo.resolve_dotted(fi.module, norm(idx.value.func.value))
            if isinstance(k, ClassInfo) and fi.cls is not None:
                kw = None
                for b in k.mro():
                    if b.consts.get("BIT_SIZE") is not None:
                        kw = const_value(b.consts.get("BIT_SIZE"))
                        break
                widths = [const_value(c.consts.get("BIT_SIZE")) for c in ctx.repo.subclasses(fi.cls) + [fi.cls] if c.consts.get("BIT_SIZE") is not None]
                widths = [w for w in widths if isinstance(w, int)]
                if isinstance(kw, int) and widths:
                    ctx.check(kw >= max(widths), "OR-FLOW", fi, "amplitude index = sum bit_k 2^k of the encoding", t, f"the index is read back through {k.name}, which keeps its value modulo 2**{kw}, but {fi.cls.name} has subclasses of up to {max(widths)} bits: bits {kw} and above of the encoding are dropped and the one-hot entry lands on the wrong basis state", tgt)
                    continue
        raise AnchorError(fi.short, f"amplitude index `{t}` in a form outside the tables")
    # vector length
    alloc = [n for n in walk_no_nested(fi.node) if isinstance(n, ast.Assign) and isinstance(n.value, ast.BinOp) and isinstance(n.value.op, ast.Mult)]
    ok = any(norm(a.value).replace(" ", "") in ("[0.0]*2**self.BIT_SIZE", "[0.0]*(2**self.BIT_SIZE)", "[0]*2**self.BIT_SIZE") for a in alloc)
    ctx.check(ok, "SB-CONST", fi, "amplitude vector has 2**BIT_SIZE entries", "", "the amplitude vector length is not 2**BIT_SIZE", fi.node)


def check_fixed_to_bool(ctx: Ctx, fi: FuncInfo, o: Orient):
    """pattern = LSB-first integer part (BIT_SIZE_INTEGER bits, no prefix) ++ MSB-first fraction produced by
    repeated doubling.  The two halves are found from the returned concatenation, not by name."""
    if o.issues:
        return  # the flow findings above already locate the defect
    r = q.returns(fi)
    if len(r) != 1 or r[0].value is None:
        ctx.undecided(fi.short, f"{len(r)} return statements in the fixed-point encoder")
        return
    rv = r[0].value
    binds = single_bindings(fi)
    seen = set()
    while isinstance(rv, ast.Name) and rv.id in binds and rv.id not in seen:
        seen.add(rv.id)
        rv = binds[rv.id]
    if not (isinstance(rv, ast.BinOp) and isinstance(rv.op, ast.Add)):
        ctx.undecided(fi.short, f"the encoder returns `{norm(rv)[:60]}`, not the concatenation of an integer part and a fraction")
        return
    left, right = rv.left, rv.right
    # which operand is the integer part: the one computed through bin_to_bool_list
    def via_b2l(e) -> bool:
        e2 = e
        seen_ = set()
        while True:
            core, _ = q.reversal_parity(e2, binds)
            if isinstance(core, ast.Name) and core.id in binds and core.id not in seen_:
                seen_.add(core.id)
                e2 = binds[core.id]
                continue
            return any(isinstance(c, ast.Call) and (dotted(c.func) or "").endswith("bin_to_bool_list") for c in ast.walk(core))
    l_int, r_int = via_b2l(left), via_b2l(right)
    if l_int == r_int:
        ctx.undecided(fi.short, "cannot tell the integer part from the fraction in the returned concatenation")
        return
    ctx.check(l_int, "OR-SIG", fi, "pattern = integer part ++ fraction", norm(rv)[:60], f"returns `{norm(rv)[:80]}`: the fraction comes first", r[0])
    ip_e, fr_e = (left, right) if l_int else (right, left)
    ip = o.ev(ip_e)
    ctx.check(ip.lay in ("LE", "LEint") and ip.pre == "none", "OR-SIG", fi, "integer part is LSB-first, without prefix", str(ip), f"integer part `{norm(ip_e)[:50]}` is {ip}: the encoder must emit the LSB-first bits of the integer part (strip `0b`, pad at the front while MSB-first, then reverse)", r[0])
    # fraction: a list filled in one loop of BIT_SIZE_FRACTIONAL steps: double the remainder, then append the integer digit
    fcore, fpar = q.reversal_parity(fr_e, binds)
    fname = fr_e.id if isinstance(fr_e, ast.Name) else (fcore.id if isinstance(fcore, ast.Name) else None)
    loops = [n for n in walk_no_nested(fi.node) if isinstance(n, ast.For) and "BIT_SIZE_FRACTIONAL" in norm(n.iter)]
    if fname is None or len(loops) != 1:
        ctx.undecided(fi.short, f"the fraction `{norm(fr_e)[:50]}` is not a list filled by one loop over the fractional width")
    else:
        l = loops[0]
        grow, dbl, bad = [], [], []
        for k, st in enumerate(l.body):
            t = norm(st).replace(" ", "")
            if isinstance(st, ast.AugAssign) and norm(st.target) == fname and isinstance(st.op, ast.Add):
                grow.append(k)
            elif isinstance(st, ast.Expr) and isinstance(st.value, ast.Call) and isinstance(st.value.func, ast.Attribute) and norm(st.value.func.value) == fname:
                if st.value.func.attr == "append":
                    grow.append(k)
                else:
                    bad.append(t)
            elif isinstance(st, ast.Assign) and norm(st.targets[0]) == fname:
                bad.append(t)
            if (isinstance(st, ast.AugAssign) and isinstance(st.op, ast.Mult) and norm(st.value) == "2") or (isinstance(st, ast.Assign) and isinstance(st.value, ast.BinOp) and isinstance(st.value.op, ast.Mult) and "2" in (norm(st.value.left), norm(st.value.right))):
                dbl.append(k)
        if bad or len(grow) != 1 or not dbl:
            if bad:
                ctx.check(False, "OR-SIG", fi, "fraction emitted MSB-first (double, take the integer digit, append)", "", f"the fraction list is filled by {bad}: digits produced by doubling come out most significant first and must be appended in that order", l)
            else:
                ctx.undecided(fi.short, f"the fraction loop has {len(grow)} appends and {len(dbl)} doublings")
        else:
            ctx.check(dbl[0] < grow[0] and fpar == 0, "OR-SIG", fi, "fraction emitted MSB-first (double, take the integer digit, append)", "", "the fractional digits are not produced by doubling and appended in order" + (" (the list is reversed afterwards)" if fpar else ""), l)
    # width of the integer part is BIT_SIZE_INTEGER
    calls = [c for c in q.calls(fi.node) if (dotted(c.func) or "").endswith("bin_to_bool_list")]
    ok = any(len(c.args) == 2 and norm(c.args[1]).endswith("BIT_SIZE_INTEGER") for c in calls)
    if not calls:
        ctx.undecided(fi.short, "no bin_to_bool_list call")
    else:
        ctx.check(ok, "OR-SIG", fi, "integer part has BIT_SIZE_INTEGER bits", "", f"`{norm(calls[0])[:70]}` does not ask for BIT_SIZE_INTEGER bits", calls[0])


def check_extension_ops(ctx: Ctx, qtype: ClassInfo):
    """fill pads at the END of an LSB-first list, crop keeps a PREFIX, shift_left puts zeros in FRONT, shift_right drops a prefix"""
    fill = need(qtype, "fill")
    o = Orient(fill, sigs_for(False), {fill.params[1]: Qual("TEXP")}).run()
    rv = [v for r, v in o.returns if not (isinstance(r.value, ast.Name))]
    ok = any(v.lay == "TEXP:ENDPAD:LE" for v in rv)
    ctx.check(ok, "OR-EXT", fill, "fill zero-extends at the end (high bits) of the LSB-first list", "v[1] + k * [False]", f"fill returns {[str(v) for v in rv]}: padding in front of an LSB-first list shifts the value instead of widening it", fill.node)
    V = fill.params[1]
    env = {k: v for k, v in q.straight_line_env(fill.body, None).items()}
    for s_ in ast.walk(fill.node):
        if isinstance(s_, ast.Assign) and len(s_.targets) == 1 and isinstance(s_.targets[0], ast.Name):
            env.setdefault(s_.targets[0].id, s_.value)
    pads = [n for n in ast.walk(fill.node) if isinstance(n, ast.BinOp) and isinstance(n.op, ast.Mult) and any(isinstance(x, ast.List) and len(x.elts) == 1 and norm(x.elts[0]) == "False" for x in (n.left, n.right))]
    if len(pads) != 1:
        ctx.undecided(fill.short, f"pads exactly up to BIT_SIZE: {len(pads)} `k * [False]` paddings")
    else:
        cnt = pads[0].left if isinstance(pads[0].right, ast.List) else pads[0].right
        lf = q.linear_form(cnt, env)
        bits_len = {f"len({V}[1])", f"len({norm(env[k])})" if False else ""}
        want_ok = lf is not None and lf.get("cls.BIT_SIZE") == 1 and sum(1 for k in lf if k) == 2 and any(k.startswith("len(") and v == -1 for k, v in lf.items()) and lf.get("", 0) == 0
        ctx.check(want_ok, "OR-EXT", fill, "pads exactly up to BIT_SIZE", norm(cnt), f"the number of zeros appended is `{norm(cnt)}` (= {lf}), not BIT_SIZE - len(bits)", pads[0])
    crop = need(qtype, "crop")
    sl = [n for n in walk_no_nested(crop.node) if isinstance(n, ast.Subscript) and isinstance(n.slice, ast.Slice)]
    ok = len(sl) == 1 and sl[0].slice.lower is None and sl[0].slice.upper is not None and norm(sl[0].slice.upper) == "cls.BIT_SIZE" and sl[0].slice.step is None
    ctx.check(ok, "OR-EXT", crop, "crop keeps the low BIT_SIZE bits (a prefix of the LSB-first list)", "v[1][:cls.BIT_SIZE]", f"crop slices `{norm(sl[0]) if sl else '?'}`: keeping anything but the first BIT_SIZE elements drops low-order bits", crop.node)
    shl = need(qtype, "shift_left")
    v, i = shl.params[0], shl.params[1]
    r = q.returns(shl)
    inner = [c for c in q.calls(shl.node) if isinstance(c.func, ast.Attribute) and c.func.attr == "crop"]
    ok = len(inner) == 1 and isinstance(inner[0].args[0], ast.Tuple) and norm(inner[0].args[0].elts[1]).replace(" ", "") == f"[False]*{i}+{v}[1]"
    ctx.check(ok, "OR-EXT", shl, "shift_left inserts i zeros at the low end, then crops", f"crop([False] * {i} + {v}[1])", "shift_left does not insert zeros at the front of the LSB-first list and crop to width", shl.node)
    shr = need(qtype, "shift_right")
    v, i = shr.params[0], shr.params[1]
    inner = [c for c in q.calls(shr.node) if isinstance(c.func, ast.Attribute) and c.func.attr == "fill"]
    ok = len(inner) == 1 and isinstance(inner[0].args[0], ast.Tuple) and norm(inner[0].args[0].elts[1]).replace(" ", "") == f"{v}[1][{i}:]"
    ctx.check(ok, "OR-EXT", shr, "shift_right drops the i low bits, then zero-fills at the top", f"fill({v}[1][{i}:])", "shift_right does not drop a prefix of the LSB-first list and fill to width", shr.node)


def check_constants(ctx: Ctx):
    repo = ctx.repo
    im = repo.module(f"{T}.qint")
    fm = repo.module(f"{T}.qfixed")
    ints = {n: c for n, c in im.classes.items() if n.startswith("Qint") and n[4:].isdigit()}
    fixs = {n: c for n, c in fm.classes.items() if n.startswith("Qfixed") and "_" in n}
    if len(ints) < 9 or len(fixs) < 13:
        raise AnchorError(f"{T}.qint", f"{len(ints)} Qint / {len(fixs)} Qfixed classes found (9 / 13 confirmed by hand)")
    for n, c in sorted(ints.items()):
        v = const_value(c.consts.get("BIT_SIZE"))
        ctx.check(v == int(n[4:]), "SB-CONST", None, f"{n}.BIT_SIZE == {n[4:]}", f"{v}", f"class {n} declares BIT_SIZE = {v}", construct=f"{T}.qint.{n}")
    for n, c in sorted(fixs.items()):
        i_, f_ = n[len("Qfixed"):].split("_")
        b, bi, bf = (const_value(c.consts.get(k)) for k in ("BIT_SIZE", "BIT_SIZE_INTEGER", "BIT_SIZE_FRACTIONAL"))
        ctx.check(bi == int(i_) and bf == int(f_) and b == bi + bf, "SB-CONST", None, f"{n}: INTEGER={i_}, FRACTIONAL={f_}, BIT_SIZE={int(i_) + int(f_)}", f"{b}={bi}+{bf}", f"class {n} declares BIT_SIZE={b}, INTEGER={bi}, FRACTIONAL={bf}", construct=f"{T}.qfixed.{n}")
    base = repo.cls(f"{T}.qfixed.QfixedImp")
    b, bi, bf = (const_value(base.consts.get(k)) for k in ("BIT_SIZE", "BIT_SIZE_INTEGER", "BIT_SIZE_FRACTIONAL"))
    ctx.check(b == bi + bf, "SB-CONST", None, "QfixedImp default sizes add up", f"{b}={bi}+{bf}", "", construct=f"{T}.qfixed.QfixedImp")
    for mod, name, classes in ((im, "QINT_TYPES", ints), (fm, "QFIXED_TYPES", fixs)):
        lst = mod.globals_assigned.get(name)
        if not isinstance(lst, ast.List):
            raise AnchorError(f"{mod.name}.{name}", "registry not found")
        members = [norm(e) for e in lst.elts]
        ctx.check(sorted(members) == sorted(classes) and len(set(members)) == len(members), "SB-CONST", None, f"{name} lists every defined class once", f"{len(members)} members", f"{name} = {members} but the module defines {sorted(classes)}", construct=f"{mod.name[len('qlasskit.'):]}.{name}")
        sizes = [const_value(classes[m].consts.get("BIT_SIZE")) for m in members if m in classes]
        if name == "QINT_TYPES":
            ctx.check(sizes == sorted(sizes), "SB-CONST", None, f"{name} ascending by width", str(sizes), "registry order is used for smallest-fit lookups", construct=f"{mod.name[len('qlasskit.'):]}.{name}")
    # type_for_size
    tfs = repo.func(f"{T}.qint.Qint.type_for_size")
    ctx.check("det_type.BIT_SIZE == s" in norm(tfs.node).replace(tfs.params[0], "s") and "QINT_TYPES" in norm(tfs.node), "SB-CONST", tfs, "Qint.type_for_size looks the width up in QINT_TYPES", "", "", tfs.node)
    # Qchar width
    qc = repo.cls(f"{T}.qchar.Qchar")
    ctx.check(const_value(qc.consts.get("BIT_SIZE")) == 8, "SB-CONST", None, "Qchar.BIT_SIZE == 8", "", "", construct=f"{T}.qchar.Qchar")
    # QintImp normalises its value to the width
    ini = need(repo.cls(f"{T}.qint.QintImp"), "__init__")
    ctx.check("value % 2 ** self.BIT_SIZE" in norm(ini.node), "SB-CONST", ini, "stored value reduced modulo 2**BIT_SIZE", "", "", ini.node)
    cst = need(repo.cls(f"{T}.qint.QintImp"), "const")
    ctx.check("% 2 ** cls.BIT_SIZE" in norm(cst.node), "SB-CONST", cst, "constant reduced modulo 2**BIT_SIZE", "", "", cst.node)


def check_const_to_qtype(ctx: Ctx):
    fi = ctx.repo.func(f"{T}.const_to_qtype")
    loops = [l for l in q.for_loops(fi.node) if isinstance(l.iter, ast.List)]
    if len(loops) != 1:
        raise AnchorError(fi.short, "integer candidate list not found")
    names = [norm(e) for e in loops[0].iter.elts]
    sizes = []
    for n in names:
        c = ctx.repo.module(f"{T}.qint").classes.get(n)
        if c is None:
            raise AnchorError(fi.short, f"candidate {n} is not a Qint class")
        sizes.append(const_value(c.consts.get("BIT_SIZE")))
    ctx.check(sizes == sorted(sizes) and len(set(sizes)) == len(sizes), "SB-CONST", fi, "integer candidates ascending (smallest type that fits)", str(sizes), f"candidate widths {sizes} are not ascending: a small constant gets a wider type than necessary or a wide one is shadowed", loops[0])
    d = norm(loops[0].target)
    test = [n for n in loops[0].body if isinstance(n, ast.If)]
    ok = len(test) == 1 and norm(test[0].test).replace(" ", "") == f"value<2**{d}.BIT_SIZE" and norm(test[0].body[0]).replace(" ", "") == f"return{d}.const(value)"
    ctx.check(ok, "SB-CONST", fi, "fits iff value < 2**BIT_SIZE, encoded by that type", "", "the fit test / encoder of the integer constant inference changed", loops[0])
    chain = [s for s in fi.body if isinstance(s, ast.If)]
    ch, els = q.dispatch_chain(fi.body)
    kinds = [norm(t) for t, _ in ch]
    want = ["isinstance(value, int)", "isinstance(value, str)", "isinstance(value, float)"]
    if sorted(kinds[:3]) != sorted(want):
        ctx.undecided(fi.short, f"constant dispatch tests are {kinds}: not the int / str / float classification")
    else:
        # bool is an int for isinstance: the order matters only between overlapping tests, and none of these overlap
        ctx.ok("SB-CONST", fi, "int / str / float constants dispatched by their own type", str(kinds), chain[0] if chain else fi.node)
    tail = fi.body[-1]
    ctx.check(isinstance(tail, ast.Raise) or (els is not None and len(els) > 0 and isinstance(els[-1], ast.Raise)), "DP-CLOSED", fi, "constants of no known type raise", "", "a constant of no known type falls off the end of const_to_qtype (None is returned instead of an error)", fi.node)


def check_nested_decoding(ctx: Ctx):
    """interpret_as_qtype._interpret walks get_args forward; each element gets out[idx : idx + size]; idx += size;
    size is computed recursively"""
    fi = ctx.repo.func(f"{T}.interpret_as_qtype")
    it = fi.nested.get("_interpret")
    gs = fi.nested.get("_getsize")
    if it is None or gs is None:
        # the two helpers found by the part they play, wherever they live (nested closure or module-level function):
        # the decoder is the self-recursive function started from a return statement of interpret_as_qtype, the size
        # function is the self-recursive one-parameter function it calls that reads BIT_SIZE
        def resolve(name):
            return fi.nested.get(name) or ctx.repo.maybe_func(f"{T}.{name}")

        def self_recursive(f):
            return any(isinstance(c.func, ast.Name) and c.func.id == f.name for c in q.calls(f.node))

        it = gs = None
        for r in q.returns(fi):
            for c in q.calls(r):
                if isinstance(c.func, ast.Name):
                    f = resolve(c.func.id)
                    if f is not None and len(f.params) == 3 and self_recursive(f):
                        it = f
        if it is not None:
            for c in q.calls(it.node):
                if isinstance(c.func, ast.Name) and c.func.id != it.name:
                    f = resolve(c.func.id)
                    if f is not None and len(f.params) == 1 and "BIT_SIZE" in norm(f.node) and self_recursive(f):
                        gs = f
        if it is None or gs is None:
            # a decoder that returns (value, bits consumed) needs no size function: decide what can be decided of it
            cand = it or next((f for f in fi.nested.values() if self_recursive(f) and any("get_args" in norm(l_.iter) for l_ in q.for_loops(f.node))), None)
            if cand is not None and _pair_protocol_violation(ctx, cand):
                return
            raise AnchorError(fi.short, "the nested decoder (a self-recursive (bits, type, width) function started from interpret_as_qtype) and its size function were not found")
    loops = [l for l in q.for_loops(it.node) if "get_args" in norm(l.iter)]
    if len(loops) != 1:
        raise AnchorError(it.short, "tuple branch loop not found")
    l = loops[0]
    core, par = q.reversal_parity(l.iter)
    ctx.check(par == 0 and norm(core) == f"get_args({it.params[1]})", "OR-SEQ", it, "element types visited forward", norm(l.iter), f"iterates `{norm(l.iter)}`", l)
    x = norm(l.target)
    bits, width_p = it.params[0], it.params[2]
    rec = [c for c in q.calls(l) if norm(c.func) == it.name]
    if len(rec) != 1 or len(rec[0].args) != 3:
        if _pair_protocol_violation(ctx, it):
            return
        ctx.undecided(it.short, f"tuple branch: {len(rec)} recursive calls with (bits, type, width) in the element loop")
        return
    call = rec[0]
    call_stmt = q.enclosing_stmt(it, call)
    env = q.straight_line_env(l.body, call_stmt)
    ctx.check(norm(call.args[1]) == x, "OR-SEQ", it, "element decoded with its own type", norm(call)[:70], f"`{norm(call)[:90]}` decodes the element with type `{norm(call.args[1])}`, not with its own type `{x}`", call)
    W = f"{gs.name}({x})"
    wform = q.linear_form(call.args[2], env)
    sl = call.args[0]
    if not (isinstance(sl, ast.Subscript) and isinstance(sl.slice, ast.Slice) and norm(sl.value) == bits and sl.slice.step is None):
        ctx.undecided(it.short, f"tuple branch: the element is not decoded from a slice of `{bits}` (`{norm(sl)[:60]}`)")
        return
    lo = q.linear_form(sl.slice.lower, env) if sl.slice.lower is not None else {}
    up = q.linear_form(sl.slice.upper, env) if sl.slice.upper is not None else None
    if wform is None or lo is None:
        ctx.undecided(it.short, "tuple branch: width / offset of the element are not integer-linear expressions")
        return
    ctx.check(wform == {W: 1}, "OR-SEQ", it, "element width from _getsize(element type)", f"width = {W}", f"the width handed to the recursive call is `{norm(call.args[2])}` (= {wform}), not {W}: the width of an element is the size of its own type", call)
    # the offset variable: the only name in the lower bound that is carried from iteration to iteration
    offs = [k for k in lo if k and not k.startswith(gs.name + "(")]
    if len(offs) != 1 or lo != {offs[0]: 1}:
        ctx.undecided(it.short, f"tuple branch: the slice starts at `{norm(sl.slice.lower) if sl.slice.lower else 0}`, not at one running offset")
        return
    off = offs[0]
    if up is None:
        ctx.fail("OR-SEQ", it, "each element reads exactly its own bits", f"the element slice `{norm(sl)}` has no upper bound: it must be bounded by the element's own width (an unbounded slice hides a wrong width)", sl)
    else:
        diff = dict(up)
        for k, v in lo.items():
            diff[k] = diff.get(k, 0) - v
        diff = {k: v for k, v in diff.items() if v}
        ctx.check(diff == {W: 1}, "OR-SEQ", it, "each element reads exactly its own bits", f"{bits}[{off} : {off} + {W}]", f"the element slice is `{norm(sl)}` (length {diff}): it must start at the running offset and be exactly {W} long", sl)
    # advance of the offset over one iteration
    end_env = q.straight_line_env(l.body, None)
    adv = q.linear_form(ast.Name(id=off, ctx=ast.Load()), end_env) if off in end_env else None
    if adv is None:
        ctx.fail("OR-SEQ", it, "offset advances by the element's width", f"the running offset `{off}` is not updated in the loop: every element is read from the same position", l)
    else:
        start = off + "@in" if (off + "@in") in adv else off
        step = {k: v for k, v in adv.items() if k != start}
        carried = adv.get(start, 0) == 1
        ctx.check(carried and step == {W: 1}, "OR-SEQ", it, "offset advances by the element's width", f"{off} += {W}", f"over one iteration the offset `{off}` becomes {adv}: it must grow by exactly {W}, the width of the element just read", l)
    inits = [n for n in walk_no_nested(it.node) if isinstance(n, ast.Assign) and norm(n.targets[0]) == off and not q.contains(l, n)]
    ctx.check(len(inits) == 1 and norm(inits[0].value) == "0", "OR-SEQ", it, "first element starts at offset 0", norm(inits[0]) if inits else "", f"the running offset starts at `{norm(inits[0].value) if inits else '?'}`", inits[0] if inits else l)
    app = q.method_calls(l, "append")
    ctx.check(len(app) == 1 and not any(isinstance(n, ast.Call) and isinstance(n.func, ast.Attribute) and n.func.attr == "insert" for n in ast.walk(l)), "OR-SEQ", it, "values collected in element order", "", "", l)
    # _getsize: BIT_SIZE, recursive sum over get_args, 1 for bool
    txt = norm(gs.node)
    p = gs.params[0]
    gbinds = single_bindings(gs)

    def over_args(e) -> bool:
        seen_ = set()
        while isinstance(e, ast.Name) and e.id in gbinds and e.id not in seen_:
            seen_.add(e.id)
            e = gbinds[e.id]
        return "get_args" in norm(e)

    self_calls = [c for c in q.calls(gs.node) if isinstance(c.func, ast.Name) and c.func.id == gs.name]
    rec_ok = False
    for l2 in q.for_loops(gs.node):
        if over_args(l2.iter) and any(q.contains(l2, c) for c in self_calls):
            # summed: an accumulator grown by the recursive width
            rec_ok = any(isinstance(s_, ast.AugAssign) and isinstance(s_.op, ast.Add) and any(c2 in self_calls for c2 in ast.walk(s_.value)) for s_ in ast.walk(l2)) or rec_ok
    for c in q.calls(gs.node):
        if isinstance(c.func, ast.Name) and c.func.id == "sum" and any(x_ in self_calls for x_ in ast.walk(c)):
            rec_ok = True
    if not rec_ok and self_calls:
        ctx.undecided(gs.short, "OR-SEQ [width of a tuple = sum of the widths of its elements, recursively]: the size function calls itself, but not inside a sum / accumulating loop over get_args(...) that the tables describe")
    else:
        ctx.check(rec_ok, "OR-SEQ", gs, "width of a tuple = sum of the widths of its elements, recursively", "", "the size function never calls itself: the width of a nested tuple is not the recursive sum of its elements' widths (a nested tuple element counted as one bit, or by a missing BIT_SIZE, mis-aligns every later element)", gs.node)
    ctx.check(f"{p}.BIT_SIZE" in txt and "return 1" in txt, "OR-SEQ", gs, "width of a Qtype = BIT_SIZE, of bool = 1", "", "", gs.node)
    # leaves
    leaf = [r for r in q.returns(it) if isinstance(r.value, ast.Call) and isinstance(r.value.func, ast.Attribute) and r.value.func.attr == "from_bool"]
    ok = len(leaf) == 1 and norm(leaf[0].value.args[0]).replace(" ", "") in (f"{it.params[0]}[0:{it.params[2]}]", f"{it.params[0]}[:{it.params[2]}]")
    ctx.check(ok, "OR-SEQ", it, "a Qtype leaf decodes the first out_len bits", "", "", it.node)
    # top level: reversed once
    entry = [c for r in q.returns(fi) for c in q.calls(r) if norm(c.func) == it.name]
    if len(entry) != 1 or not entry[0].args:
        ctx.undecided(fi.short, "the decoder is not started by one call of the nested _interpret from a return statement")
    else:
        binds = {n.targets[0].id: n.value for n in fi.body if isinstance(n, ast.Assign) and isinstance(n.targets[0], ast.Name)}
        core, par = q.reversal_parity(entry[0].args[0], binds)
        if not (isinstance(core, ast.Call) and norm(core.func) == "format_outcome"):
            ctx.undecided(fi.short, f"the decoded sequence `{norm(entry[0].args[0])[:60]}` does not come from format_outcome(...)")
        else:
            ctx.check(par == 1, "OR-FLOW", fi, "measurement-order input reversed exactly once before decoding", norm(entry[0].args[0])[:60], f"the reading is reversed {par} time(s) mod 2 between format_outcome and the decoder: interpret_as_qtype must turn the MSB-first reading into the LSB-first list the decoders take, exactly once", entry[0])


def _pair_protocol_violation(ctx: Ctx, it: FuncInfo) -> bool:
    """a decoder returning (value, bits consumed): the tuple branch must report the offset it advanced, not the number
    of elements it decoded.  True when a violation was reported."""
    for l in q.for_loops(it.node):
        if "get_args" not in norm(l.iter):
            continue
        offs_ = [s_.target.id for s_ in ast.walk(l) if isinstance(s_, ast.AugAssign) and isinstance(s_.op, ast.Add) and isinstance(s_.target, ast.Name)]
        lists_ = [c.func.value.id for c in q.method_calls(l, "append") if isinstance(c.func.value, ast.Name)]
        for r_ in q.returns(it):
            v_ = r_.value
            if isinstance(v_, ast.Tuple) and len(v_.elts) == 2 and isinstance(v_.elts[1], ast.Call) and isinstance(v_.elts[1].func, ast.Name) and v_.elts[1].func.id == "len" and v_.elts[1].args and isinstance(v_.elts[1].args[0], ast.Name) and v_.elts[1].args[0].id in lists_ and offs_:
                ctx.fail("OR-SEQ", it, "a nested tuple reports the bits it consumed", f"`{norm(r_)[:70]}` reports the NUMBER OF ELEMENTS of the decoded tuple as its width, while the loop advanced `{offs_[0]}` by the widths of the elements: the element after a nested tuple with a multi-bit member is read from the wrong offset", r_)
                return True
    return False


def check_modmask(ctx: Ctx):
    """exact, over the modules this property is anchored in"""
    n = 0
    for fi in ctx.repo.functions.values():
        if fi.parent is not None or not any(fi.module.name.startswith(x) for x in ['qlasskit.types']):
            continue
        for site in q.modulo_by_mask_sites(fi.node):
            n += 1
            ctx.fail("SB-MODMASK", fi, f"`{norm(site)[:50]}`", f"`{norm(site)}` reduces a value with the all-ones mask as MODULUS: the largest value of that width ((1 << n) - 1) becomes 0; the modulus for n bits is 2**n (or use `& mask`)", site)
    ctx.ok("SB-MODMASK", None, "no value is reduced modulo an all-ones mask", f"{n} sites", construct="types")


_ROUNDERS = {"round", "floor", "ceil", "trunc", "rint", "around", "quantize", "fix"}


def check_exact(ctx: Ctx):
    """OR-EXACT: encode and decode are inverse on every pattern only if the encoder reads the value exactly.  A
    fixed-point pattern with k fractional bits is a multiple of 2**-k, whose decimal expansion has exactly k digits:
    rounding to n < k decimals moves it to a neighbouring (or no) grid point.  k is read from the shipped types."""
    repo = ctx.repo
    fx = repo.cls("types.qfixed.QfixedImp")
    fracs = {}
    for c in [fx] + repo.subclasses(fx):
        e = c.consts.get("BIT_SIZE_FRACTIONAL")
        if isinstance(e, ast.Constant) and isinstance(e.value, int):
            fracs[c.name] = e.value
    if len(fracs) < 3:
        raise AnchorError("types.qfixed", f"only {len(fracs)} fixed-point types with a literal BIT_SIZE_FRACTIONAL found")
    kmax = max(fracs.values())
    kname = sorted(n for n, k in fracs.items() if k == kmax)[0]
    scanned = 0
    hits = 0
    for fi in repo.functions.values():
        if fi.module is None or not (fi.short.startswith("types.qfixed.") or fi.short.startswith("types.qtype.") or fi.short == "types.const_to_qtype"):
            continue
        scanned += 1
        for c in q.calls(fi.node):
            fn = c.func
            nm = fn.id if isinstance(fn, ast.Name) else (fn.attr if isinstance(fn, ast.Attribute) else None)
            if nm not in _ROUNDERS or not c.args:
                continue
            hits += 1
            role = "the encoder reads the value exactly (no rounding coarser than the finest fractional bit)"
            digits = c.args[1] if len(c.args) > 1 else next((k.value for k in c.keywords if k.arg in ("ndigits", "decimals")), None)
            scaled = any(isinstance(n, ast.BinOp) and isinstance(n.op, (ast.Mult, ast.LShift, ast.Pow)) for n in ast.walk(c.args[0]))
            if nm == "round" and isinstance(digits, ast.Constant) and isinstance(digits.value, int):
                ctx.check(digits.value >= kmax, "OR-EXACT", fi, role, f"round to {digits.value} decimals, finest type has {kmax} fractional bits", f"`{norm(c)[:60]}` keeps {digits.value} decimals, but {kname} has {kmax} fractional bits and 2**-{kmax} = {2.0 ** -kmax} needs {kmax}: patterns with the last fractional bit set are re-encoded as a different pattern", c)
            elif digits is None and not scaled:
                ctx.fail("OR-EXACT", fi, role, f"`{norm(c)[:60]}` discards the fractional part of the value before the bits are extracted", c)
            else:
                ctx.undecided(fi.short, f"OR-EXACT [{role}]: `{norm(c)[:60]}` rounds a scaled or variably-rounded value ({fi.loc(c)})")
    # characters: the code of a character is ord(c); a UTF-8 (default) encoding spells code points 128..255 - half of
    # the 8-bit pattern space - with two bytes, neither of which is the code
    for fi in repo.functions.values():
        if fi.module is None or not (fi.short.startswith("types.qchar.") or fi.short == "types.const_to_qtype"):
            continue
        for c in q.calls(fi.node):
            if isinstance(c.func, ast.Attribute) and c.func.attr == "encode":
                enc = c.args[0] if c.args else next((k.value for k in c.keywords if k.arg == "encoding"), None)
                one_byte = isinstance(enc, ast.Constant) and str(enc.value).lower().replace("_", "-") in ("latin-1", "latin1", "iso-8859-1", "iso8859-1", "l1")
                ctx.check(one_byte, "OR-EXACT", fi, "a character's pattern is its code point (ord), for all 256 patterns", norm(c), f"`{norm(c)[:50]}` encodes with {'UTF-8 (the default)' if enc is None else norm(enc)}: code points 128..255 become two bytes, so the bits taken from the first byte are not the character's code and decode(encode(c)) != c for the upper half of the patterns", c)
    ctx.ok("OR-EXACT", None, "fixed-point codecs read the value exactly", f"{scanned} functions of types.qfixed / types.qtype / const_to_qtype scanned, {hits} rounding calls; finest type {kname} ({kmax} fractional bits)", construct="types.qfixed")
