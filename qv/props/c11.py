"""C11 - Decompiled expressions describe exactly what the gates do."""
from __future__ import annotations

import ast
from typing import Dict, List, Optional, Set

from .. import q
from ..boolterm import Converter, Undecided, atom, equivalent, head_name, mk, show
from ..core import guard_facts, AnchorError, ClassInfo, Ctx, FuncInfo, dotted, norm, returns_or_raises_everywhere, walk_no_nested
from ..rewrite import single_bindings

ID = "C11"
TECHNIQUE = (
    "table/handler agreement (ZB_GATES vs the symbolic step), per-gate translation validation of the symbolic "
    "update term over boolean atoms, wire-role and current-table dataflow, sentinel/flush typestate of the section buffer"
)
EXPLANATION = (
    "Decides: (DP-TABLE) every gate class admitted to a classical section (ZB_GATES) has a branch in the symbolic step "
    "and unknown gates raise; (MP-accumulate / DP-WIRES) each branch writes the expression of the LAST wire, and the "
    "new value, read as a boolean term over the per-wire expressions, equals old_target xor AND(controls) (X: not "
    "target) for every arity instance; (MP-current-exps) controls and target are read from the current expression "
    "table at the gate, not from entry symbols or any other store; (TS-SECTION) the section buffer cannot be non-empty "
    "at return (sentinel or post-loop flush), the index advances exactly once per gate, and a section records "
    "(gates, expressions, (start, end)); unchanged qubits are filtered out; the circuit is decompiled from a vanilla "
    "copy.  It does NOT decide index ranges next to barriers nor equality on all basis states."
)
NOT_DECIDED = "index ranges next to barriers; equality of expressions and gate action on all basis states"
MIN_OBLIGATIONS = 14

DEC = "decompiler.decompiler"


def run(ctx: Ctx):
    from .. import memo as _memo

    ctx.section(_memo.check_memo_keys, ctx, ('decompiler.',))
    repo = ctx.repo
    m = repo.module(DEC)
    dc = repo.cls(f"{DEC}.Decompiler")
    step = None
    for name, mi in dc.methods.items():
        if name.endswith("exps_of_section"):
            step = mi
    if step is None:
        raise AnchorError(f"{DEC}.Decompiler.__exps_of_section", "symbolic step not found")
    ctx.section(check_members, ctx, m)
    handled = check_step(ctx, step)
    check_table(ctx, m, step, handled)
    check_decompile(ctx, dc.methods.get("decompile"), step)


def gate_classes(ctx: Ctx) -> Dict[str, ClassInfo]:
    gm = ctx.repo.module("qcircuit.gates")
    out = dict(gm.classes)
    for k, v in gm.globals_assigned.items():
        if isinstance(v, ast.Name) and v.id in gm.classes:
            out[k] = gm.classes[v.id]
    return out


def check_members(ctx: Ctx, m):
    """the property's own definition: a classical section is a run of X / CX / CCX / MCX (and the identity)"""
    tbl = m.globals_assigned.get("ZB_GATES")
    if not isinstance(tbl, ast.List):
        raise AnchorError(f"{DEC}.ZB_GATES", "table not found or not a list literal")
    members = [(dotted(e) or norm(e)).split(".")[-1] for e in tbl.elts]
    allowed = {"X", "CX", "CCX", "MCX", "Toffoli", "CNOT", "I"}
    extra = sorted(set(members) - allowed)
    ctx.check(not extra, "DP-TABLE", None, "classical sections are runs of X / CX / CCX / MCX only", str(sorted(members)), f"ZB_GATES admits {extra}: by the property's own definition every other gate (swap, phase, Hadamard ...) interrupts a classical run, so reported sections are no longer the maximal runs and their index ranges cover foreign gates", construct=f"{DEC}.ZB_GATES")


def check_table(ctx: Ctx, m, step: FuncInfo, handled: Dict[str, str]):
    tbl = m.globals_assigned.get("ZB_GATES")
    if not isinstance(tbl, ast.List):
        raise AnchorError(f"{DEC}.ZB_GATES", "table not found or not a list literal")
    gcs = gate_classes(ctx)
    members = []
    for e in tbl.elts:
        d = dotted(e)
        if d is None:
            raise AnchorError(f"{DEC}.ZB_GATES", f"member `{norm(e)}` outside the tables")
        members.append(d.split(".")[-1])
    if len(members) < 4:
        raise AnchorError(f"{DEC}.ZB_GATES", "fewer than 4 members")
    for mem in members:
        ci = gcs.get(mem)
        if ci is None:
            raise AnchorError(f"{DEC}.ZB_GATES", f"`{mem}` is not a gate class")
        # a branch handles the class if it tests the class itself or a base of it
        anc = {c.name for c in ci.mro()}
        hit = [h for h in handled if h in anc]
        ctx.check(bool(hit), "DP-TABLE", None, f"ZB_GATES member {mem} has a handler", f"branch isinstance(g, {hit[0] if hit else '?'})", f"gates.{mem} is admitted to classical sections but the symbolic step has no branch for it: decompiling any circuit containing it raises", construct=f"{DEC}.ZB_GATES")
    # classical semantics only: every handled non-nop class must be a member (otherwise dead or mis-admitted)
    for h, kind in handled.items():
        if kind == "update":
            ctx.check(h in members, "DP-TABLE", None, f"handled gate {h} is admitted", "", f"the step has an update rule for {h} but ZB_GATES does not admit it: a run of such gates is silently dropped from the sections", construct=f"{DEC}.ZB_GATES")


def _check_wire_names(ctx: Ctx, helper: FuncInfo):
    """the helper returns one symbol per wire, in wire order: an append loop or a comprehension over its parameter"""
    hb = single_bindings(helper)
    rets = q.returns(helper)
    if len(rets) != 1 or rets[0].value is None:
        ctx.undecided(helper.short, "the per-wire helper has no single returned list")
        return
    res = rets[0].value
    src = None  # the iterable the returned list is built from, one element each
    if isinstance(res, ast.Name) and res.id in hb:
        res_v = hb[res.id]
    else:
        res_v = res
    if isinstance(res_v, ast.ListComp) and len(res_v.generators) == 1 and not res_v.generators[0].ifs:
        src = res_v.generators[0].iter
    elif isinstance(res, ast.Name) and isinstance(res_v, ast.List) and not res_v.elts:
        apps = [c for c in q.method_calls(helper.node, "append") if norm(c.func.value) == res.id]
        loops = [l for l in q.for_loops(helper.node) if any(q.contains(l, c) for c in apps)]
        if len(apps) == 1 and len(loops) == 1 and not guard_facts(helper, apps[0]):
            src = loops[0].iter
        elif len(apps) == 1 and len(loops) == 1:
            ctx.check(False, "DP-WIRES", helper, "wire names in wire order", "", f"`{norm(apps[0])}` happens only under a condition: a wire without a name shifts controls and target", apps[0])
            return
    if src is None:
        ctx.undecided(helper.short, f"the returned list `{norm(res)}` is neither an append loop nor a comprehension over the wires")
        return
    core, par = q.reversal_parity(src, hb)
    if norm(core) != helper.params[0]:
        ctx.undecided(helper.short, f"the per-wire list is built from `{norm(src)}`, not directly from the wire list")
        return
    ctx.check(par == 0, "DP-WIRES", helper, "wire names in wire order", "", "the per-wire symbol list is not built in wire order", helper.node)


def check_step(ctx: Ctx, fi: FuncInfo) -> Dict[str, str]:
    loops = [l for l in q.for_loops(fi.node) if isinstance(l.target, ast.Tuple) and len(l.target.elts) == 3]
    if len(loops) != 1:
        raise AnchorError(fi.short, "gate loop not found")
    loop = loops[0]
    g, w, p = (norm(e) for e in loop.target.elts)
    # wn = check_or_add(w): symbols of the wires, in order
    wn = None
    for s in loop.body:
        if isinstance(s, ast.Assign) and isinstance(s.targets[0], ast.Name) and isinstance(s.value, ast.Call) and s.value.args and norm(s.value.args[0]) == w:
            wn = s.targets[0].id
            helper = fi.nested.get(dotted(s.value.func) or "")
            if helper is not None:
                _check_wire_names(ctx, helper)
    if wn is None:
        # the helper was inlined: a list built from the wire list, one element per wire, in order
        def in_order_from(e) -> Optional[bool]:
            core, par = q.reversal_parity(e)
            if isinstance(core, ast.Name) and core.id == w:
                return par == 0
            if isinstance(core, (ast.ListComp, ast.GeneratorExp)) and len(core.generators) == 1 and not core.generators[0].ifs:
                inner = in_order_from(core.generators[0].iter)
                return None if inner is None else (inner == (par == 0))
            return None

        for s in loop.body:
            if isinstance(s, ast.Assign) and isinstance(s.targets[0], ast.Name) and isinstance(s.value, (ast.ListComp,)):
                o = in_order_from(s.value)
                if o is not None:
                    wn = s.targets[0].id
                    ctx.check(o, "DP-WIRES", fi, "wire names in wire order", norm(s.value)[:60], "the per-wire symbol list is not built in wire order", s)
    if wn is None:
        # ... or as an append loop over the wires: `X = []` / `for wire in w: ...; X.append(sym)`
        for k_, s in enumerate(loop.body):
            if isinstance(s, ast.For) and isinstance(s.target, ast.Name):
                core, par = q.reversal_parity(s.iter)
                if not (isinstance(core, ast.Name) and core.id == w):
                    continue
                apps_ = [c for c in q.method_calls(s, "append") if isinstance(c.func.value, ast.Name)]
                if len(apps_) != 1:
                    continue
                lst = apps_[0].func.value.id
                inits_ = [a for a in loop.body[:k_] if isinstance(a, ast.Assign) and len(a.targets) == 1 and isinstance(a.targets[0], ast.Name) and a.targets[0].id == lst and isinstance(a.value, ast.List) and not a.value.elts]
                if len(inits_) != 1:
                    continue
                wn = lst
                uncond = not guard_facts(fi, apps_[0]) or all(q.contains(s, e_) is False for e_, _p in guard_facts(fi, apps_[0]))
                inner_guards = [e_ for e_, _p in guard_facts(fi, apps_[0]) if q.contains(s, e_)]
                ctx.check(par == 0 and not inner_guards, "DP-WIRES", fi, "wire names in wire order", f"for .. in {norm(s.iter)}: {lst}.append(..)", "the per-wire symbol list is not built from every wire, in wire order" + (f" (appended only under {[norm(e_) for e_ in inner_guards]})" if inner_guards else ""), s)
                break
    if wn is None:
        raise AnchorError(fi.short, "per-wire symbol list (wn = check_or_add(w)) not found")
    table = None
    chain_if = [s for s in loop.body if isinstance(s, ast.If)]
    if not chain_if:
        raise AnchorError(fi.short, "expected a dispatch over gate classes in the gate loop")
    chain, els = q.dispatch_chain(loop.body)
    if els is None or len(chain) < 4:
        raise AnchorError(fi.short, "the dispatch over gate classes is neither one if/elif chain nor a sequence of terminating ifs")
    ctx.check(bool(els) and isinstance(els[-1], ast.Raise), "DP-CLOSED", fi, "unknown gates raise", "", "a gate without a rule is skipped silently: its effect is missing from the expressions", chain_if[0])
    handled: Dict[str, str] = {}
    arity = {"X": 1, "CX": 2, "CCX": 3, "MCX": None}
    for test, body in chain:
        heads = q.isinstance_heads(test, g)
        if not heads:
            raise AnchorError(fi.short, f"branch test `{norm(test)}` is not an isinstance/issubclass test on the gate")
        stores = [s for s in body if isinstance(s, ast.Assign) and isinstance(s.targets[0], ast.Subscript)]
        if not stores:
            # update through a nested helper `def update(t, e): exps[t] = e; ...`
            for s in body:
                c = s.value if isinstance(s, ast.Expr) and isinstance(s.value, ast.Call) else None
                if c is not None and isinstance(c.func, ast.Name) and c.func.id in fi.nested and len(c.args) == 2:
                    hp = fi.nested[c.func.id]
                    for hs in walk_no_nested(hp.node):
                        if (
                            isinstance(hs, ast.Assign)
                            and isinstance(hs.targets[0], ast.Subscript)
                            and len(hp.params) == 2
                            and norm(hs.targets[0].slice) == hp.params[0]
                            and norm(hs.value) == hp.params[1]
                        ):
                            synth = ast.Assign(targets=[ast.Subscript(value=hs.targets[0].value, slice=c.args[0], ctx=ast.Store())], value=c.args[1])
                            ast.copy_location(synth, s)
                            ast.fix_missing_locations(synth)
                            stores.append(synth)
        if not stores and not all(isinstance(s, (ast.Continue, ast.Pass)) for s in body):
            raise AnchorError(fi.short, f"branch {heads}: no recognisable update of the expression table (`table[wire] = value` or a helper doing that)")
        if not stores:
            for h in heads:
                handled[h] = "skip"
            ok = all(isinstance(s, (ast.Continue, ast.Pass)) for s in body)
            ctx.check(ok and all(h in ("I", "NopGate", "Barrier") for h in heads), "MP-accumulate", fi, f"{'/'.join(heads)}: no effect", "identity / no-op gates leave every expression unchanged", f"gate class(es) {heads} are skipped without updating any expression", test)
            continue
        for h in heads:
            handled[h] = "update"
        if len(stores) != 1:
            raise AnchorError(fi.short, f"branch {heads}: expected exactly one table update")
        h = "/".join(heads)
        st = stores[0]
        if any(isinstance(x, ast.Name) and not (x.id in (wn, g, w, p) or x.id in fi.params) for x in ast.walk(st.targets[0].slice)) or any(
            isinstance(x, ast.Subscript) and isinstance(x.slice, ast.Name) and x.slice.id not in (wn, g, w, p) for x in ast.walk(st.value)
        ):
            # `target = wn[1]; exps[target] = ...`: per-branch temporaries are replaced by what they stand for
            host = next((b for b in body if b is st or q.contains(b, st)), None)
            key_v = q.value_at(loop.body, host, st.targets[0].slice, keep=(wn,)) if host is not None else None
            val_v = q.value_at(loop.body, host, st.value, keep=(wn,)) if host is not None else None
            if key_v is None or val_v is None:
                ctx.undecided(fi.short, f"branch {heads}: `{norm(st)}` uses a temporary without a single reaching definition")
                continue
            st2 = ast.Assign(targets=[ast.Subscript(value=st.targets[0].value, slice=key_v, ctx=ast.Store())], value=val_v)
            ast.copy_location(st2, st)
            ast.fix_missing_locations(st2)
            st2._ord = getattr(st, "_ord", None)
            st = st2
        table = norm(st.targets[0].value)
        ns = {arity.get(x, None) for x in heads}
        n = ns.pop() if len(ns) == 1 else None
        if any(x not in arity for x in heads):
            raise AnchorError(fi.short, f"branch {heads}: gate class outside the tables")
        tgt_key = st.targets[0].slice
        # which wire is written
        tk = norm(tgt_key)
        last_ok = tk == f"{wn}[-1]" or (n is not None and tk == f"{wn}[{n - 1}]")
        ctx.check(last_ok, "DP-WIRES", fi, f"{h}: writes the last wire", tk, f"the rule for {h} writes `{table}[{tk}]`, which is not the gate's target (the last wire)", st)
        # translate the new value into a boolean term over e_k = table[wn[k]]
        insts = [n] if n is not None else sorted({a for a in (arity[x] for x in heads) if a is not None} | {2, 3, 4})
        for inst in insts:
            try:
                term = _rhs_term(fi, st.value, table, wn, inst)
            except Undecided as u:
                ctx.fail("MP-current-exps", fi, f"{h}: operands come from the current table", f"the new value `{norm(st.value)[:70]}` cannot be shown to read controls and target from `{table}[...]` at this gate: {u}", st)
                break
            ctrl = [atom(f"e{k}") for k in range(inst - 1)]
            t_old = atom(f"e{inst - 1}")
            spec = mk("not", [t_old]) if inst == 1 else mk("xor", [mk("and", ctrl) if len(ctrl) > 1 else ctrl[0], t_old])
            eq, cex, rows = equivalent(term, spec)
            if not eq:
                ctx.fail("MP-accumulate", fi, f"{h}: target' = target xor AND(controls)", f"with {inst} wires the rule computes {show(term)} but the gate does {show(spec)} (e_k = expression of wire k at the gate); they differ at {cex}", st)
                break
        else:
            ctx.ok("MP-accumulate", fi, f"{h}: target' = target xor AND(controls)", f"checked for {n if n is not None else '2..4'} wires", st)
            ctx.ok("MP-current-exps", fi, f"{h}: operands come from the current table", f"every operand is {table}[{wn}[k]]", st)
    # result: only changed qubits
    rets = q.returns(fi)
    txt = " ".join(norm(s) for s in fi.body[-3:])
    ok = len(rets) == 1 and "!=" in txt and f"{table}.items()" in txt
    ctx.check(ok, "MP-accumulate", fi, "unchanged qubits are filtered out", "filter(e[0] != e[1], exps.items())", "the result does not drop qubits whose expression is still their own symbol", rets[0] if rets else fi.node)
    return handled


def _rhs_term(fi: FuncInfo, e, table: str, wn: str, n: int):
    """boolean term of the update expression with atoms e0..e{n-1} for table[wn[k]]"""
    conv_holder: list = [None]

    def idx(node) -> Optional[int]:
        # wn[k] / wn[-1]
        if isinstance(node, ast.Subscript) and norm(node.value) == wn:
            s = node.slice
            if isinstance(s, ast.Constant) and isinstance(s.value, int):
                return s.value if s.value >= 0 else n + s.value
            if isinstance(s, ast.UnaryOp) and isinstance(s.op, ast.USub) and isinstance(s.operand, ast.Constant):
                return n - s.operand.value
        return None

    def leaf(node):
        if isinstance(node, tuple) and node and node[0] == "list":
            x = node[1]
            # [exps[ww] for ww in wn[0:-1]]
            if isinstance(x, (ast.ListComp, ast.GeneratorExp)) and len(x.generators) == 1 and not x.generators[0].ifs:
                gen = x.generators[0]
                it = q.strip_wrappers(gen.iter)
                if isinstance(it, ast.Subscript) and norm(it.value) == wn and q.is_all_but_last(it, wn):
                    ks = list(range(n - 1))
                elif norm(it) == wn:
                    ks = list(range(n))
                else:
                    raise Undecided(f"iterates `{norm(it)}`, not the wire list")
                elt = x.elt
                if isinstance(elt, ast.Subscript) and norm(elt.value) == table and norm(elt.slice) == norm(gen.target):
                    return [atom(f"e{k}") for k in ks]
                raise Undecided(f"element `{norm(elt)}` is not `{table}[<wire>]`")
            return None
        if isinstance(node, ast.Subscript) and norm(node.value) == table:
            k = idx(node.slice)
            if k is None or not (0 <= k < n):
                raise Undecided(f"`{norm(node)}` does not index the table by a wire of the gate")
            return atom(f"e{k}")
        if isinstance(node, ast.Subscript) and norm(node.value) == wn:
            raise Undecided(f"`{norm(node)}` is the wire's entry symbol, not its current expression `{table}[{norm(node)}]`")
        if isinstance(node, ast.Call) and isinstance(node.func, ast.Name) and node.func.id in fi.nested:
            hp = fi.nested[node.func.id]
            body = [b for b in hp.body if not (isinstance(b, ast.Expr) and isinstance(b.value, ast.Constant))]
            if len(body) == 1 and isinstance(body[0], ast.Return) and body[0].value is not None and len(hp.params) == len(node.args) and not node.keywords:
                import copy as _copy

                sub = dict(zip(hp.params, node.args))

                class _R(ast.NodeTransformer):
                    def visit_Name(self, nm):
                        return _copy.deepcopy(sub[nm.id]) if nm.id in sub else nm

                return conv_holder[0].conv(_R().visit(_copy.deepcopy(body[0].value)))
            raise Undecided(f"`{norm(node)}` obtains an operand from a helper, not from `{table}[...]` at this gate")
        if isinstance(node, ast.Subscript):
            raise Undecided(f"`{norm(node)}` reads an operand from `{norm(node.value)}`, which is not the current expression table")
        return None

    conv_holder[0] = Converter(leaf)
    return conv_holder[0].conv(e)


def check_decompile(ctx: Ctx, fi: Optional[FuncInfo], step: FuncInfo):
    if fi is None:
        raise AnchorError(f"{DEC}.Decompiler.decompile", "not found")
    loops = [l for l in q.for_loops(fi.node) if isinstance(l.target, ast.Tuple) and len(l.target.elts) == 3]
    enum_idx = None
    if not loops:
        # `for i, (g, w, p) in enumerate(gates)`: the running index is the loop's own counter
        for l in q.for_loops(fi.node):
            t, itx = l.target, l.iter
            if (
                isinstance(t, ast.Tuple) and len(t.elts) == 2 and isinstance(t.elts[0], ast.Name) and isinstance(t.elts[1], ast.Tuple) and len(t.elts[1].elts) == 3
                and isinstance(itx, ast.Call) and isinstance(itx.func, ast.Name) and itx.func.id == "enumerate" and len(itx.args) == 1 and not itx.keywords
            ):
                loops.append(l)
                enum_idx = t.elts[0].id
    if len(loops) != 1:
        raise AnchorError(fi.short, "gate loop not found")
    loop = loops[0]
    it = loop.iter if enum_idx is None else loop.iter.args[0]
    # vanilla copy
    cp = [n for n in walk_no_nested(fi.node) if isinstance(n, ast.Assign) and isinstance(n.value, ast.Call) and isinstance(n.value.func, ast.Attribute) and n.value.func.attr == "copy" and n.value.args and isinstance(n.value.args[0], ast.Constant) and n.value.args[0].value is True]
    ctx.check(len(cp) == 1, "TS-SECTION", fi, "works on a vanilla copy", "qubits are named q<i>, the argument is untouched", "the circuit is not copied with vanilla=True: expressions would use (possibly duplicated) compiler names", fi.node)
    if len(cp) == 1:
        conds = [("" if pol else "not ") + norm(e) for e, pol in guard_facts(fi, cp[0])]
        ctx.check(not conds, "TS-SECTION", fi, "the vanilla copy is taken unconditionally", "", f"the vanilla copy is skipped unless {conds}: the gates are then read through the caller's own name -> qubit map, in which names may have been re-pointed (q0 -> 1, q1 -> 0) or aliased, so expressions are written over, and assigned to, the wrong qubits", cp[0])
    core, par = q.reversal_parity(it)
    sentinel = False
    src = it
    if isinstance(it, ast.BinOp) and isinstance(it.op, ast.Add):
        src = it.left
        r = it.right
        sentinel = isinstance(r, ast.List) and len(r.elts) == 1 and isinstance(r.elts[0], ast.Tuple) and isinstance(r.elts[0].elts[0], ast.Constant) and r.elts[0].elts[0].value is None
    # the section buffer
    flushes = [c for c in q.calls(fi.node) if isinstance(c.func, ast.Attribute) and c.func.attr == "append" and c.args and isinstance(c.args[0], (ast.Name, ast.Call))]
    sec_apps = [c for c in q.calls(fi.node) if (dotted(c.func) or "").endswith("DecompiledSection")]
    if len(sec_apps) < 1:
        raise AnchorError(fi.short, "no DecompiledSection is built")
    post_flush = any(not q.contains(loop, c) for c in sec_apps)
    src_core, par = q.reversal_parity(src, single_bindings(fi))
    if not norm(src_core).endswith(".gates"):
        ctx.undecided(fi.short, f"the gate loop iterates `{norm(it)}`, which is not a circuit's gate list")
    else:
        ctx.check(par == 0, "TS-SECTION", fi, "gates visited forward", norm(src_core), f"iterates `{norm(it)}`", loop)
    ctx.check(sentinel or post_flush, "TS-SECTION", fi, "last section is flushed", "non-classical sentinel appended to the gate list" if sentinel else "flush after the loop", "a classical run that reaches the end of the circuit is never reported (no sentinel, no flush after the loop)", loop)
    # index advances once per iteration, unconditionally
    idx = None
    if enum_idx is not None:
        idx = enum_idx
        rebinds = [n for n in ast.walk(loop) if isinstance(n, (ast.Assign, ast.AugAssign)) and any(isinstance(x, ast.Name) and x.id == idx and isinstance(x.ctx, ast.Store) for x in ast.walk(n))]
        ctx.check(not rebinds, "TS-SECTION", fi, "gate index advances exactly once per gate", f"`{idx}` is the counter of enumerate()", f"the enumerate counter `{idx}` is re-bound inside the loop (section ranges drift)", rebinds[0] if rebinds else loop)
    else:
        for s in loop.body:
            if isinstance(s, ast.AugAssign) and isinstance(s.op, ast.Add) and isinstance(s.value, ast.Constant) and s.value.value == 1 and isinstance(s.target, ast.Name):
                idx = s.target.id
        inner_incs = [n for n in ast.walk(loop) if isinstance(n, ast.AugAssign) and isinstance(n.target, ast.Name) and n.target.id == idx and n not in loop.body]
        has_continue = any(isinstance(n, ast.Continue) for n in ast.walk(loop))
        ctx.check(idx is not None and not inner_incs and not has_continue, "TS-SECTION", fi, "gate index advances exactly once per gate", f"`{idx} += 1` is an unconditional statement of the loop", "the running gate index is not incremented exactly once per visited gate (section ranges drift)", loop)
    # section record = (buffer, step(buffer), (start, end))
    sa = sec_apps[0]
    ds_init = ctx.repo.cls(f"{DEC}.DecompiledSection").methods.get("__init__")
    sa_args = q.bound_args(ctx.repo, sa, q.call_params(ds_init)) if ds_init is not None else None
    if sa_args is None or len(sa_args) < 3 or sa_args[0] is None:
        raise AnchorError(fi.short, f"`{norm(sa)[:60]}`: cannot match the arguments with DecompiledSection's parameters")
    buf = norm(sa_args[0])
    exps_arg = sa_args[1]
    step_call = None
    if isinstance(exps_arg, ast.Name):
        for n in ast.walk(loop):
            if isinstance(n, ast.Assign) and norm(n.targets[0]) == exps_arg.id and isinstance(n.value, ast.Call):
                step_call = n.value
    elif isinstance(exps_arg, ast.Call):
        step_call = exps_arg
    if step_call is None or not (dotted(step_call.func) or "").endswith("exps_of_section"):
        ctx.undecided(fi.short, f"the expressions of a section are `{norm(exps_arg)[:60] if exps_arg is not None else '?'}`, not a call of the symbolic step")
    else:
        st_args = q.bound_args(ctx.repo, step_call, q.call_params(step)) if step is not None else None
        if st_args is None or len(st_args) < 2 or st_args[1] is None:
            ctx.undecided(fi.short, f"`{norm(step_call)[:60]}`: cannot match the arguments with the step's parameters")
        else:
            ctx.check(norm(st_args[1]) == buf, "TS-SECTION", fi, "section expressions come from the section's own gates", f"exps = step(qc, {buf})", f"the expressions attached to a section are computed from `{norm(st_args[1])}`, not from that section's gate buffer `{buf}`", sa)
    rng = sa_args[2]
    if isinstance(rng, ast.Tuple) and len(rng.elts) == 2 and isinstance(rng.elts[1], ast.Name):
        # `end = i - 1 if <previous gate is a no-op> else i; (start, end)`: the same two-way choice, of the end only
        edefs = [n for n in ast.walk(loop) if isinstance(n, (ast.Assign, ast.AugAssign)) and any(isinstance(x, ast.Name) and x.id == rng.elts[1].id and isinstance(x.ctx, ast.Store) for x in ast.walk(n))]
        if len(edefs) == 1 and isinstance(edefs[0], ast.Assign) and isinstance(edefs[0].value, ast.IfExp):
            ie = edefs[0].value
            synth = ast.Assign(
                targets=[ast.Name(id="_rng", ctx=ast.Store())],
                value=ast.IfExp(test=ie.test, body=ast.Tuple(elts=[rng.elts[0], ie.body], ctx=ast.Load()), orelse=ast.Tuple(elts=[rng.elts[0], ie.orelse], ctx=ast.Load())),
            )
            ast.copy_location(synth, edefs[0])
            ast.fix_missing_locations(synth)
            rng_choice = (edefs[0], ie.test, synth.value.body, synth.value.orelse)
            rng = ast.Name(id="_rng", ctx=ast.Load())
        else:
            rng_choice = None
    else:
        rng_choice = None
    if isinstance(rng, ast.Name):
        # `rng = (start, i - 1) if <previous gate is a no-op> else (start, i)`, as statement or expression
        rdefs = [n for n in ast.walk(loop) if isinstance(n, ast.Assign) and len(n.targets) == 1 and norm(n.targets[0]) == rng.id]
        alts = None
        if len(rdefs) == 2 and isinstance(fi.pm.get(rdefs[0]), ast.If) and fi.pm.get(rdefs[0]) is fi.pm.get(rdefs[1]):
            pif = fi.pm.get(rdefs[0])
            if len(pif.body) == 1 and len(pif.orelse) == 1 and pif.body[0] in rdefs and pif.orelse[0] in rdefs:
                alts = (pif, pif.test, pif.body[0].value, pif.orelse[0].value)
        elif len(rdefs) == 1 and isinstance(rdefs[0].value, ast.IfExp):
            alts = (rdefs[0], rdefs[0].value.test, rdefs[0].value.body, rdefs[0].value.orelse)
        if rng_choice is not None:
            alts = rng_choice
        if alts is None or not all(isinstance(a, ast.Tuple) and len(a.elts) == 2 for a in alts[2:]):
            raise AnchorError(fi.short, f"the section range `{rng.id}` is not chosen between two (start, end) pairs")
        host, test, yes, no = alts
        host_st = q.enclosing_stmt(fi, host)
        top = next((b for b in loop.body if b is host_st or q.contains(b, host_st)), None)
        tv = q.value_at(loop.body, host_st, test) if top is not None else None
        if tv is None:
            raise AnchorError(fi.short, "the condition choosing the section end has no single reaching definition")
        tn = norm(tv)
        if not ("NopGate" in tn and f"[{idx} - 1]" in tn and not isinstance(tv, ast.UnaryOp)):
            raise AnchorError(fi.short, f"the section end is chosen by `{tn}`, a form outside the tables")
        ctx.check("start" in norm(yes.elts[0]) and "start" in norm(no.elts[0]), "TS-SECTION", fi, "section range = (start index, end index)", f"{norm(yes)} / {norm(no)}", "the section does not record (start, end)", sa)
        ends = (norm(yes.elts[1]).replace(" ", ""), norm(no.elts[1]).replace(" ", ""))
        if ends == (f"{idx}-1", idx):
            ctx.ok("TS-SECTION", fi, "end index excludes a no-op directly before the closing gate", tn[:70], host)
        elif set(ends) <= {f"{idx}-1", idx, f"{idx}+1"}:
            ctx.check(False, "TS-SECTION", fi, "end index excludes a no-op directly before the closing gate", tn[:70], f"the end index is {ends[0]} when the previous gate is a no-op and {ends[1]} otherwise; it must be {idx} - 1 and {idx}", host)
        else:
            raise AnchorError(fi.short, f"the section end index is computed as {ends}, a form outside the tables")
        rng = None
    ok = isinstance(rng, ast.Tuple) and len(rng.elts) == 2 and "start" in norm(rng.elts[0])
    if rng is not None:
        ctx.check(ok, "TS-SECTION", fi, "section range = (start index, end index)", norm(rng) if rng is not None else "", "the section does not record (start, end)", sa)
    # end index: one past the last classical gate = current index, minus one trailing no-op (the form confirmed on
    # this tree; any other arithmetic is outside the tables and is reported as undecided, not as a pass)
    if isinstance(rng, ast.Tuple) and len(rng.elts) == 2 and isinstance(rng.elts[1], ast.Name):
        endv = rng.elts[1].id
        defs = [n for n in ast.walk(loop) if isinstance(n, (ast.Assign, ast.AugAssign)) and any(isinstance(t, ast.Name) and t.id == endv for t in (n.targets if isinstance(n, ast.Assign) else [n.target]))]
        shapes = sorted(norm(d).replace(" ", "") for d in defs)
        want = sorted([f"{endv}={idx}", f"{endv}-=1"])
        if shapes != want:
            raise AnchorError(fi.short, f"the section end index is computed as {shapes}, a form outside the tables ({want}): cannot decide that the reported range covers exactly the gates of the run")
        dec = [d for d in defs if isinstance(d, ast.AugAssign)][0]
        par_if = fi.pm.get(dec)
        if not isinstance(par_if, ast.If):
            ctx.check(False, "TS-SECTION", fi, "end index excludes a no-op directly before the closing gate", "", "the end index is decremented unconditionally", dec)
        else:
            tv = q.value_at(loop.body, par_if, par_if.test)  # `end = i; if nop(gates[end - 1])`: read as gates[i - 1]
            if tv is None:
                raise AnchorError(fi.short, "the condition under which the end index is decremented has no single reaching definition")
            tn = norm(tv)
            if "NopGate" in tn and f"[{idx} - 1]" in tn and not isinstance(tv, ast.UnaryOp):
                ctx.ok("TS-SECTION", fi, "end index excludes a no-op directly before the closing gate", tn[:70], dec)
            elif "NopGate" in tn:
                ctx.check(False, "TS-SECTION", fi, "end index excludes a no-op directly before the closing gate", "", f"the end index is decremented under `{tn[:90]}`, which is not `the gate at index {idx} - 1 is a no-op`", dec)
            else:
                raise AnchorError(fi.short, f"the end index is decremented under `{tn[:80]}`, a condition outside the tables")
    elif rng is not None:
        raise AnchorError(fi.short, "section range is not (start, <name>)")
    # buffer reset after flush; start index recorded when the buffer opens
    resets = [n for n in ast.walk(loop) if isinstance(n, ast.Assign) and norm(n.targets[0]) == buf and isinstance(n.value, ast.List) and not n.value.elts]
    ctx.check(len(resets) >= 1, "TS-SECTION", fi, "buffer emptied after a section is reported", "", "the gate buffer is not reset after a flush: the next section repeats the previous gates", loop)
    starts = [n for n in ast.walk(loop) if isinstance(n, ast.Assign) and "start" in norm(n.targets[0]) and norm(n.value) == idx]
    ok = False
    if starts:
        par_if = fi.pm.get(starts[0])
        ok = isinstance(par_if, ast.If) and "is None" in norm(par_if.test)
    ctx.check(ok, "TS-SECTION", fi, "start index taken when the section opens", "", "the section start is not recorded at the first gate of the run only", loop)
