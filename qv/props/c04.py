"""C04 - Boolean optimizer profiles preserve meaning."""
from __future__ import annotations

import ast
from typing import Dict, List, Optional

from .. import memo
from ..boolterm import HEADS, head_name
from ..core import AnchorError, Ctx, FuncInfo, dotted, norm, walk_no_nested
from ..rewrite import check_arity, check_rewrite_equiv, check_total, single_bindings

ID = "C04"
TECHNIQUE = (
    "per-rewrite translation validation of the rule's source term over the atoms of its matched pattern "
    "(finite boolean domain), arity/head guard dominance, totality of normalising visitors, congruence of "
    "generic rebuilds, definition-list dataflow, profile order"
)
EXPLANATION = (
    "Decides, for every construct of qlasskit/boolopt: (RW-ARITY) each `X.args[c]` is read only under a dominating "
    "fact fixing X's head and, for variadic heads, its exact arity; (RW-EQUIV) each return of each pattern rewrite "
    "(remove_ITE, remove_Implies, transform_or2xor, transform_or2and, remove_obvious_expr, the generic rebuilds of "
    "SympyTransformer) denotes the same boolean function as the matched node under that return's path condition, "
    "for every arity instance; (RW-TOTAL) normalising passes descend everywhere and eliminate their head; "
    "(RW-CONGRUENCE) dispatcher table and custom_simplify_logic rebuild with the same head over all recursively "
    "processed arguments; (RW-DEFS) optimiser steps keep the defined symbol of each pair, keep `_ret*` "
    "definitions, prepend CSE definitions; (RW-ORDER) ITE/Implies removal precede or->and in every profile and "
    "every head the front end emits is either eliminated by each profile or dispatched by the compiler; "
    "(FX-SHARED) module-level transformer instances are stateless.  It does NOT decide the behaviour of sympy's "
    "simplify_logic/cse/xreplace, nor semantic preservation under symbol re-definition."
)
NOT_DECIDED = "simplify_logic, cse, xreplace (sympy is trusted); merge_expressions under symbol re-definition"
MIN_OBLIGATIONS = 45

TRANSFORMERS = {
    # class -> {method: head of its argument}
    "remove_ITE": {"visit_ITE": "ITE"},
    "remove_Implies": {"visit_Implies": "Implies"},
    "transform_or2xor": {"visit_Or": "Or"},
    "transform_or2and": {"visit_Or": "Or"},
    "remove_obvious_expr": {"visit_Not": "Not", "visit_And": "And", "visit_Or": "Or"},
}
# passes whose post-condition a later stage relies on: class -> (method, constructor that must not survive)
NORMALISING = {
    "remove_ITE": ("visit_ITE", "ITE"),
    "remove_Implies": ("visit_Implies", "Implies"),
    "transform_or2and": ("visit_Or", None),  # binary Or may survive; n-ary may not (DP-LANG arity)
}
BASE = "boolopt.sympytransformer.SympyTransformer"
XF = "boolopt.exp_transformers"
BO = "boolopt.bool_optimizer"


def visitor_param(fi: FuncInfo) -> str:
    ps = fi.params
    if len(ps) != 2:
        raise AnchorError(fi.short, f"visitor method takes {len(ps)} parameters, expected (self, expr)")
    return ps[1]


def run(ctx: Ctx):
    repo = ctx.repo
    memo.check_memo_keys(ctx, ("boolopt.", "ast2logic.t_ast"))
    base = repo.cls(BASE)

    # ---- dispatcher (RW-CONGRUENCE)
    disp = base.methods.get("visit")
    if disp is None:
        raise AnchorError(BASE + ".visit", "dispatcher not found")
    dispatched = check_dispatcher(ctx, disp)
    for h in ("And", "Or", "Not", "Xor", "ITE", "Implies"):
        ctx.check(h in dispatched, "RW-CONGRUENCE", disp, f"dispatch {h}", f"isinstance(e, {h}) -> self.visit_{h}(e)", f"head {h} is not dispatched: nodes below it are never rewritten")

    # ---- generic rebuilds are congruences (also RW-ARITY on them)
    for h in sorted(dispatched):
        m = base.methods.get(f"visit_{h}")
        if m is None:
            raise AnchorError(f"{BASE}.visit_{h}", "base visitor method missing")
        p = visitor_param(m)
        check_arity(ctx, "RW-ARITY", m, {p: h})
        check_rewrite_equiv(ctx, "RW-CONGRUENCE", m, p, h, {"self.visit"})
        check_total(ctx, "RW-TOTAL", m, p, None, {"self.visit"})

    # ---- pattern rewrites
    seen_classes = set()
    for cname, methods in TRANSFORMERS.items():
        ci = repo.cls(f"{XF}.{cname}")
        seen_classes.add(cname)
        ctx.check(base in ci.mro(), "RW-CONGRUENCE", None, f"{cname} extends SympyTransformer", "inherits the generic traversal", "does not inherit the generic traversal", construct=f"{XF}.{cname}")
        for mname, mi in ci.methods.items():
            if mname.startswith("visit_") and mname not in methods:
                h = mname[len("visit_"):]
                if h not in HEADS:
                    raise AnchorError(mi.short, "visitor for a head outside the tables")
                methods = dict(methods, **{mname: h})
        for mname, h in methods.items():
            mi = ci.methods.get(mname)
            if mi is None:
                raise AnchorError(f"{XF}.{cname}.{mname}", "rewrite method not found")
            p = visitor_param(mi)
            check_arity(ctx, "RW-ARITY", mi, {p: h})
            check_rewrite_equiv(ctx, "RW-EQUIV", mi, p, h, {"self.visit"})
        if cname in NORMALISING:
            mname, forbid = NORMALISING[cname]
            mi = ci.methods[mname]
            check_total(ctx, "RW-TOTAL", mi, visitor_param(mi), forbid, {"self.visit"})
    # new transformer classes in the module are covered generically
    xmod = repo.module(XF)
    for cname, ci in xmod.classes.items():
        if cname in seen_classes or base not in ci.mro():
            continue
        for mname, mi in ci.methods.items():
            if mname.startswith("visit_") and mname[6:] in HEADS:
                p = visitor_param(mi)
                check_arity(ctx, "RW-ARITY", mi, {p: mname[6:]})
                check_rewrite_equiv(ctx, "RW-EQUIV", mi, p, mname[6:], {"self.visit"})

    # ---- FX-SHARED: shared instances are stateless
    for ci in [base] + [c for c in xmod.classes.values() if base in c.mro()]:
        for mname, mi in ci.methods.items():
            writes = []
            for n in walk_no_nested(mi.node):
                if isinstance(n, (ast.Global, ast.Nonlocal)):
                    writes.append(f"{type(n).__name__.lower()} {', '.join(n.names)}")
                if isinstance(n, (ast.Assign, ast.AugAssign, ast.AnnAssign, ast.Delete)):
                    tgts = n.targets if isinstance(n, (ast.Assign, ast.Delete)) else [n.target]
                    for t in tgts:
                        for s in ast.walk(t):
                            if isinstance(s, (ast.Attribute, ast.Subscript)) and isinstance(s.ctx, (ast.Store, ast.Del)):
                                r = s
                                while isinstance(r, (ast.Attribute, ast.Subscript)):
                                    r = r.value
                                if isinstance(r, ast.Name) and r.id == "self":
                                    writes.append(norm(s))
            ctx.check(not writes, "FX-SHARED", mi, "stateless", "no write to self / globals", f"module-level shared transformer instance writes state: {writes}")

    # ---- custom_simplify_logic (RW-CONGRUENCE)
    check_custom_simplify(ctx, repo.func(f"{BO}.custom_simplify_logic"))

    # ---- RW-DEFS
    check_merge_expressions(ctx, repo.func(f"{BO}.merge_expressions"))
    check_apply_cse(ctx, repo.func(f"{BO}.apply_cse"))
    check_profile_apply(ctx, repo.cls(f"{BO}.BoolOptimizerProfile"))

    # ---- RW-ORDER / DP-LANG (heads)
    check_profiles(ctx)


def check_dispatcher(ctx: Ctx, disp: FuncInfo) -> set:
    p = visitor_param(disp)
    out = set()
    node = disp.body[0] if disp.body else None
    # docstring tolerated
    from ..core import real_body

    stmts = real_body(disp.body)
    if len(stmts) != 1 or not isinstance(stmts[0], ast.If):
        raise AnchorError(disp.short, "dispatcher is not a single if/elif chain")
    cur = stmts[0]
    while True:
        t = cur.test
        ok = (
            isinstance(t, ast.Call)
            and isinstance(t.func, ast.Name)
            and t.func.id == "isinstance"
            and len(t.args) == 2
            and isinstance(t.args[0], ast.Name)
            and t.args[0].id == p
        )
        if not ok:
            raise AnchorError(disp.short, f"dispatcher test `{norm(t)}` is not isinstance({p}, K)")
        h = head_name(t.args[1])
        body = cur.body
        good = (
            len(body) == 1
            and isinstance(body[0], ast.Return)
            and isinstance(body[0].value, ast.Call)
            and dotted(body[0].value.func) == f"self.visit_{h}"
            and len(body[0].value.args) == 1
            and isinstance(body[0].value.args[0], ast.Name)
            and body[0].value.args[0].id == p
        )
        ctx.check(good, "RW-CONGRUENCE", disp, f"branch {h}", f"isinstance({p}, {h}) -> self.visit_{h}({p})", f"branch for {h} does `{norm(body[0]) if body else ''}`: the handler does not match the tested head", cur)
        if good:
            out.add(h)
        if len(cur.orelse) == 1 and isinstance(cur.orelse[0], ast.If):
            cur = cur.orelse[0]
            continue
        # final else: return e unchanged
        fin = cur.orelse
        good = len(fin) == 1 and isinstance(fin[0], ast.Return) and isinstance(fin[0].value, ast.Name) and fin[0].value.id == p
        ctx.check(good, "RW-CONGRUENCE", disp, "default branch", "leaves return the node unchanged", "default branch does not return the node unchanged", cur)
        break
    return out


def check_custom_simplify(ctx: Ctx, fi: FuncInfo):
    """`type(expr)(*[f(arg) for arg in expr.args])` under isinstance(expr, (And, Or, Not)); Xor returned whole;
    everything else through simplify_logic."""
    p = fi.params[0]
    binds = single_bindings(fi)
    n = 0
    for r in (x for x in walk_no_nested(fi.node) if isinstance(x, ast.Return)):
        v = r.value
        role = f"return: {norm(v)[:60]}"
        n += 1
        if isinstance(v, ast.Name) and v.id == p:
            ctx.ok("RW-CONGRUENCE", fi, role, "identity", r, nontrivial=False)
        elif isinstance(v, ast.Call) and head_name(v.func) == "simplify_logic":
            ok = len(v.args) >= 1 and isinstance(v.args[0], ast.Name) and v.args[0].id == p
            ctx.check(ok, "RW-CONGRUENCE", fi, role, "delegates the whole node to sympy.simplify_logic (trusted)", "simplify_logic is applied to something other than the node", r)
        elif (
            isinstance(v, ast.Call)
            and isinstance(v.func, ast.Call)
            and isinstance(v.func.func, ast.Name)
            and v.func.func.id == "type"
            and len(v.func.args) == 1
            and isinstance(v.func.args[0], ast.Name)
            and v.func.args[0].id == p
        ):
            ok = len(v.args) == 1 and isinstance(v.args[0], ast.Starred) and not v.keywords
            why = ""
            if ok:
                src = v.args[0].value
                if isinstance(src, ast.Name) and src.id in binds:
                    src = binds[src.id]
                ok = (
                    isinstance(src, (ast.ListComp, ast.GeneratorExp))
                    and len(src.generators) == 1
                    and not src.generators[0].ifs
                    and norm(src.generators[0].iter) == f"{p}.args"
                    and isinstance(src.elt, ast.Call)
                    and dotted(src.elt.func) == fi.name
                    and len(src.elt.args) == 1
                    and norm(src.elt.args[0]) == norm(src.generators[0].target)
                )
                why = "" if ok else f"arguments `{norm(src)}` are not `[{fi.name}(a) for a in {p}.args]`"
            else:
                why = "rebuild does not splat one argument list"
            ctx.check(ok, "RW-CONGRUENCE", fi, role, "same head, all arguments, each through the recursive call", why, r)
        else:
            ctx.fail("RW-CONGRUENCE", fi, role, "a rebuild form outside the accepted encodings", r)
    if n < 3:
        raise AnchorError(fi.short, "fewer than 3 return forms found")


def _loop_over_param(fi: FuncInfo, param: str) -> ast.For:
    loops = [n for n in walk_no_nested(fi.node) if isinstance(n, ast.For) and isinstance(n.iter, ast.Name) and n.iter.id == param]
    if len(loops) != 1:
        raise AnchorError(fi.short, f"expected exactly one loop over `{param}`")
    return loops[0]


def _map_name(a) -> Optional[str]:
    """name of the definition map in `e.xreplace(emap)` or `e.xreplace({k: emap[k] for k in ... if k in emap})`"""
    if isinstance(a, ast.Name):
        return a.id
    if isinstance(a, ast.DictComp) and isinstance(a.value, ast.Subscript) and isinstance(a.value.value, ast.Name) and norm(a.value.slice) == norm(a.key):
        return a.value.value.id
    return None


def check_merge_expressions(ctx: Ctx, fi: FuncInfo):
    p = fi.params[0]
    loop = _loop_over_param(fi, p)
    if not (isinstance(loop.target, ast.Tuple) and len(loop.target.elts) == 2 and all(isinstance(e, ast.Name) for e in loop.target.elts)):
        raise AnchorError(fi.short, "loop target is not (symbol, expression)")
    s, e = loop.target.elts[0].id, loop.target.elts[1].id
    # (1) the first thing done to e is substitution of the map of earlier definitions
    first = loop.body[0] if loop.body else None
    sub_ok = (
        isinstance(first, ast.Assign)
        and isinstance(first.targets[0], ast.Name)
        and first.targets[0].id == e
        and isinstance(first.value, ast.Call)
        and isinstance(first.value.func, ast.Attribute)
        and first.value.func.attr in ("xreplace", "subs")
        and isinstance(first.value.func.value, ast.Name)
        and first.value.func.value.id == e
        and len(first.value.args) == 1
        and _map_name(first.value.args[0]) is not None
    )
    ctx.check(sub_ok, "RW-DEFS", fi, "inline earlier definitions first", "e = e.xreplace(emap) precedes every use", f"first statement of the loop is `{norm(first) if first else ''}`: the map of earlier definitions must be applied, as a whole, before anything else", first or loop)
    emap = _map_name(first.value.args[0]) if sub_ok else None
    if sub_ok:
        call = first.value
        simultaneous = call.func.attr == "xreplace" or any(k.arg == "simultaneous" and isinstance(k.value, ast.Constant) and k.value.value is True for k in call.keywords)
        ctx.check(simultaneous, "RW-SUBST", fi, "inlining is a simultaneous substitution", "xreplace", "subs() with a mapping applies the pairs one after another: when an inlined definition mentions a symbol that was re-bound later (t = a; a = b; b = t) that symbol is substituted again inside it", call)
    # (2) every iteration either records emap[s] = e or appends (s, e); nothing else consumes the pair
    stores, appends = [], []
    for n in ast.walk(loop):
        if isinstance(n, ast.Assign) and isinstance(n.targets[0], ast.Subscript):
            t = n.targets[0]
            if isinstance(t.value, ast.Name) and t.value.id == emap:
                stores.append((n, norm(t.slice) == s and isinstance(n.value, ast.Name) and n.value.id == e))
        if isinstance(n, ast.Call) and isinstance(n.func, ast.Attribute) and n.func.attr == "append":
            a = n.args[0] if n.args else None
            good = isinstance(a, ast.Tuple) and len(a.elts) == 2 and norm(a.elts[0]) == s and norm(a.elts[1]) == e
            appends.append((n, good, norm(n.func.value)))
    ctx.check(len(stores) == 1 and stores[0][1], "RW-DEFS", fi, "intermediate recorded under its own symbol", f"{emap}[{s}] = {e}", f"map store is {[norm(x[0]) for x in stores]}", loop)
    ctx.check(len(appends) == 1 and appends[0][1], "RW-DEFS", fi, "return definition keeps its symbol", f"append(({s}, {e}))", f"appended value is {[norm(x[0]) for x in appends]}", loop)
    # (3) the split between the two is the `_ret` prefix of s.name and both sides are covered
    ifs = [n for n in loop.body if isinstance(n, ast.If)]
    good = False
    if len(ifs) == 1 and ifs[0].orelse:
        t = ifs[0].test
        txt = norm(t)
        good = "_ret" in txt and f"{s}.name" in txt
        if good and stores and appends:
            st_in_body = any(stores[0][0] is x for b in ifs[0].body for x in ast.walk(b))
            ap_in_body = any(appends[0][0] is x for b in ifs[0].body for x in ast.walk(b))
            neq = isinstance(t, ast.Compare) and isinstance(t.ops[0], ast.NotEq)
            eq = isinstance(t, ast.Compare) and isinstance(t.ops[0], ast.Eq) or (isinstance(t, ast.Call) and "startswith" in txt)
            if neq:
                good = st_in_body and not ap_in_body
            elif eq:
                good = ap_in_body and not st_in_body
            else:
                raise AnchorError(fi.short, f"`_ret` test `{txt}` in a form outside the tables")
    ctx.check(good, "RW-DEFS", fi, "_ret definitions are kept, others inlined", "split on the `_ret` prefix; both branches present", "the _ret / intermediate split is not an if/else on the `_ret` prefix with store and append on the right sides", loop)
    # (4) the function returns the appended list
    rets = [n for n in walk_no_nested(fi.node) if isinstance(n, ast.Return)]
    good = len(rets) == 1 and appends and isinstance(rets[0].value, ast.Name) and rets[0].value.id == appends[0][2]
    ctx.check(bool(good), "RW-DEFS", fi, "returns the kept definitions", "returns the list the _ret definitions are appended to", "return value is not the list of kept definitions", rets[0] if rets else loop)


def check_apply_cse(ctx: Ctx, fi: FuncInfo):
    """result = <replacements from cse> + zip(<symbols>, <reduced>) in that order"""
    p = fi.params[0]
    binds = single_bindings(fi)
    rets = [n for n in walk_no_nested(fi.node) if isinstance(n, ast.Return)]
    if len(rets) != 1:
        raise AnchorError(fi.short, "expected one return")
    # find `a, b = cse(...)`
    cse_assign = None
    for n in walk_no_nested(fi.node):
        if isinstance(n, ast.Assign) and isinstance(n.value, ast.Call) and head_name(n.value.func) == "cse":
            cse_assign = n
    if cse_assign is None or not (isinstance(cse_assign.targets[0], ast.Tuple) and len(cse_assign.targets[0].elts) == 2):
        raise AnchorError(fi.short, "no `repl, red = cse(...)`")
    repl, red = (x.id for x in cse_assign.targets[0].elts)
    v = rets[0].value
    if isinstance(v, ast.Name) and v.id in binds:
        v = binds[v.id]
    ok = isinstance(v, ast.BinOp) and isinstance(v.op, ast.Add)
    why = "result is not `replacements + reduced definitions`"
    if ok:
        left, right = v.left, v.right
        ok = isinstance(left, ast.Name) and left.id == repl
        why = f"left operand `{norm(left)}` is not the CSE replacement list `{repl}`: intermediate definitions must come first (and must not be dropped)"
        if ok:
            rz = right
            if isinstance(rz, ast.Call) and isinstance(rz.func, ast.Name) and rz.func.id == "list" and rz.args:
                rz = rz.args[0]
            ok = (
                isinstance(rz, ast.Call)
                and isinstance(rz.func, ast.Name)
                and rz.func.id == "zip"
                and len(rz.args) == 2
                and isinstance(rz.args[1], ast.Name)
                and rz.args[1].id == red
            )
            why = f"right operand `{norm(right)}` does not pair the original symbols with the reduced expressions `{red}`"
            if ok:
                # symbols come from exps: lsts = list(zip(*exps)); lsts[0]
                sym = rz.args[0]
                cse_arg = cse_assign.value.args[0] if cse_assign.value.args else None
                txt_s, txt_e = _resolve_text(sym, binds), _resolve_text(cse_arg, binds)
                ok = f"zip(*{p})" in txt_s and "[0]" in norm(sym) and f"zip(*{p})" in txt_e and "[1]" in norm(cse_arg)
                why = f"symbols `{norm(sym)}` / expressions `{norm(cse_arg)}` are not columns 0 / 1 of the definition list"
    ctx.check(ok, "RW-DEFS", fi, "CSE definitions first, every symbol kept", "repl + zip(symbols, reduced)", why, rets[0])


def _resolve_text(n, binds, depth=0) -> str:
    if n is None or depth > 6:
        return ""
    out = norm(n)
    for x in ast.walk(n):
        if isinstance(x, ast.Name) and x.id in binds:
            out += " <- " + _resolve_text(binds[x.id], binds, depth + 1)
    return out


def check_profile_apply(ctx: Ctx, ci):
    fi = ci.methods.get("apply")
    if fi is None:
        raise AnchorError(ci.qualname + ".apply", "not found")
    p = fi.params[1]
    loops = [n for n in walk_no_nested(fi.node) if isinstance(n, ast.For)]
    if len(loops) != 1:
        raise AnchorError(fi.short, "expected one loop over the steps")
    loop = loops[0]
    ctx.check(norm(loop.iter) == "self.steps" and not loop.orelse, "RW-DEFS", fi, "all steps, in order", "for opt in self.steps", f"iterates `{norm(loop.iter)}`", loop)
    opt = norm(loop.target)
    # transformer branch maps (sym, e) -> (sym, opt.visit(e))
    lambdas = [n for n in ast.walk(loop) if isinstance(n, ast.Lambda)]
    comps = [n for n in ast.walk(loop) if isinstance(n, (ast.ListComp,))]
    good = False
    detail = "no pairwise map found in the SympyTransformer branch"
    for lam in lambdas:
        a = lam.args.args[0].arg if lam.args.args else None
        b = lam.body
        if isinstance(b, ast.Tuple) and len(b.elts) == 2:
            good = norm(b.elts[0]) == f"{a}[0]" and norm(b.elts[1]) == f"{opt}.visit({a}[1])"
            detail = f"lambda body is `{norm(b)}`"
    for c in comps:
        b = c.elt
        if isinstance(b, ast.Tuple) and len(b.elts) == 2 and isinstance(c.generators[0].target, ast.Tuple):
            s, e = (norm(x) for x in c.generators[0].target.elts)
            good = norm(b.elts[0]) == s and norm(b.elts[1]) == f"{opt}.visit({e})"
            detail = f"comprehension element is `{norm(b)}`"
    ctx.check(good, "RW-DEFS", fi, "transformer step keeps the defined symbol", "(sym, opt.visit(exp)) for every pair", detail, loop)
    # both branches assign the running list, which is returned
    assigns = [n for n in ast.walk(loop) if isinstance(n, ast.Assign) and isinstance(n.targets[0], ast.Name)]
    rets = [n for n in walk_no_nested(fi.node) if isinstance(n, ast.Return)]
    good = len(rets) == 1 and isinstance(rets[0].value, ast.Name) and all(a.targets[0].id == rets[0].value.id for a in assigns) and len(assigns) >= 2 and rets[0].value.id == p
    ctx.check(good, "RW-DEFS", fi, "steps are chained", "each step's result feeds the next and the last is returned", "the running definition list is not threaded through every step", rets[0] if rets else loop)


def profile_steps(repo, name: str) -> List[str]:
    m = repo.module(BO)
    v = m.globals_assigned.get(name)
    if v is None:
        raise AnchorError(f"{BO}.{name}", "profile not found")
    if not (isinstance(v, ast.Call) and head_name(v.func) == "BoolOptimizerProfile" and v.args and isinstance(v.args[0], ast.List)):
        raise AnchorError(f"{BO}.{name}", "profile is not BoolOptimizerProfile([...])")
    steps = []
    for e in v.args[0].elts:
        if isinstance(e, ast.Name):
            steps.append(e.id)
        elif isinstance(e, ast.Call) and isinstance(e.func, ast.Name):
            steps.append(e.func.id)
        else:
            raise AnchorError(f"{BO}.{name}", f"step `{norm(e)}` in a form outside the tables")
    return steps


def check_profiles(ctx: Ctx, profiles=("defaultOptimizer", "fastOptimizer", "defaultOptimizerDebug")):
    repo = ctx.repo
    for pname in profiles:
        steps = profile_steps(repo, pname)
        c = f"{BO}.{pname}"

        def pos(s):
            return steps.index(s) if s in steps else None

        for elim in ("remove_ITE", "remove_Implies"):
            ctx.check(pos(elim) is not None, "RW-ORDER", None, f"{elim} present", f"steps={steps}", f"profile lacks {elim}: the compiler has no branch for that head", construct=c)
        ctx.check(pos("transform_or2and") is not None, "RW-ORDER", None, "transform_or2and present", f"steps={steps}", "profile lacks transform_or2and: n-ary Or reaches the 2-ary-only Or synthesis", construct=c)
        if pos("transform_or2and") is not None:
            for elim in ("remove_ITE", "remove_Implies"):
                if pos(elim) is not None:
                    ctx.check(pos(elim) < pos("transform_or2and"), "RW-ORDER", None, f"{elim} before transform_or2and", "heads introducing Or are removed before Or is normalised", f"{elim} runs after transform_or2and: the Or it introduces is not normalised", construct=c)
            ctx.check(steps.count("transform_or2and") >= 1 and all(s not in ("merge_expressions", "apply_cse") for s in steps[pos("transform_or2and"):]), "RW-ORDER", None, "no simplifier after transform_or2and", "nothing re-introduces n-ary Or after normalisation", "merge_expressions/apply_cse run after transform_or2and and can re-introduce n-ary Or", construct=c)
        if pos("apply_cse") is not None and pos("merge_expressions") is not None:
            ctx.check(pos("merge_expressions") < pos("apply_cse"), "RW-ORDER", None, "merge before cse", "inlining precedes sharing", "apply_cse before merge_expressions: the shared definitions are inlined away / _ret filter drops them", construct=c)
