"""C04 - Boolean optimizer profiles preserve meaning."""
from __future__ import annotations

import ast
from typing import Dict, List, Optional

from .. import memo, q
from ..boolterm import HEADS, head_name
from ..core import AnchorError, Ctx, FuncInfo, dotted, guard_facts, norm, walk_no_nested
from ..rewrite import check_arity, check_rewrite_equiv, check_total, single_bindings

ID = "C04"
TECHNIQUE = (
    "per-rewrite translation validation of the rule's source term over the atoms of its matched pattern "
    "(finite boolean domain), arity/head guard dominance, totality of normalising visitors, congruence of "
    "generic rebuilds, definition-list dataflow, profile order"
)
EXPLANATION = (
    "Decides, for every construct of qlasskit/boolopt: (RW-ARITY) each `X.args[c]` is read only under a dominating "
    "fact fixing X's head and, for variadic heads, its exact arity; (RW-EQUIV) each return of each pattern rewrite "
    "(remove_ITE, remove_Implies, transform_or2xor, transform_or2and, remove_obvious_expr, the generic rebuilds of "
    "SympyTransformer) denotes the same boolean function as the matched node under that return's path condition, "
    "for every arity instance; (RW-TOTAL) normalising passes descend everywhere and eliminate their head; "
    "(RW-CONGRUENCE) dispatcher table and custom_simplify_logic rebuild with the same head over all recursively "
    "processed arguments; (RW-DEFS) optimiser steps keep the defined symbol of each pair, keep `_ret*` "
    "definitions, prepend CSE definitions; (RW-ORDER) ITE/Implies removal precede or->and in every profile and "
    "every head the front end emits is either eliminated by each profile or dispatched by the compiler; "
    "(FX-SHARED) module-level transformer instances are stateless; (RW-DEFS liveness) a profile step that filters "
    "the definition list computes liveness backwards and kills the defined symbol before adding the uses of its "
    "definition - any other step that is not one of the verified rewrites is undecided.  It does NOT decide the behaviour of sympy's "
    "simplify_logic/cse/xreplace, nor semantic preservation under symbol re-definition."
)
NOT_DECIDED = "simplify_logic, cse, xreplace (sympy is trusted); merge_expressions under symbol re-definition"
MIN_OBLIGATIONS = 45

TRANSFORMERS = {
    # class -> {method: head of its argument}
    "remove_ITE": {"visit_ITE": "ITE"},
    "remove_Implies": {"visit_Implies": "Implies"},
    "transform_or2xor": {"visit_Or": "Or"},
    "transform_or2and": {"visit_Or": "Or"},
    "remove_obvious_expr": {"visit_Not": "Not", "visit_And": "And", "visit_Or": "Or"},
}
# passes whose post-condition a later stage relies on: class -> (method, constructor that must not survive)
NORMALISING = {
    "remove_ITE": ("visit_ITE", "ITE"),
    "remove_Implies": ("visit_Implies", "Implies"),
    "transform_or2and": ("visit_Or", None),  # binary Or may survive; n-ary may not (DP-LANG arity)
}
BASE = "boolopt.sympytransformer.SympyTransformer"
XF = "boolopt.exp_transformers"
BO = "boolopt.bool_optimizer"


def visitor_param(fi: FuncInfo) -> str:
    ps = fi.params
    if len(ps) != 2:
        raise AnchorError(fi.short, f"visitor method takes {len(ps)} parameters, expected (self, expr)")
    return ps[1]


def run(ctx: Ctx):
    repo = ctx.repo
    memo.check_memo_keys(ctx, ("boolopt.", "ast2logic.t_ast"))
    base = repo.cls(BASE)

    # ---- dispatcher (RW-CONGRUENCE)
    disp = base.methods.get("visit")
    if disp is None:
        raise AnchorError(BASE + ".visit", "dispatcher not found")
    dispatched = check_dispatcher(ctx, disp)
    for h in ("And", "Or", "Not", "Xor", "ITE", "Implies"):
        ctx.check(h in dispatched, "RW-CONGRUENCE", disp, f"dispatch {h}", f"isinstance(e, {h}) -> self.visit_{h}(e)", f"head {h} is not dispatched: nodes below it are never rewritten")

    # ---- generic rebuilds are congruences (also RW-ARITY on them)
    for h in sorted(dispatched):
        m = base.methods.get(f"visit_{h}")
        if m is None:
            raise AnchorError(f"{BASE}.visit_{h}", "base visitor method missing")
        p = visitor_param(m)
        check_arity(ctx, "RW-ARITY", m, {p: h})
        check_rewrite_equiv(ctx, "RW-CONGRUENCE", m, p, h, {"self.visit"})
        check_total(ctx, "RW-TOTAL", m, p, None, {"self.visit"})

    # ---- pattern rewrites
    seen_classes = set()
    for cname, methods in TRANSFORMERS.items():
        ci = repo.cls(f"{XF}.{cname}")
        seen_classes.add(cname)
        ctx.check(base in ci.mro(), "RW-CONGRUENCE", None, f"{cname} extends SympyTransformer", "inherits the generic traversal", "does not inherit the generic traversal", construct=f"{XF}.{cname}")
        for mname, mi in ci.methods.items():
            if mname.startswith("visit_") and mname not in methods:
                h = mname[len("visit_"):]
                if h not in HEADS:
                    raise AnchorError(mi.short, "visitor for a head outside the tables")
                methods = dict(methods, **{mname: h})
        for mname, h in methods.items():
            mi = ci.methods.get(mname)
            if mi is None:
                raise AnchorError(f"{XF}.{cname}.{mname}", "rewrite method not found")
            p = visitor_param(mi)
            check_arity(ctx, "RW-ARITY", mi, {p: h})
            check_rewrite_equiv(ctx, "RW-EQUIV", mi, p, h, {"self.visit"})
        if cname in NORMALISING:
            mname, forbid = NORMALISING[cname]
            mi = ci.methods[mname]
            check_total(ctx, "RW-TOTAL", mi, visitor_param(mi), forbid, {"self.visit"})
    # new transformer classes in the module are covered generically
    xmod = repo.module(XF)
    for cname, ci in xmod.classes.items():
        if cname in seen_classes or base not in ci.mro():
            continue
        for mname, mi in ci.methods.items():
            if mname.startswith("visit_") and mname[6:] in HEADS:
                p = visitor_param(mi)
                check_arity(ctx, "RW-ARITY", mi, {p: mname[6:]})
                check_rewrite_equiv(ctx, "RW-EQUIV", mi, p, mname[6:], {"self.visit"})

    # ---- FX-SHARED: shared instances are stateless
    for ci in [base] + [c for c in xmod.classes.values() if base in c.mro()]:
        for mname, mi in ci.methods.items():
            writes = []
            for n in walk_no_nested(mi.node):
                if isinstance(n, (ast.Global, ast.Nonlocal)):
                    writes.append(f"{type(n).__name__.lower()} {', '.join(n.names)}")
                if isinstance(n, (ast.Assign, ast.AugAssign, ast.AnnAssign, ast.Delete)):
                    tgts = n.targets if isinstance(n, (ast.Assign, ast.Delete)) else [n.target]
                    for t in tgts:
                        for s in ast.walk(t):
                            if isinstance(s, (ast.Attribute, ast.Subscript)) and isinstance(s.ctx, (ast.Store, ast.Del)):
                                r = s
                                while isinstance(r, (ast.Attribute, ast.Subscript)):
                                    r = r.value
                                if isinstance(r, ast.Name) and r.id == "self":
                                    writes.append(norm(s))
            ctx.check(not writes, "FX-SHARED", mi, "stateless", "no write to self / globals", f"module-level shared transformer instance writes state: {writes}")

    # ---- custom_simplify_logic (RW-CONGRUENCE)
    check_custom_simplify(ctx, repo.func(f"{BO}.custom_simplify_logic"))

    # ---- RW-DEFS
    check_merge_expressions(ctx, repo.func(f"{BO}.merge_expressions"))
    check_apply_cse(ctx, repo.func(f"{BO}.apply_cse"))
    check_profile_apply(ctx, repo.cls(f"{BO}.BoolOptimizerProfile"))

    # ---- RW-ORDER / DP-LANG (heads)
    check_profiles(ctx)


def check_dispatcher(ctx: Ctx, disp: FuncInfo) -> set:
    p = visitor_param(disp)
    out = set()
    node = disp.body[0] if disp.body else None
    # docstring tolerated
    from ..core import real_body

    stmts = real_body(disp.body)
    if len(stmts) != 1 or not isinstance(stmts[0], ast.If):
        raise AnchorError(disp.short, "dispatcher is not a single if/elif chain")
    cur = stmts[0]
    while True:
        t = cur.test
        ok = (
            isinstance(t, ast.Call)
            and isinstance(t.func, ast.Name)
            and t.func.id == "isinstance"
            and len(t.args) == 2
            and isinstance(t.args[0], ast.Name)
            and t.args[0].id == p
        )
        if not ok:
            raise AnchorError(disp.short, f"dispatcher test `{norm(t)}` is not isinstance({p}, K)")
        h = head_name(t.args[1])
        body = cur.body
        good = (
            len(body) == 1
            and isinstance(body[0], ast.Return)
            and isinstance(body[0].value, ast.Call)
            and dotted(body[0].value.func) == f"self.visit_{h}"
            and len(body[0].value.args) == 1
            and isinstance(body[0].value.args[0], ast.Name)
            and body[0].value.args[0].id == p
        )
        ctx.check(good, "RW-CONGRUENCE", disp, f"branch {h}", f"isinstance({p}, {h}) -> self.visit_{h}({p})", f"branch for {h} does `{norm(body[0]) if body else ''}`: the handler does not match the tested head", cur)
        if good:
            out.add(h)
        if len(cur.orelse) == 1 and isinstance(cur.orelse[0], ast.If):
            cur = cur.orelse[0]
            continue
        # final else: return e unchanged
        fin = cur.orelse
        good = len(fin) == 1 and isinstance(fin[0], ast.Return) and isinstance(fin[0].value, ast.Name) and fin[0].value.id == p
        ctx.check(good, "RW-CONGRUENCE", disp, "default branch", "leaves return the node unchanged", "default branch does not return the node unchanged", cur)
        break
    return out


def check_custom_simplify(ctx: Ctx, fi: FuncInfo):
    """`type(expr)(*[f(arg) for arg in expr.args])` under isinstance(expr, (And, Or, Not)); Xor returned whole;
    everything else through simplify_logic."""
    p = fi.params[0]
    binds = single_bindings(fi)
    n = 0
    for r in (x for x in walk_no_nested(fi.node) if isinstance(x, ast.Return)):
        v = r.value
        role = f"return: {norm(v)[:60]}"
        n += 1
        if isinstance(v, ast.Name) and v.id == p:
            ctx.ok("RW-CONGRUENCE", fi, role, "identity", r, nontrivial=False)
        elif isinstance(v, ast.Call) and head_name(v.func) == "simplify_logic":
            ok = len(v.args) >= 1 and isinstance(v.args[0], ast.Name) and v.args[0].id == p
            ctx.check(ok, "RW-CONGRUENCE", fi, role, "delegates the whole node to sympy.simplify_logic (trusted)", "simplify_logic is applied to something other than the node", r)
        elif (
            isinstance(v, ast.Call)
            and isinstance(v.func, ast.Call)
            and isinstance(v.func.func, ast.Name)
            and v.func.func.id == "type"
            and len(v.func.args) == 1
            and isinstance(v.func.args[0], ast.Name)
            and v.func.args[0].id == p
        ):
            ok = len(v.args) == 1 and isinstance(v.args[0], ast.Starred) and not v.keywords
            why = ""
            if ok:
                src = v.args[0].value
                if isinstance(src, ast.Name) and src.id in binds:
                    src = binds[src.id]
                ok = q.is_mapped_over(src, fi.name, f"{p}.args")
                why = "" if ok else f"arguments `{norm(src)}` are not `[{fi.name}(a) for a in {p}.args]`"
            else:
                why = "rebuild does not splat one argument list"
            ctx.check(ok, "RW-CONGRUENCE", fi, role, "same head, all arguments, each through the recursive call", why, r)
        else:
            ctx.fail("RW-CONGRUENCE", fi, role, "a rebuild form outside the accepted encodings", r)
    if n < 3:
        raise AnchorError(fi.short, "fewer than 3 return forms found")


def _loop_over_param(fi: FuncInfo, param: str) -> ast.For:
    loops = [n for n in walk_no_nested(fi.node) if isinstance(n, ast.For) and isinstance(n.iter, ast.Name) and n.iter.id == param]
    if len(loops) != 1:
        raise AnchorError(fi.short, f"expected exactly one loop over `{param}`")
    return loops[0]


def _map_name(a) -> Optional[str]:
    """name of the definition map in `e.xreplace(emap)` or `e.xreplace({k: emap[k] for k in ... if k in emap})`"""
    if isinstance(a, ast.Name):
        return a.id
    if isinstance(a, ast.DictComp) and isinstance(a.value, ast.Subscript) and isinstance(a.value.value, ast.Name) and norm(a.value.slice) == norm(a.key):
        return a.value.value.id
    return None


def _is_ret_test(e, s: str) -> Optional[bool]:
    """True / False when `e` says that the symbol s IS / IS NOT a return symbol, None when it is another test"""
    t = norm(e).replace(" ", "").replace('"', "'")
    pos = (f"{s}.name[0:4]=='_ret'", f"{s}.name[:4]=='_ret'", f"{s}.name.startswith('_ret')", f"'_ret'=={s}.name[0:4]", f"'_ret'=={s}.name[:4]")
    neg = (f"{s}.name[0:4]!='_ret'", f"{s}.name[:4]!='_ret'", f"'_ret'!={s}.name[0:4]")
    if t in pos:
        return True
    if t in neg:
        return False
    return None


SIMPLIFIERS = ("custom_simplify_logic", "simplify_logic")


def check_merge_expressions(ctx: Ctx, fi: FuncInfo):
    """value flow through one iteration: the expression recorded in the map / appended to the result is the loop's
    expression with the map of earlier definitions substituted into it (as a whole, simultaneously) and nothing
    but simplifiers applied on top; it is recorded under the loop's own symbol; `_ret` symbols are kept, all
    others are recorded for inlining; the list of kept definitions is returned"""
    p = fi.params[0]
    loop = _loop_over_param(fi, p)
    if not (isinstance(loop.target, ast.Tuple) and len(loop.target.elts) == 2 and all(isinstance(e, ast.Name) for e in loop.target.elts)):
        raise AnchorError(fi.short, "loop target is not (symbol, expression)")
    s, e = loop.target.elts[0].id, loop.target.elts[1].id
    stores = [n for n in ast.walk(loop) if isinstance(n, ast.Assign) and isinstance(n.targets[0], ast.Subscript) and isinstance(n.targets[0].value, ast.Name)]
    appends = [n for n in ast.walk(loop) if isinstance(n, ast.Call) and isinstance(n.func, ast.Attribute) and n.func.attr == "append" and isinstance(n.func.value, ast.Name)]
    if len(stores) == 2 and not appends:
        # the kept definitions are collected in a mapping keyed by the symbol instead of a list: is that what is returned?
        rets = q.returns(fi)
        rv = norm(rets[0].value) if len(rets) == 1 and rets[0].value is not None else ""
        for st_ in stores:
            d = st_.targets[0].value.id
            if norm(st_.targets[0].slice) == s and (f"{d}.items()" in rv or rv == d):
                ctx.fail("RW-DEFS", fi, "every kept definition appears in the result, in order", f"`{norm(st_)}` keeps the definitions to return in a mapping keyed by the symbol and returns `{rv}`: a symbol defined more than once (a return bit written twice, an intermediate re-bound between two uses) keeps only its LAST expression, at the position of its FIRST definition - readers in between see the wrong version or an undefined symbol", st_)
                return
    if len(stores) != 1 or len(appends) != 1:
        ctx.undecided(fi.short, f"merge loop: {len(stores)} map stores and {len(appends)} appends (one of each expected)")
        return
    st, ap = stores[0], appends[0]
    emap = st.targets[0].value.id
    ap_arg = ap.args[0] if ap.args else None
    if not (isinstance(ap_arg, ast.Tuple) and len(ap_arg.elts) == 2):
        ctx.undecided(fi.short, "merge loop: the appended value is not a (symbol, expression) pair")
        return
    ap_stmt = q.enclosing_stmt(fi, ap)
    v_store = q.value_at(loop.body, st, st.value)
    v_app = q.value_at(loop.body, ap_stmt, ap_arg.elts[1])
    k_store = q.value_at(loop.body, st, st.targets[0].slice)
    k_app = q.value_at(loop.body, ap_stmt, ap_arg.elts[0])
    if None in (v_store, v_app, k_store, k_app):
        ctx.undecided(fi.short, "merge loop: a value on the way to the map store / append is assigned conditionally")
        return
    ctx.check(norm(k_store) == s, "RW-DEFS", fi, "intermediate recorded under its own symbol", f"{emap}[{s}] = ...", f"`{norm(st)}` records the definition under `{norm(k_store)}`, not under the symbol `{s}` it defines", st)
    ctx.check(norm(k_app) == s, "RW-DEFS", fi, "return definition keeps its symbol", f"append(({s}, ...))", f"`{norm(ap)}` keeps the definition under `{norm(k_app)}`, not under its own symbol `{s}`", ap)
    for role, v, node in (("recorded", v_store, st), ("kept", v_app, ap)):
        subs = [c for c in ast.walk(v) if isinstance(c, ast.Call) and isinstance(c.func, ast.Attribute) and c.func.attr in ("xreplace", "subs")]
        inl = [c for c in subs if len(c.args) == 1 and _map_name(c.args[0]) == emap and isinstance(c.func.value, ast.Name) and c.func.value.id == e]
        raw_e = [n for n in ast.walk(v) if isinstance(n, ast.Name) and n.id == e and not any(n is c.func.value for c in inl)]
        ctx.check(len(inl) == 1 and not raw_e, "RW-DEFS", fi, f"the {role} expression has the earlier definitions inlined first", norm(v)[:80], f"the {role} expression is `{norm(v)[:120]}`: the map of earlier definitions `{emap}` must be substituted into `{e}`, as a whole, before anything else uses it", node)
        if len(inl) == 1:
            call = inl[0]
            simultaneous = call.func.attr == "xreplace" or any(k.arg == "simultaneous" and isinstance(k.value, ast.Constant) and k.value.value is True for k in call.keywords)
            ctx.check(simultaneous, "RW-SUBST", fi, f"inlining is a simultaneous substitution ({role})", "xreplace", "subs() with a mapping applies the pairs one after another: when an inlined definition mentions a symbol that was re-bound later (t = a; a = b; b = t) that symbol is substituted again inside it", node)
            # everything applied on top of the substitution is a simplifier
            cur, wrappers = v, []
            while cur is not call:
                if isinstance(cur, ast.Call) and len(cur.args) == 1 and not cur.keywords and isinstance(cur.func, ast.Name):
                    wrappers.append(cur.func.id)
                    cur = cur.args[0]
                else:
                    wrappers.append(None)
                    break
            if None in wrappers:
                ctx.undecided(fi.short, f"merge loop: the {role} expression `{norm(v)[:80]}` applies something other than unary simplifier calls on top of the substitution")
            else:
                ctx.check(all(w in SIMPLIFIERS for w in wrappers), "RW-DEFS", fi, f"only simplifiers are applied to the inlined expression ({role})", str(wrappers), f"`{norm(v)[:100]}` passes the inlined expression through {[w for w in wrappers if w not in SIMPLIFIERS]}, which is not one of the meaning-preserving simplifiers {SIMPLIFIERS}", node)
    ctx.check(norm(v_store) == norm(v_app), "RW-DEFS", fi, "kept and recorded definitions are built the same way", "", f"recorded `{norm(v_store)[:80]}` vs kept `{norm(v_app)[:80]}`", loop)
    # the split: _ret symbols are kept, the others recorded
    def verdicts(node):
        out = []
        for ex, pol in guard_facts(fi, node):
            if q.contains(loop, ex):
                r = _is_ret_test(ex, s)
                out.append(None if r is None else (r if pol else not r))
        return out
    vs, va = verdicts(st), verdicts(ap)
    if None in vs or None in va or not vs or not va:
        ctx.undecided(fi.short, f"merge loop: the split between kept and inlined definitions is not a test of the `_ret` prefix of {s}.name (store under {[norm(x) for x, _ in guard_facts(fi, st)]}, append under {[norm(x) for x, _ in guard_facts(fi, ap)]})")
    else:
        ctx.check(all(v_ is False for v_ in vs) and all(v_ is True for v_ in va), "RW-DEFS", fi, "_ret definitions are kept, others inlined", "split on the `_ret` prefix; both branches present", f"the map store runs when the symbol {'is' if vs[0] else 'is not'} a return symbol and the append when it {'is' if va[0] else 'is not'}: return definitions must be kept and only the others recorded for inlining", loop)
    rets = [n for n in walk_no_nested(fi.node) if isinstance(n, ast.Return)]
    good = len(rets) == 1 and isinstance(rets[0].value, ast.Name) and rets[0].value.id == ap.func.value.id
    ctx.check(bool(good), "RW-DEFS", fi, "returns the kept definitions", "returns the list the _ret definitions are appended to", "return value is not the list of kept definitions", rets[0] if rets else loop)


def check_apply_cse(ctx: Ctx, fi: FuncInfo):
    """result = <replacements from cse> + zip(<symbols>, <reduced>) in that order"""
    p = fi.params[0]
    binds = single_bindings(fi)
    rets = [n for n in walk_no_nested(fi.node) if isinstance(n, ast.Return)]
    if len(rets) != 1:
        raise AnchorError(fi.short, "expected one return")
    # find `a, b = cse(...)`
    cse_assign = None
    for n in walk_no_nested(fi.node):
        if isinstance(n, ast.Assign) and isinstance(n.value, ast.Call) and head_name(n.value.func) == "cse":
            cse_assign = n
    if cse_assign is None or not (isinstance(cse_assign.targets[0], ast.Tuple) and len(cse_assign.targets[0].elts) == 2):
        raise AnchorError(fi.short, "no `repl, red = cse(...)`")
    repl, red = (x.id for x in cse_assign.targets[0].elts)
    v = rets[0].value
    if isinstance(v, ast.Name) and v.id in binds:
        v = binds[v.id]
    ok = isinstance(v, ast.BinOp) and isinstance(v.op, ast.Add)
    why = "result is not `replacements + reduced definitions`"
    if ok:
        left, right = v.left, v.right
        ok = isinstance(left, ast.Name) and left.id == repl
        why = f"left operand `{norm(left)}` is not the CSE replacement list `{repl}`: intermediate definitions must come first (and must not be dropped)"
        if ok:
            rz = right
            if isinstance(rz, ast.Call) and isinstance(rz.func, ast.Name) and rz.func.id == "list" and rz.args:
                rz = rz.args[0]
            ok = (
                isinstance(rz, ast.Call)
                and isinstance(rz.func, ast.Name)
                and rz.func.id == "zip"
                and len(rz.args) == 2
                and isinstance(rz.args[1], ast.Name)
                and rz.args[1].id == red
            )
            why = f"right operand `{norm(right)}` does not pair the original symbols with the reduced expressions `{red}`"
            if ok:
                # symbols come from exps: lsts = list(zip(*exps)); lsts[0]
                sym = rz.args[0]
                cse_arg = cse_assign.value.args[0] if cse_assign.value.args else None
                txt_s, txt_e = _resolve_text(sym, binds), _resolve_text(cse_arg, binds)
                ok = f"zip(*{p})" in txt_s and "[0]" in norm(sym) and f"zip(*{p})" in txt_e and "[1]" in norm(cse_arg)
                why = f"symbols `{norm(sym)}` / expressions `{norm(cse_arg)}` are not columns 0 / 1 of the definition list"
    ctx.check(ok, "RW-DEFS", fi, "CSE definitions first, every symbol kept", "repl + zip(symbols, reduced)", why, rets[0])


def _resolve_text(n, binds, depth=0) -> str:
    if n is None or depth > 6:
        return ""
    out = norm(n)
    for x in ast.walk(n):
        if isinstance(x, ast.Name) and x.id in binds:
            out += " <- " + _resolve_text(binds[x.id], binds, depth + 1)
    return out


def check_profile_apply(ctx: Ctx, ci):
    fi = ci.methods.get("apply")
    if fi is None:
        raise AnchorError(ci.qualname + ".apply", "not found")
    p = fi.params[1]
    loops = [n for n in walk_no_nested(fi.node) if isinstance(n, ast.For)]
    if len(loops) != 1:
        raise AnchorError(fi.short, "expected one loop over the steps")
    loop = loops[0]
    ctx.check(norm(loop.iter) == "self.steps" and not loop.orelse, "RW-DEFS", fi, "all steps, in order", "for opt in self.steps", f"iterates `{norm(loop.iter)}`", loop)
    opt = norm(loop.target)
    # every value the running list takes inside the loop, with the condition it is taken under
    alts = q.value_alternatives(fi, loop, p)
    if not alts:
        ctx.undecided(fi.short, f"the running definition list `{p}` is not re-bound in the loop over the steps")
        return
    n_tr = n_fn = 0
    for v, conds, node in alts:
        is_tr = [pol for t, pol in conds if norm(t).replace(" ", "") == f"isinstance({opt},SympyTransformer)"]
        if len(is_tr) != 1 or len(conds) != 1:
            ctx.undecided(fi.short, f"`{p} = {norm(v)[:60]}` is taken under {[(norm(t), pol) for t, pol in conds]}: not a split on isinstance({opt}, SympyTransformer) alone")
            continue
        if is_tr[0]:
            n_tr += 1
            pw = q.pairwise_visit(v, opt)
            if pw is None:
                ctx.undecided(fi.short, f"transformer step `{norm(v)[:80]}` is not a pairwise map over the definition list")
            else:
                src_ok = any(norm(x) == p for x in ast.walk(v) if isinstance(x, ast.Name))
                ctx.check(pw and src_ok, "RW-DEFS", fi, "transformer step keeps the defined symbol", "(sym, opt.visit(exp)) for every pair", f"`{norm(v)[:120]}` does not map every (symbol, expression) of `{p}` to (symbol, {opt}.visit(expression))", node)
        else:
            n_fn += 1
            ok = isinstance(v, ast.Call) and norm(v.func) == opt and [norm(x) for x in v.args] == [p] and not v.keywords
            ctx.check(ok, "RW-DEFS", fi, "function step is applied to the running list", f"{opt}({p})", f"`{norm(v)[:80]}` is not the step applied to the running definition list", node)
    rets = [n for n in walk_no_nested(fi.node) if isinstance(n, ast.Return)]
    good = len(rets) == 1 and isinstance(rets[0].value, ast.Name) and rets[0].value.id == p and n_tr >= 1 and n_fn >= 1
    ctx.check(good, "RW-DEFS", fi, "steps are chained", "each step's result feeds the next and the last is returned", "the running definition list is not threaded through every step and returned", rets[0] if rets else loop)


def profile_steps(repo, name: str) -> List[str]:
    m = repo.module(BO)
    v = m.globals_assigned.get(name)
    if v is None:
        raise AnchorError(f"{BO}.{name}", "profile not found")
    if not (isinstance(v, ast.Call) and head_name(v.func) == "BoolOptimizerProfile" and v.args and isinstance(v.args[0], ast.List)):
        raise AnchorError(f"{BO}.{name}", "profile is not BoolOptimizerProfile([...])")
    steps = []
    for e in v.args[0].elts:
        if isinstance(e, ast.Name):
            steps.append(e.id)
        elif isinstance(e, ast.Call) and isinstance(e.func, ast.Name):
            steps.append(e.func.id)
        else:
            raise AnchorError(f"{BO}.{name}", f"step `{norm(e)}` in a form outside the tables")
    return steps


def check_profiles(ctx: Ctx, profiles=("defaultOptimizer", "fastOptimizer", "defaultOptimizerDebug")):
    repo = ctx.repo
    xmod = repo.module(XF)
    base = repo.cls(BASE)
    covered = set(TRANSFORMERS) | {"merge_expressions", "apply_cse", "print_step"} | {n for n, ci in xmod.classes.items() if base in ci.mro()}
    checked_steps = set()
    for pname in profiles:
        steps = profile_steps(repo, pname)
        c = f"{BO}.{pname}"
        for st in steps:
            if st in covered or st in checked_steps:
                continue
            checked_steps.add(st)
            ctx.section(check_unknown_step, ctx, pname, st)

        def pos(s):
            return steps.index(s) if s in steps else None

        for elim in ("remove_ITE", "remove_Implies"):
            ctx.check(pos(elim) is not None, "RW-ORDER", None, f"{elim} present", f"steps={steps}", f"profile lacks {elim}: the compiler has no branch for that head", construct=c)
        ctx.check(pos("transform_or2and") is not None, "RW-ORDER", None, "transform_or2and present", f"steps={steps}", "profile lacks transform_or2and: n-ary Or reaches the 2-ary-only Or synthesis", construct=c)
        if pos("transform_or2and") is not None:
            for elim in ("remove_ITE", "remove_Implies"):
                if pos(elim) is not None:
                    ctx.check(pos(elim) < pos("transform_or2and"), "RW-ORDER", None, f"{elim} before transform_or2and", "heads introducing Or are removed before Or is normalised", f"{elim} runs after transform_or2and: the Or it introduces is not normalised", construct=c)
            ctx.check(steps.count("transform_or2and") >= 1 and all(s not in ("merge_expressions", "apply_cse") for s in steps[pos("transform_or2and"):]), "RW-ORDER", None, "no simplifier after transform_or2and", "nothing re-introduces n-ary Or after normalisation", "merge_expressions/apply_cse run after transform_or2and and can re-introduce n-ary Or", construct=c)
        if pos("apply_cse") is not None and pos("merge_expressions") is not None:
            ctx.check(pos("merge_expressions") < pos("apply_cse"), "RW-ORDER", None, "merge before cse", "inlining precedes sharing", "apply_cse before merge_expressions: the shared definitions are inlined away / _ret filter drops them", construct=c)


def check_unknown_step(ctx: Ctx, pname: str, st: str):
    """A profile step that is none of the rewrites verified above.  The one kind the tables describe is a filter of
    the definition list (dead-definition removal): dropping `s = e` is sound only if no later kept definition reads
    this binding of s, i.e. the scan is a backward liveness analysis whose transfer is  live = (live - {s}) | uses(e):
    the binding defined here is killed BEFORE its own uses are added (s may read its previous binding, as in the
    front end's `c = ITE(t, v, c)`).  Any other new step is undecided."""
    repo = ctx.repo
    fi = repo.maybe_func(f"{BO}.{st}") or repo.maybe_func(f"{XF}.{st}")
    anchor = f"{BO}.{pname}"
    if fi is None:
        raise AnchorError(anchor, f"step `{st}` is not one of the verified rewrites and its definition was not found")
    if len(fi.params) < 1:
        raise AnchorError(fi.short, "profile step without a parameter")
    ex = fi.params[0]
    loops = [l for l in q.for_loops(fi.node) if ex in q.names_in(l.iter)]
    if len(loops) != 1 or not (isinstance(loops[0].target, ast.Tuple) and len(loops[0].target.elts) == 2 and all(isinstance(e, ast.Name) for e in loops[0].target.elts)):
        raise AnchorError(fi.short, f"step `{st}` of {pname} is not one of the verified rewrites and is not a single scan over (symbol, expression) pairs: undecided")
    l = loops[0]
    sym, exp = l.target.elts[0].id, l.target.elts[1].id
    backward = q.reversal_parity(l.iter)[1] == 1
    # the live set: a name bound to an empty set before the loop and updated inside it
    updates = []
    for n in ast.walk(l):
        if isinstance(n, ast.Assign) and len(n.targets) == 1 and isinstance(n.targets[0], ast.Name):
            updates.append((n.targets[0].id, n))
        elif isinstance(n, ast.AugAssign) and isinstance(n.target, ast.Name):
            updates.append((n.target.id, n))
        elif isinstance(n, ast.Expr) and isinstance(n.value, ast.Call) and isinstance(n.value.func, ast.Attribute) and isinstance(n.value.func.value, ast.Name) and n.value.func.attr in ("update", "discard", "remove", "add", "difference_update"):
            updates.append((n.value.func.value.id, n))
    def is_gen(e) -> bool:
        return exp in q.names_in(e)
    def is_kill(e) -> bool:
        return sym in q.names_in(e) and exp not in q.names_in(e)
    lives = sorted({v for v, n in updates if any(is_gen(x) for x in ast.walk(n) if isinstance(x, ast.expr))})
    if len(lives) != 1:
        raise AnchorError(fi.short, f"step `{st}` of {pname} scans the definition list but is not a liveness filter the tables describe ({len(lives)} candidate live sets): undecided")
    live = lives[0]
    role = "dead-definition removal kills the defined symbol before adding the uses of its definition"
    ctx.check(backward, "RW-DEFS", fi, "liveness is computed backwards over the definition list", norm(l.iter), f"`for {sym}, {exp} in {norm(l.iter)}` runs forwards: whether a definition is read later is not known when it is met", l)
    events = []  # (order, kind)
    from ..core import order_key
    for v, n in updates:
        if v != live:
            continue
        if isinstance(n, ast.Assign):
            e = n.value
            # (live | G) - K  : gen then kill ; (live - K) | G : kill then gen
            def seq(e):
                if isinstance(e, ast.BinOp) and isinstance(e.op, (ast.BitOr, ast.Sub)):
                    inner = seq(e.left)
                    if inner is None:
                        return None
                    if isinstance(e.op, ast.BitOr) and is_gen(e.right):
                        return inner + ["gen"]
                    if isinstance(e.op, ast.Sub) and is_kill(e.right):
                        return inner + ["kill"]
                    return None
                if isinstance(e, ast.Call) and isinstance(e.func, ast.Attribute) and e.func.attr in ("union", "difference") and len(e.args) == 1:
                    inner = seq(e.func.value)
                    if inner is None:
                        return None
                    if e.func.attr == "union" and is_gen(e.args[0]):
                        return inner + ["gen"]
                    if e.func.attr == "difference" and is_kill(e.args[0]):
                        return inner + ["kill"]
                    return None
                if isinstance(e, ast.Name) and e.id == live:
                    return []
                return None
            sq = seq(e)
            if sq is None:
                raise AnchorError(fi.short, f"RW-DEFS [{role}]: `{norm(n)[:80]}` is not a gen/kill update the tables describe")
            for k in sq:
                events.append((order_key(n), len(events), k, n))
        elif isinstance(n, ast.AugAssign):
            k = "gen" if isinstance(n.op, ast.BitOr) and is_gen(n.value) else ("kill" if isinstance(n.op, ast.Sub) and is_kill(n.value) else None)
            if k is None:
                raise AnchorError(fi.short, f"RW-DEFS [{role}]: `{norm(n)[:80]}` is not a gen/kill update the tables describe")
            events.append((order_key(n), len(events), k, n))
        else:
            c = n.value
            k = "gen" if c.func.attr == "update" and c.args and is_gen(c.args[0]) else ("kill" if c.func.attr in ("discard", "remove", "difference_update") and c.args and is_kill(c.args[0]) else None)
            if k is None:
                raise AnchorError(fi.short, f"RW-DEFS [{role}]: `{norm(n)[:80]}` is not a gen/kill update the tables describe")
            events.append((order_key(n), len(events), k, n))
    events.sort(key=lambda t: (t[0], t[1]))
    kinds = [k for _, _, k, _ in events]
    if "gen" not in kinds:
        raise AnchorError(fi.short, f"RW-DEFS [{role}]: no update adding the uses of `{exp}` to `{live}`")
    if "kill" not in kinds:
        ctx.ok("RW-DEFS", fi, role, "the live set only grows (conservative)", events[0][3])
        return
    first_gen, last_kill = kinds.index("gen"), len(kinds) - 1 - kinds[::-1].index("kill")
    bad = last_kill > first_gen
    n = events[last_kill][3]
    ctx.check(not bad, "RW-DEFS", fi, role, f"updates of `{live}`: {kinds}", f"`{norm(n)[:80]}`: `{sym}` is removed from `{live}` AFTER the uses of its own definition were added, so a definition that reads the previous binding of the same symbol (`c = ITE(t, v, c)`, `a = a ^ b`) leaves that symbol dead: the earlier binding is dropped and the result reads an undefined or stale symbol", n)
