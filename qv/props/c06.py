"""C06 - Predicates compile to xor-oracles."""
from __future__ import annotations

import ast

from .. import q
from ..core import AnchorError, Ctx, dotted, guard_facts, norm, walk_no_nested
from . import c02, c03

ID = "C06"
TECHNIQUE = (
    "dominance of the keep guard over the final replay, fresh-output-qubit rule on compile_symbol, who-may-emit "
    "table (X-family only), destination-not-a-control rule"
)
EXPLANATION = (
    "Thin by construction; decides only the structural conditions the property's own anchors name: "
    "(MP-keep-guard) output qubits are excluded from the final reverse replay; (MP-fresh-output) a return bit that is "
    "literally an input symbol gets a fresh qubit and a cx from the input's qubit, never the input's own qubit; "
    "(X-FAMILY) the classical synthesis emits only x/cx/ccx/mcx, so every gate on the output qubit is a toggle; "
    "(DP-WIRES) the destination is removed from the control list before mcx, so no toggle of the output is conditioned "
    "on the output; (TS-DEST) results are accumulated into the destination, never written over it, and the "
    "destination is never re-bound to anything but the caller's qubit or a fresh ancilla.  It does NOT decide "
    "the behaviour for y = 1, cleanliness of scratch (C03) or correctness of f (C02)."
)
NOT_DECIDED = "the behaviour for an output qubit initially 1; scratch cleanliness; correctness of f"
MIN_OBLIGATIONS = 14

IC = c02.IC


def run(ctx: Ctx):
    from .. import memo as _memo

    ctx.section(_memo.check_memo_keys, ctx, ('compiler.', 'qcircuit.qcircuitenhanced', 'qcircuit.qcircuit.', 'qlassfun.QlassF.compile', 'qlassfun.QlassF.circuit'))
    ctx.section(c03.check_uncompute, ctx, False)
    c03.check_uncompute_all(ctx)
    c03.check_keep_flow(ctx)
    c03.check_x_family(ctx)
    ic = ctx.repo.cls(IC)
    c02.check_or_idiom(ctx, ic)
    check_fresh_output(ctx, ic)
    check_accumulate(ctx, ic)
    ctx.section(check_dest_rebound, ctx, ic)
    c03.check_mark_operands(ctx)
    ctx.section(check_output_never_scratch, ctx)
    ctx.section(c02.check_expqmap, ctx)


def check_fresh_output(ctx: Ctx, ic):
    fi = ic.methods.get("compile_symbol")
    if fi is None:
        raise AnchorError(IC + ".compile_symbol", "not found")
    found = 0
    for r in q.returns(fi):
        from ..core import canon_fact

        facts = [canon_fact(e, pol) for e, pol in guard_facts(fi, r)]
        is_ret = any("_ret" in f and pol for f, pol in facts)
        is_input = any("self.input_symbols" in f and pol for f, pol in facts)
        if not (is_ret and is_input):
            continue
        found += 1
        v = r.value
        ok = False
        why = f"returns `{norm(v)}`"
        if isinstance(v, ast.Name):
            alloc = [n for n in walk_no_nested(fi.node) if isinstance(n, ast.Assign) and isinstance(n.targets[0], ast.Name) and n.targets[0].id == v.id]
            fresh = len(alloc) == 1 and isinstance(alloc[0].value, ast.Call) and dotted(alloc[0].value.func) in ("qc.add_qubit", "qc.get_free_ancilla", "qc.add_ancilla")
            cxs = [c for c in q.calls(fi.node) if dotted(c.func) == "qc.cx" and len(c.args) == 2 and norm(c.args[1]) == v.id and "expr" in norm(c.args[0])]
            ok = fresh and len(cxs) == 1
            why = f"`{v.id}` fresh={fresh}, cx(expr's qubit -> {v.id}) count={len(cxs)}"
        ctx.check(ok, "MP-fresh-output", fi, "return bit equal to an input gets its own qubit", "fresh qubit + cx from the input", why + ": returning the input's own qubit makes the 'output' an input (the circuit is not |x>|y> -> |x>|y^f(x)>)", r)
    if found != 1:
        raise AnchorError(fi.short, f"{found} returns under the (_ret, input symbol) path, expected 1")


def check_dest_rebound(ctx: Ctx, ic):
    """TS-DEST (provenance): in every synthesis routine the destination is the qubit the caller handed in, or a fresh
    (zero) ancilla allocated by the routine.  Re-binding `dest` to a qubit found elsewhere (one that already carries a
    value and may be a control of earlier gates) makes the routine accumulate onto a live qubit.  A helper that
    computes the destination is followed into its return statements (new helpers are usually inlined before)."""
    from ..normalize import frozen_functions

    fresh = ("qc.get_free_ancilla", "qc.add_qubit", "qc.add_ancilla")
    known = frozen_functions()

    def verdict(fi, v, dname, k=None, depth=0):
        """'ok' | 'bad' | 'unknown' for the value v (component k of it when it is a tuple) as a destination"""
        if v is None:
            return "unknown"
        if isinstance(v, ast.IfExp):
            vs = {verdict(fi, v.body, dname, k, depth), verdict(fi, v.orelse, dname, k, depth)}
            return "bad" if "bad" in vs else ("unknown" if "unknown" in vs else "ok")
        if k is not None and isinstance(v, (ast.Tuple, ast.List)):
            return verdict(fi, v.elts[k], dname, None, depth) if k < len(v.elts) else "unknown"
        if isinstance(v, ast.Name):
            return "ok" if v.id == dname else "unknown"
        if isinstance(v, ast.Call):
            d = dotted(v.func) or ""
            if d in fresh:
                return "ok"
            if d == "self.compile_expr" and any(kw.arg == "dest" and norm(kw.value) == dname for kw in v.keywords):
                return "ok"
            if d.startswith("self.") and d.count(".") == 1 and depth < 3:
                callee = ic.methods.get(d.split(".")[1])
                if callee is not None:
                    ps = callee.params[1:]
                    passed = None
                    for i_, a_ in enumerate(v.args):
                        if isinstance(a_, ast.Name) and a_.id == dname and i_ < len(ps):
                            passed = ps[i_]
                    for kw in v.keywords:
                        if isinstance(kw.value, ast.Name) and kw.value.id == dname:
                            passed = kw.arg
                    rs = [verdict(callee, r.value, passed or "\0", k, depth + 1) for r in q.returns(callee)]
                    if not rs:
                        return "unknown"
                    return "bad" if "bad" in rs else ("unknown" if "unknown" in rs else "ok")
            return "unknown"
        if isinstance(v, ast.Subscript) and isinstance(v.value, ast.Name) and v.value.id == "qc":
            return "bad"  # the qubit of a named symbol: it holds that symbol's value
        return "unknown"

    n = 0
    for name, fi in sorted(ic.methods.items()):
        if "dest" not in fi.params or (known and fi.qualname not in known):
            continue
        n += 1
        bad = und = None
        for a in walk_no_nested(fi.node):
            k = None
            if isinstance(a, ast.Assign) and len(a.targets) == 1:
                t = a.targets[0]
                if isinstance(t, ast.Name) and t.id == "dest":
                    pass
                elif isinstance(t, (ast.Tuple, ast.List)) and any(isinstance(x, ast.Name) and x.id == "dest" for x in t.elts):
                    k = [i_ for i_, x in enumerate(t.elts) if isinstance(x, ast.Name) and x.id == "dest"][0]
                else:
                    continue
            elif isinstance(a, (ast.AugAssign, ast.AnnAssign)) and isinstance(a.target, ast.Name) and a.target.id == "dest":
                if isinstance(a, ast.AugAssign):
                    bad = a
                    break
            else:
                continue
            vd = verdict(fi, getattr(a, "value", None), "dest", k)
            if vd == "bad":
                bad = a
                break
            if vd == "unknown":
                und = a
        if bad is None and und is not None:
            ctx.undecided(fi.short, f"TS-DEST [the destination is the caller's qubit or a fresh ancilla]: `{norm(und)[:70]}` re-binds the destination to a value the tables cannot trace ({fi.loc(und)})")
            continue
        ctx.check(bad is None, "TS-DEST", fi, "the destination is the caller's qubit or a fresh ancilla", "dest is never re-bound to an existing qubit", f"`{norm(bad)[:80] if bad is not None else ''}` re-binds the destination to a qubit that is neither the caller's nor freshly allocated: the result is accumulated onto a qubit that already holds a value and that earlier gates use as a control (for an output qubit: not |y> -> |y xor f(x)>, and the final replay runs those gates against the result)", bad)
    if n < 4:
        raise AnchorError(IC, f"only {n} synthesis routines with a dest parameter")


def check_accumulate(ctx: Ctx, ic):
    """compile_xor accumulates into one destination: every term is applied by cx onto d / compiled with dest=d,
    and d is only re-bound to the result of a call that was given dest=d"""
    fi = ic.methods.get("compile_xor")
    if fi is None:
        raise AnchorError(IC + ".compile_xor", "not found")
    d_names = c02.dest_aliases(fi)
    loops = [l for l in q.for_loops(fi.node) if norm(l.iter).endswith(".args")]
    if len(loops) != 1:
        raise AnchorError(fi.short, f"{len(loops)} loops over the operands")
    for n in walk_no_nested(fi.node):
        if isinstance(n, ast.Assign) and isinstance(n.targets[0], ast.Name) and n.targets[0].id in d_names and n.targets[0].id != "dest":
            v = n.value
            if not q.contains(loops[0], n):
                # initialisation before the operands are visited: the caller's destination or a fresh ancilla
                alts = [v.body, v.orelse] if isinstance(v, ast.IfExp) else [v]
                good = all((isinstance(a, ast.Name) and a.id in d_names) or (isinstance(a, ast.Call) and dotted(a.func) in ("qc.get_free_ancilla", "qc.add_qubit", "qc.add_ancilla")) for a in alts)
                ctx.check(good, "TS-DEST", fi, f"{n.targets[0].id} initialised with the destination or a fresh ancilla", norm(v), f"`{norm(n)}`: the accumulator must start as the caller's destination or a fresh (zero) ancilla", n)
                continue
            ok = isinstance(v, ast.Call) and dotted(v.func) == "self.compile_expr" and any(k.arg == "dest" and norm(k.value) in d_names for k in v.keywords)
            ctx.check(ok, "TS-DEST", fi, f"{n.targets[0].id} re-bound only to a callee that was handed it", norm(v), f"`{norm(n)}` re-binds the accumulator to something not computed into it: previously accumulated terms are lost", n)
    cxs = [c for c in q.calls(fi.node) if dotted(c.func) == "qc.cx"]
    if not cxs:
        raise AnchorError(fi.short, "no cx emitted by compile_xor")
    for c in cxs:
        ctx.check(norm(c.args[1]) in d_names, "TS-DEST", fi, f"cx({norm(c.args[0])}, {norm(c.args[1])}) targets the accumulator", "", "a term is xored into something other than the accumulator", c)


def check_output_never_scratch(ctx: Ctx):
    """MP-fresh-output (allocation): |x>|y> -> |x>|y ^ f(x)> for y = 1 needs an output qubit that no gate uses as
    a control and that never served as scratch.  The compiler takes the destination of every definition, return bits
    included, from get_free_ancilla(), which hands out released scratch qubits first."""
    comp = ctx.repo.func(f"{IC}.compile")
    gfa = ctx.repo.func("qcircuit.qcircuitenhanced.QCircuitEnhanced.get_free_ancilla")
    recycles = any(isinstance(c.func, ast.Attribute) and c.func.attr == "pop" and "free_ancilla_lst" in norm(c.func.value) for c in q.calls(gfa.node))
    loops = [l for l in q.for_loops(comp.node) if norm(l.iter) == comp.params[4] or norm(l.iter) == "exprs"]
    if len(loops) != 1:
        raise AnchorError(comp.short, "definition loop not found")
    ce = [c for c in q.calls(loops[0]) if dotted(c.func) == "self.compile_expr"]
    if len(ce) != 1:
        raise AnchorError(comp.short, "expected one compile_expr call per definition")
    dest = q.arg(ce[0], 2, "dest")
    fresh_for_ret = dest is not None and any(dotted(c.func) in ("qc.add_qubit",) for c in ast.walk(loops[0]) if isinstance(c, ast.Call))
    ctx.check((not recycles) or fresh_for_ret, "MP-fresh-output", comp, "the qubit of a return bit never served as scratch", "", "return bits get their qubit like every other definition, from get_free_ancilla(), which recycles released scratch qubits: an output qubit may have been used as scratch and as a control earlier in the circuit, so for an output qubit initially 1 those earlier gates misfire", ce[0])
