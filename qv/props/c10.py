"""C10 - Compilation is pure: no dependence on, or damage to, earlier work."""
from __future__ import annotations

import ast
from typing import Dict, List, Optional, Set, Tuple

from .. import memo, fx, q
from ..normalize import frozen_functions
from ..core import AnchorError, Ctx, FuncInfo, dotted, norm, walk_no_nested

ID = "C10"
TECHNIQUE = (
    "interprocedural effect/alias analysis (parameter-reachability tokens with depth and first attribute, "
    "function summaries to a fixpoint, inlined closures, class-hierarchy call resolution) with purity tables "
    "generated from the package's public surface; exact rules for exec/eval namespaces, mutable defaults and "
    "module-level state"
)
EXPLANATION = (
    "Decides, for every public entry point of the package (enumerated from the tree on every run; mutators by design "
    "are a named table): (FX-PARAM) it modifies nothing reachable from its arguments; (FX-SELF) methods that are not "
    "mutators by design do not modify their receiver; (FX-FRESH) results promised independent (QCircuit.copy/__add__/repeat) are freshly allocated and share "
    "no field with an operand; (FX-DEFAULT) no mutable or stateful default argument object is itself modified, stored, returned or "
    "handed to code outside the repository; (FX-GLOBAL) no user-controlled code is exec'd in, and no user-controlled "
    "name is looked up in, a library module's namespace; (FX-MODSTATE) no function writes a module-level object, "
    "re-binds a module global or memoises on argument equality; (FX-SHARED) module-level optimizer instances are "
    "stateless; (MP-fresh-env) each translation builds its own Env / ASTRewriter / ExpQMap.  It does NOT decide "
    "equality of results with a fresh-interpreter run over arbitrary histories (effects are over-approximated per "
    "entry point; interleavings are not enumerated)."
)
NOT_DECIDED = "equality with a fresh-interpreter run over all histories; behaviour of external libraries (assumed not to mutate repository objects)"
MIN_OBLIGATIONS = 120

# --- classes whose instances are working objects of one translation (their methods mutate self and the
#     objects they are handed, by design); they are not entry points
WORKING_CLASSES = {
    "ast2ast.astrewriter.ASTRewriter", "ast2ast.astrewriter.NameValReplacer", "ast2ast.astrewriter.IsNamePresent",
    "ast2ast.constantfolder.ConstantFolder", "ast2ast.replacemultitargetassign.ReplaceMultiTargetAssign",
    "ast2ast.replacetypeann.ReplaceTypeAnn", "ast2ast.ast2ast.IndexReplacer", "ast2ast.env.Environment",
    "ast2logic.env.Env", "compiler.expqmap.ExpQMap", "compiler.internalcompiler.InternalCompiler",
    "compiler.recompiler.ReCompiler", "compiler.tweedledumcompiler.TweedledumCompiler", "compiler.compiler.Compiler",
    "qcircuit.qcircuitenhanced.QCircuitEnhanced", "bqm.SympyToBQM",
}
# --- functions that modify an argument by design: name -> {param: reason}
MUTATOR_ARGS: Dict[str, Dict[str, str]] = {
    "ast2ast.ast2ast.ast2ast": {"a_tree": "documented in-place normalisation of the tree it is given (callers pass a parsed/deep-copied tree)"},
    "ast2ast.replacetypeann._replace_types_annotations": {"ann": "internal helper of the in-place normalisation", "arg": "internal helper of the in-place normalisation"},
    "ast2logic.t_statement.translate_statement": {"env": "the environment is the translation's working object, threaded through and returned"},
    "ast2logic.t_ast.translate_ast": {"fun": "receives the tree already owned by the translation"},
    "tools.py2qasm.convert_to_quasm": {"qlassf": "re-compiles the function it is handed with the selected compiler, by design of the CLI"},
    "tools.py2bexp.output_result": {}, "tools.py2qasm.output_result": {},
}
# --- methods that modify self by design
SELF_MUTATORS: Dict[str, Set[str]] = {
    "qcircuit.qcircuit.QCircuit": {"__init__", "__setitem__", "__delitem__", "__iadd__", "append_circuit", "add_qubit", "append", "barrier", "h", "z", "x", "y", "t", "s", "cx", "ccx", "cz", "mctrl", "mcx", "swap", "cp", "qft", "iqft"},
    "qlassfun.QlassF": {"__init__", "compile"},
    "decompiler.decompiler.DecompilerResults": {"__init__", "append"},
}
# --- named exemptions: (origin function, first attribute) -> reason
EXEMPT_ORIGINS = {
    ("qcircuit.qcircuit.QCircuit.copy", "_QCircuit__native"): "copy() clears the private cached text rendering of the circuit; not observable state",
    ("qcircuit.qcircuit.QCircuit.copy", "__native"): "copy() clears the private cached text rendering of the circuit; not observable state",
}
FRESH_RESULTS = {
    # only where the property itself promises an independent result (C14: copy / + / repeat)
    "qcircuit.qcircuit.QCircuit.copy": None,
    "qcircuit.qcircuit.QCircuit.__add__": None,
    "qcircuit.qcircuit.QCircuit.repeat": None,
}


def public_entries(ctx: Ctx) -> List[FuncInfo]:
    out = []
    for fi in ctx.repo.functions.values():
        if fi.parent is not None or isinstance(fi.node, ast.Lambda):
            continue
        if fi.cls is not None and fi.cls.qualname[len("qlasskit."):] in WORKING_CLASSES:
            continue
        if fi.module.name.startswith("qlasskit.compiler.tweedledum"):
            continue
        name = fi.name
        if fi.cls is None and name.startswith("_") and fi.short not in MUTATOR_ARGS:
            # module-private helpers are reached through the entry points that call them
            continue
        if name in ("main", "read_input", "print_step", "in_ipynb"):
            continue
        if name.startswith("_") and not (name.startswith("__") and name.endswith("__")) and fi.qualname not in frozen_functions() and frozen_functions():
            # a private helper that is not in the reference inventory is not an entry point of the library: it is
            # reached (and its effects are accounted for) through the functions that call it
            continue
        out.append(fi)
    return out


def designed_mutators(ctx: Ctx) -> Set[str]:
    """short qualnames of methods whose job is to modify their receiver"""
    out: Set[str] = set()
    for c in ctx.repo.classes.values():
        cq = c.qualname[len("qlasskit."):]
        names: Set[str] = set()
        for b in c.mro():
            names |= SELF_MUTATORS.get(b.qualname[len("qlasskit."):], set())
        working = any(b.qualname[len("qlasskit."):] in WORKING_CLASSES for b in c.mro())
        for mn, mi in c.methods.items():
            if working or mn in names or mn == "__init__":
                out.add(mi.short)
    return out


def run(ctx: Ctx):
    an = fx.effects(ctx)
    memo.check_memo_keys(ctx, ("",))
    entries = public_entries(ctx)
    if len(entries) < 150:
        raise AnchorError("qlasskit", f"only {len(entries)} public entry points enumerated (about 250 when the tables were frozen)")
    ctx.extra["entry_points"] = len(entries)
    designed = designed_mutators(ctx)
    rep_p = fx.PurityReport(ctx, "FX-PARAM", designed)
    rep_s = fx.PurityReport(ctx, "FX-SELF", designed)
    for fi in entries:
        skip = MUTATOR_ARGS.get(fi.short, {})
        params = [p for i, p in enumerate(fi.all_params) if not (i == 0 and fi.has_self) and p not in skip]
        if params:
            fx.check_params_pure(ctx, "FX-PARAM", an, fi, params, rep_p, EXEMPT_ORIGINS)
        for p, why in skip.items():
            ctx.ok("FX-PARAM", fi, f"`{p}` is modified by design", why, fi.node, nontrivial=False)
        if fi.has_self and not fi.is_classmethod:
            cq = fi.cls.qualname[len("qlasskit."):]
            is_mut = fi.name == "__init__" or fi.name in SELF_MUTATORS.get(cq, set()) or any(fi.name in SELF_MUTATORS.get(b.qualname[len("qlasskit."):], set()) for b in fi.cls.mro())
            if is_mut:
                ctx.ok("FX-SELF", fi, "mutator of self by design", "constructor / documented mutator", fi.node, nontrivial=False)
            else:
                fx.check_params_pure(ctx, "FX-SELF", an, fi, [fi.all_params[0]], rep_s, EXEMPT_ORIGINS)
    rep_p.flush()
    rep_s.flush()
    ctx.section(
        fx.check_frozen,
        ctx,
        "FX-FROZEN",
        "ast2logic.typing.Arg",
        "the same object is held by the translator's environment, by QlassF.args and by callers that were handed the "
        "argument list: a change through one holder is a change of every holder's description of the function",
    )

    for short, ops in FRESH_RESULTS.items():
        fx.check_fresh_result(ctx, "FX-FRESH", an, ctx.repo.func(short), ops)

    n = fx.check_defaults(ctx, "FX-DEFAULT", an)
    if n < 10:
        raise AnchorError("qlasskit", f"only {n} mutable default arguments found (15 confirmed by hand)")
    n = fx.check_global_exec(ctx, "FX-GLOBAL")
    if n < 2:
        raise AnchorError("qlassfun", f"only {n} exec/eval sites found (3 confirmed by hand)")
    fx.check_module_state(ctx, "FX-MODSTATE", an)
    check_fresh_env(ctx)
    check_shared_instances(ctx)


def check_fresh_env(ctx: Ctx):
    """each translation builds its own working objects"""
    wants = [
        ("ast2logic.t_ast.translate_ast", "Env"),
        ("ast2ast.ast2ast.ast2ast", "ASTRewriter"),
        ("ast2ast.ast2ast.ast2ast", "ConstantFolder"),
        ("compiler.internalcompiler.InternalCompiler.compile", "ExpQMap"),
        ("compiler.internalcompiler.InternalCompiler.compile", "QCircuitEnhanced"),
    ]
    for short, cls in wants:
        fi = ctx.repo.func(short)
        made = [c for c in q.calls(fi.node, nested=False) if (dotted(c.func) or "").split(".")[-1] == cls]
        ctx.check(bool(made), "MP-fresh-env", fi, f"constructs its own {cls}", f"{len(made)} constructor call(s) inside the function", f"no `{cls}(...)` inside the function: the working object is shared between translations", fi.node)
    # to_quantum builds a fresh compiler object per call
    tq = ctx.repo.func("compiler.to_quantum")
    made = [c for c in q.calls(tq.node, nested=False) if (dotted(c.func) or "") in ("InternalCompiler", "ReCompiler", "TweedledumCompiler")]
    ctx.check(len(made) >= 2, "MP-fresh-env", tq, "constructs a compiler per call", "", "compiler instances are not created per call", tq.node)


def check_shared_instances(ctx: Ctx):
    """objects instantiated at module level and shared by all calls must have no attribute writes in their methods"""
    repo = ctx.repo
    n = 0
    for m in repo.modules.values():
        for name, val in m.globals_assigned.items():
            for c in ast.walk(val):
                if isinstance(c, ast.Call):
                    r = repo.resolve_dotted(m, dotted(c.func)) if dotted(c.func) else None
                    from ..core import ClassInfo

                    if isinstance(r, ClassInfo) and r.module.name.startswith("qlasskit.boolopt"):
                        n += 1
                        bad = []
                        for k in r.mro():
                            for mn, mi in k.methods.items():
                                if mn == "__init__":
                                    continue
                                for node in walk_no_nested(mi.node):
                                    if isinstance(node, (ast.Attribute, ast.Subscript)) and isinstance(node.ctx, (ast.Store, ast.Del)):
                                        rt = node
                                        while isinstance(rt, (ast.Attribute, ast.Subscript)):
                                            rt = rt.value
                                        if isinstance(rt, ast.Name) and rt.id == "self":
                                            bad.append(f"{k.name}.{mn}: {norm(node)}")
                        ctx.check(not bad, "FX-SHARED", None, f"{name}: shared {r.name} instance is stateless", "no method writes self", f"methods write state: {bad[:3]}", construct=f"{m.name[len('qlasskit.'):]}.{name}")
    if n < 10:
        raise AnchorError("boolopt.bool_optimizer", f"only {n} module-level transformer instances found")
