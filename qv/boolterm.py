"""Boolean terms and a converter from the *source text* of term-building Python code.

The checker never runs repository code.  What it does here is interpret the syntax tree of
an expression such as `Or(And(c, self.visit(t)), And(Not(c), self.visit(e)))` or
`(a & b) ^ (a ^ b) & c` as a boolean term over named atoms and compare two terms on every
assignment of their atoms (a finite abstract domain, at most a few dozen rows).  This decides
whether an algebraic rewrite written in the source is an identity, independently of how it is
spelt.
"""
from __future__ import annotations

import ast
import itertools
from typing import Callable, Dict, List, Optional, Sequence, Set, Tuple

from .core import dotted


class Undecided(Exception):
    """the expression uses an idiom outside the tables -> the rule is undecided (exit 2)"""


# term := ("atom", name) | ("const", bool) | ("not", t) | ("and", (t..)) | ("or", (t..))
#       | ("xor", (t..)) | ("ite", c, t, e) | ("implies", a, b)

HEADS = {
    "And": "and",
    "Or": "or",
    "Xor": "xor",
    "Not": "not",
    "ITE": "ite",
    "Implies": "implies",
}
FIXED_ARITY = {"Not": 1, "ITE": 3, "Implies": 2}
VARIADIC = {"And", "Or", "Xor"}
LEAF_HEADS = {"Symbol", "BooleanTrue", "BooleanFalse"}


def atom(name) -> tuple:
    return ("atom", name)


def const(v: bool) -> tuple:
    return ("const", bool(v))


def mk(op: str, args: Sequence[tuple]) -> tuple:
    if op == "not":
        if len(args) != 1:
            raise Undecided(f"Not with {len(args)} arguments")
        return ("not", args[0])
    if op == "ite":
        if len(args) != 3:
            raise Undecided(f"ITE with {len(args)} arguments")
        return ("ite",) + tuple(args)
    if op == "implies":
        if len(args) != 2:
            raise Undecided(f"Implies with {len(args)} arguments")
        return ("implies",) + tuple(args)
    return (op, tuple(args))


def atoms_of(t: tuple, out: Optional[Set] = None) -> Set:
    out = set() if out is None else out
    k = t[0]
    if k == "atom":
        out.add(t[1])
    elif k == "const":
        pass
    elif k == "not":
        atoms_of(t[1], out)
    elif k in ("and", "or", "xor"):
        for a in t[1]:
            atoms_of(a, out)
    else:
        for a in t[1:]:
            atoms_of(a, out)
    return out


def ev(t: tuple, env: Dict) -> bool:
    k = t[0]
    if k == "atom":
        return env[t[1]]
    if k == "const":
        return t[1]
    if k == "not":
        return not ev(t[1], env)
    if k == "and":
        return all(ev(a, env) for a in t[1])
    if k == "or":
        return any(ev(a, env) for a in t[1])
    if k == "xor":
        r = False
        for a in t[1]:
            r ^= ev(a, env)
        return r
    if k == "ite":
        return ev(t[2], env) if ev(t[1], env) else ev(t[3], env)
    if k == "implies":
        return (not ev(t[1], env)) or ev(t[2], env)
    raise Undecided(f"unknown term kind {k}")


def show(t: tuple) -> str:
    k = t[0]
    if k == "atom":
        return str(t[1])
    if k == "const":
        return "true" if t[1] else "false"
    if k == "not":
        return "~" + show(t[1])
    if k in ("and", "or", "xor"):
        sym = {"and": " & ", "or": " | ", "xor": " ^ "}[k]
        return "(" + sym.join(show(a) for a in t[1]) + ")"
    if k == "ite":
        return f"ITE({show(t[1])}, {show(t[2])}, {show(t[3])})"
    return f"({show(t[1])} >> {show(t[2])})"


def equivalent(
    t1: tuple, t2: tuple, constraints: Sequence[Tuple[tuple, tuple]] = (), limit: int = 14
) -> Tuple[bool, Optional[Dict], int]:
    """(equal on every assignment satisfying the constraints?, counterexample, rows checked)"""
    names: Set = set()
    atoms_of(t1, names)
    atoms_of(t2, names)
    for a, b in constraints:
        atoms_of(a, names)
        atoms_of(b, names)
    names_l = sorted(names, key=str)
    if len(names_l) > limit:
        raise Undecided(f"too many atoms ({len(names_l)}) for exhaustive comparison")
    rows = 0
    for vals in itertools.product([False, True], repeat=len(names_l)):
        env = dict(zip(names_l, vals))
        if any(ev(a, env) != ev(b, env) for a, b in constraints):
            continue
        rows += 1
        if ev(t1, env) != ev(t2, env):
            return False, env, rows
    return True, None, rows


# --------------------------------------------------------------------------------------


def head_name(node) -> Optional[str]:
    """'And' for Name And / Attribute sympy.And; None otherwise."""
    d = dotted(node)
    if d is None:
        return None
    return d.split(".")[-1]


class Converter:
    """Convert an expression AST to a term.  `leaf(node)` is asked first for every node and
    may return a term (or None to let the generic conversion proceed)."""

    def __init__(self, leaf: Callable[[ast.AST], Optional[tuple]], bindings: Optional[Dict[str, ast.expr]] = None):
        self.leaf = leaf
        self.bindings = bindings or {}
        self._depth = 0

    def conv(self, n) -> tuple:
        self._depth += 1
        if self._depth > 200:
            raise Undecided("conversion too deep")
        try:
            return self._conv(n)
        finally:
            self._depth -= 1

    def seq(self, n) -> List[tuple]:
        """terms for a call's positional arguments (expands *[...] / *name)"""
        out: List[tuple] = []
        for a in n:
            if isinstance(a, ast.Starred):
                out.extend(self.list_of(a.value))
            else:
                out.append(self.conv(a))
        return out

    def list_of(self, n) -> List[tuple]:
        t = self.leaf(("list", n))  # type: ignore[arg-type]
        if t is not None:
            return list(t)
        if isinstance(n, (ast.List, ast.Tuple)):
            return self.seq(n.elts)
        if isinstance(n, ast.Name) and n.id in self.bindings:
            return self.list_of(self.bindings[n.id])
        if isinstance(n, ast.BinOp) and isinstance(n.op, ast.Add):
            return self.list_of(n.left) + self.list_of(n.right)
        raise Undecided(f"cannot enumerate the elements of `{ast.unparse(n)}`")

    def _conv(self, n) -> tuple:
        t = self.leaf(n)
        if t is not None:
            return t
        if isinstance(n, ast.Constant) and isinstance(n.value, bool):
            return const(n.value)
        if isinstance(n, ast.Name):
            if n.id in ("true", "True"):
                return const(True)
            if n.id in ("false", "False"):
                return const(False)
            if n.id in self.bindings:
                return self.conv(self.bindings[n.id])
            raise Undecided(f"free name `{n.id}`")
        if isinstance(n, ast.Call):
            h = head_name(n.func)
            if h in ("BooleanTrue",) and not n.args:
                return const(True)
            if h in ("BooleanFalse",) and not n.args:
                return const(False)
            if h in HEADS:
                if n.keywords:
                    raise Undecided("keyword arguments in a boolean constructor")
                return mk(HEADS[h], self.seq(n.args))
            raise Undecided(f"call of `{ast.unparse(n.func)}`")
        if isinstance(n, ast.BinOp):
            if isinstance(n.op, ast.BitAnd):
                return mk("and", [self.conv(n.left), self.conv(n.right)])
            if isinstance(n.op, ast.BitOr):
                return mk("or", [self.conv(n.left), self.conv(n.right)])
            if isinstance(n.op, ast.BitXor):
                return mk("xor", [self.conv(n.left), self.conv(n.right)])
            if isinstance(n.op, ast.RShift):
                return mk("implies", [self.conv(n.left), self.conv(n.right)])
            raise Undecided(f"operator {type(n.op).__name__}")
        if isinstance(n, ast.UnaryOp):
            if isinstance(n.op, (ast.Invert, ast.Not)):
                return mk("not", [self.conv(n.operand)])
            raise Undecided(f"unary operator {type(n.op).__name__}")
        if isinstance(n, ast.BoolOp):
            op = "and" if isinstance(n.op, ast.And) else "or"
            return mk(op, [self.conv(v) for v in n.values])
        if isinstance(n, ast.IfExp):
            return mk("ite", [self.conv(n.test), self.conv(n.body), self.conv(n.orelse)])
        raise Undecided(f"expression `{ast.unparse(n)}`")
