"""MEMO-KEY - a memoised value must be looked up by a key that covers everything it was computed from.

A memo site, inside one function, is a container expression C (a module-level name or an attribute) with

    lookup   V = C.get(K) | V = C[K] | K in C | C.get(K)
    store    C[K'] = X    | C.setdefault(K', X)

The rule compares two backward slices over the function's own bindings: the roots (parameters, `self.<attr>`
reads, targets of loops enclosing the store) that the stored value X depends on, and the roots the key K' depends
on.  A root of the value that is not a root of the key means two calls that differ in that root share one cache
entry: the second gets the first one's result.  This is a necessary condition for a cache to be transparent, not a
sufficient one (it works at the granularity of whole roots).  Nothing is executed.
"""
from __future__ import annotations

import ast
from typing import Dict, List, Optional, Set, Tuple

from .core import FuncInfo, norm

MUTATORS = {"append", "extend", "add", "update", "insert", "setdefault", "appendleft"}


class MemoSite:
    def __init__(self, cache: str, store: ast.AST, key: ast.expr, value: ast.expr, lookups: List[ast.AST]):
        self.cache, self.store, self.key, self.value, self.lookups = cache, store, key, value, lookups


def _is_cache_expr(e) -> bool:
    return isinstance(e, (ast.Name, ast.Attribute))


def _key_text(fi: FuncInfo, k) -> str:
    return norm(k)


def find_sites(fi: FuncInfo) -> List[MemoSite]:
    """memo shape only: the looked-up value and the computed value are interchangeable -
       (a) V = C.get(K) / V = C[K] ... V = <compute> ... C[K] = V       (same variable, same key text)
       (b) if K in C: return C[K] ... C[K] = X ... return X | C[K]
    maps that are written and read with unrelated keys/values (environments, simulators' state) are not memo tables"""
    out = []
    fresh = _local_fresh_containers(fi)
    stores = []
    for n in ast.walk(fi.node):
        if isinstance(n, ast.Assign) and len(n.targets) == 1 and isinstance(n.targets[0], ast.Subscript) and not isinstance(n.targets[0].slice, ast.Slice) and _is_cache_expr(n.targets[0].value):
            stores.append((norm(n.targets[0].value), n, n.targets[0].slice, n.value))
    for cache, st, key, value in stores:
        if cache in fresh or cache in fi.params:
            continue
        kt = _key_text(fi, key)
        # (a)
        if isinstance(value, ast.Name):
            v = value.id
            binds = [n for n in ast.walk(fi.node) if isinstance(n, ast.Assign) and len(n.targets) == 1 and isinstance(n.targets[0], ast.Name) and n.targets[0].id == v]
            look = [b for b in binds if _is_lookup(b.value, cache, kt)]
            comp = [b for b in binds if not _is_lookup(b.value, cache, kt) and not (isinstance(b.value, ast.Constant) and b.value.value is None)]
            if look and comp:
                for c in comp:
                    out.append(MemoSite(cache, st, key, c.value, look))
                continue
        # (b) membership test on the same key + store + any later read of C[K] (returned or bound)
        reads = [n for n in ast.walk(fi.node) if isinstance(n, ast.Subscript) and isinstance(n.ctx, ast.Load) and _is_lookup(n, cache, kt)]
        tests = [n for n in ast.walk(fi.node) if isinstance(n, ast.Compare) and len(n.ops) == 1 and isinstance(n.ops[0], (ast.In, ast.NotIn)) and norm(n.comparators[0]) == cache and norm(n.left) == kt]
        if reads and tests:
            out.append(MemoSite(cache, st, key, value, reads))
    return out


def _is_lookup(e, cache: str, kt: str) -> bool:
    if isinstance(e, ast.Call) and isinstance(e.func, ast.Attribute) and e.func.attr == "get" and e.args and norm(e.func.value) == cache and norm(e.args[0]) == kt:
        return True
    if isinstance(e, ast.Subscript) and norm(e.value) == cache and norm(e.slice) == kt:
        return True
    return False


def _local_fresh_containers(fi: FuncInfo) -> Set[str]:
    """names bound in this function to a fresh literal/constructor and not looked up by the key of the store: those
    are accumulators, not memo tables.  Only plain names qualify; attributes and module-level names persist."""
    fresh = set()
    for n in ast.walk(fi.node):
        if isinstance(n, ast.Assign) and len(n.targets) == 1 and isinstance(n.targets[0], ast.Name):
            v = n.value
            if isinstance(v, (ast.Dict, ast.DictComp)) or (isinstance(v, ast.Call) and isinstance(v.func, ast.Name) and v.func.id in ("dict", "defaultdict", "OrderedDict")):
                fresh.add(n.targets[0].id)
    return fresh


class Slicer:
    def __init__(self, fi: FuncInfo, at: ast.AST):
        self.fi = fi
        self.at = at
        self.params = set(fi.params)
        self.pm = fi.pm
        # loops enclosing the store: their targets are inputs of the memoised computation
        self.loop_roots: Set[str] = set()
        self.loops_enclosing: List[ast.AST] = []
        p = self.pm.get(at)
        while p is not None:
            if isinstance(p, (ast.For, ast.AsyncFor)):
                self.loops_enclosing.append(p)
                for t in ast.walk(p.target):
                    if isinstance(t, ast.Name):
                        self.loop_roots.add(t.id)
            p = self.pm.get(p)
        from .core import order_key

        self._ok = order_key
        self.at_line = order_key(at)
        self.binds: Dict[str, List[ast.expr]] = {}
        self._collect()

    def _visible(self, n) -> bool:
        """bindings that can reach the store: textually before it, or inside a loop that encloses it"""
        if self._ok(n) <= self.at_line:
            return True
        return any(any(x is n for x in ast.walk(l)) for l in self.loops_enclosing)

    def _add(self, name: str, e):
        self.binds.setdefault(name, []).append(e)

    def _collect(self):
        for n in ast.walk(self.fi.node):
            if not self._visible(n):
                continue
            if isinstance(n, ast.Assign):
                for t in n.targets:
                    for x in ast.walk(t):
                        if isinstance(x, ast.Name) and isinstance(x.ctx, ast.Store):
                            self._add(x.id, n.value)
                    if isinstance(t, (ast.Subscript, ast.Attribute)) and isinstance(_base_name(t), str):
                        self._add(_base_name(t), n.value)
                        if isinstance(t, ast.Subscript):
                            self._add(_base_name(t), t.slice)
            elif isinstance(n, ast.AugAssign):
                b = _base_name(n.target)
                if b:
                    self._add(b, n.value)
            elif isinstance(n, (ast.For, ast.AsyncFor)):
                for x in ast.walk(n.target):
                    if isinstance(x, ast.Name):
                        self._add(x.id, n.iter)
            elif isinstance(n, ast.With):
                for it in n.items:
                    if it.optional_vars is not None:
                        for x in ast.walk(it.optional_vars):
                            if isinstance(x, ast.Name):
                                self._add(x.id, it.context_expr)
            elif isinstance(n, ast.NamedExpr) and isinstance(n.target, ast.Name):
                self._add(n.target.id, n.value)
            elif isinstance(n, ast.Call) and isinstance(n.func, ast.Attribute) and n.func.attr in MUTATORS:
                b = _base_name(n.func.value)
                if b:
                    for a in n.args:
                        self._add(b, a)
                    for k in n.keywords:
                        self._add(b, k.value)

    def roots(self, e, skip: Optional[str] = None) -> Set[str]:
        out: Set[str] = set()
        seen: Set[str] = set()
        work = [e]
        while work:
            x = work.pop()
            bound = _comprehension_bound(x)
            for n in ast.walk(x):
                if isinstance(n, ast.Attribute) and isinstance(n.value, ast.Name) and n.value.id == "self" and isinstance(n.ctx, ast.Load):
                    t = f"self.{n.attr}"
                    if t != skip:
                        out.add(t)
                if not isinstance(n, ast.Name) or not isinstance(n.ctx, ast.Load):
                    continue
                v = n.id
                if v in bound or v == "self":
                    continue
                if v in self.loop_roots:
                    out.add(v)
                    continue
                if v in self.params and v not in self.binds:
                    out.add(v)
                    continue
                if v in seen:
                    continue
                seen.add(v)
                if v in self.params:
                    out.add(v)
                for b in self.binds.get(v, []):
                    work.append(b)
        return out


def _base_name(e) -> Optional[str]:
    while isinstance(e, (ast.Attribute, ast.Subscript)):
        e = e.value
    return e.id if isinstance(e, ast.Name) else None


def _comprehension_bound(e) -> Set[str]:
    out = set()
    for n in ast.walk(e):
        if isinstance(n, ast.comprehension):
            for t in ast.walk(n.target):
                if isinstance(t, ast.Name):
                    out.add(t.id)
        elif isinstance(n, ast.Lambda):
            for a in n.args.args:
                out.add(a.arg)
    return out


def _attr_writers(cls, attr: str):
    """methods of the class (own and inherited are not followed: own only) that write self.<attr> after construction"""
    out = []
    for name, m in cls.methods.items():
        if name == "__init__":
            continue
        hit = None
        for n in ast.walk(m.node):
            tgt = []
            if isinstance(n, ast.Assign):
                tgt = n.targets
            elif isinstance(n, (ast.AugAssign, ast.AnnAssign)):
                tgt = [n.target]
            elif isinstance(n, ast.Delete):
                tgt = n.targets
            for t in tgt:
                while isinstance(t, ast.Subscript):
                    t = t.value
                if isinstance(t, ast.Attribute) and isinstance(t.value, ast.Name) and t.value.id == "self" and t.attr == attr:
                    hit = n
            if isinstance(n, ast.Call) and isinstance(n.func, ast.Attribute) and n.func.attr in MUTATORS | {"pop", "popitem", "clear", "remove", "discard"}:
                t = n.func.value
                if isinstance(t, ast.Attribute) and isinstance(t.value, ast.Name) and t.value.id == "self" and t.attr == attr:
                    hit = n
        if hit is not None:
            out.append((m, hit))
    return out


def classify_state_roots(fi: FuncInfo, site: MemoSite, missing: List[str]):
    """for missing roots that are attributes of self: (still_missing, unguarded_writers, invalidated)
    - an attribute nobody writes after __init__ is not an input that can change: dropped
    - a writer that does not touch the memo table leaves stale entries: reported
    - when every writer also updates the memo table the consistency of that scheme is outside this rule"""
    still, unguarded, invalidated = [], [], []
    cache_attr = site.cache[len("self."):] if site.cache.startswith("self.") else None
    for r in missing:
        if not r.startswith("self.") or fi.cls is None or cache_attr is None:
            still.append(r)
            continue
        writers = _attr_writers(fi.cls, r[len("self."):])
        if not writers:
            continue
        cache_writers = {m.qualname for m, _ in _attr_writers(fi.cls, cache_attr)}
        bad = [(m, n) for m, n in writers if m.qualname not in cache_writers]
        if bad:
            unguarded.extend((r, m, n) for m, n in bad)
        else:
            invalidated.append((r, [m.short for m, _ in writers]))
    return still, unguarded, invalidated


def check_function(fi: FuncInfo):
    """[(site, value_roots, key_roots, missing)]"""
    res = []
    for site in find_sites(fi):
        sl = Slicer(fi, site.store)
        vr = sl.roots(site.value, skip=site.cache)
        kr = sl.roots(site.key, skip=site.cache)
        # the cache itself is not an input of the value
        base = site.cache.split(".")[0] if not site.cache.startswith("self.") else site.cache
        vr.discard(base)
        kr.discard(base)
        res.append((site, vr, kr, sorted(vr - kr)))
    return res


POSITIVE_EXAMPLE = '''
_cache = {}
def resynth(section, emap, compiler):
    key = (compiler, tuple(section.expressions))
    hit = _cache.get(key)
    if hit is None:
        hit = build([e.xreplace(emap) for e in section.expressions], compiler)
        _cache[key] = hit
    return hit
'''


def check_memo_keys(ctx, prefixes, rule="MEMO-KEY"):
    """one obligation for the built-in positive example (the rule must still be able to fire), one per memo table
    found under the module prefixes, one for the scan itself"""
    import ast as _ast

    from .core import FuncInfo as _FI

    tree = _ast.parse(POSITIVE_EXAMPLE)
    fn = [n for n in tree.body if isinstance(n, _ast.FunctionDef)][0]
    pos = _FI("selftest.resynth", fn, None, None, None)
    res = check_function(pos)
    if not (len(res) == 1 and res[0][3] == ["emap"]):
        from .core import AnchorError

        raise AnchorError("memo.POSITIVE_EXAMPLE", f"the memo-key rule no longer fires on its own positive example: {[(r[1], r[2], r[3]) for r in res]}")
    scanned = 0
    sites = 0
    for fi in ctx.repo.functions.values():
        if fi.module is None:
            continue
        short = fi.short
        if not any(short.startswith(p) for p in prefixes):
            continue
        scanned += 1
        for site, vr, kr, missing in check_function(fi):
            sites += 1
            if site.cache.startswith("self.") and fi.cls is not None:
                attr = site.cache[len("self."):]
                decl = None
                for b in fi.cls.mro():
                    if attr in b.consts:
                        decl = b.consts[attr]
                        break
                init = fi.cls.find_method("__init__")
                set_in_init = init is not None and any(isinstance(n, (ast.Assign, ast.AnnAssign)) and any(norm(t) == site.cache for t in (n.targets if isinstance(n, ast.Assign) else [n.target])) for n in ast.walk(init.node))
                if decl is not None and isinstance(decl, (ast.Dict, ast.List, ast.Set, ast.Call, ast.DictComp, ast.ListComp)) and not set_in_init:
                    ctx.fail(rule, fi, f"memo table `{site.cache}` belongs to the instance", f"`{attr}` is a mutable object created once in the class body and never re-created per instance: `{norm(site.store)[:70]}` fills ONE table shared by every {fi.cls.name}, so a second object is handed the entry a first one stored under the same key", site.store)
                    continue
            missing, unguarded, invalidated = classify_state_roots(fi, site, missing)
            for r, m, n in unguarded:
                ctx.fail(rule, m, f"memo table `{site.cache}` of {fi.short} is refreshed when `{r}` changes", f"`{norm(n)[:70]}` changes `{r}`, which the entries of `{site.cache}` (filled by {fi.short}) were computed from, without touching the table: later lookups return entries computed from the old state", n)
            if invalidated and not missing and not unguarded:
                from .core import AnchorError

                ctx.anchor_errors.append(AnchorError(fi.short, f"memo table `{site.cache}` depends on mutable state {[r for r, _ in invalidated]}; every writer ({sorted(set(w for _, ws in invalidated for w in ws))}) also updates the table, but whether those updates keep it consistent (re-pointing, deletion) is outside the memo-key rule: undecided"))
                continue
            if unguarded and not missing:
                continue
            ctx.check(
                not missing,
                rule,
                fi,
                f"memo table `{site.cache}`: the key covers what the stored value is computed from",
                f"value roots {sorted(vr)} within key roots {sorted(kr)}",
                f"`{site.cache}[{norm(site.key)}]` memoises `{norm(site.value)[:80]}`, which is computed from {sorted(vr)}, under a key computed from {sorted(kr)} only: two calls that differ in {missing} share one entry and the second is handed the first one's result",
                site.store,
            )
    ctx.ok(rule, None, f"memo tables under {'/'.join(prefixes)}: keys cover the memoised computation", f"{scanned} functions scanned, {sites} memo tables; positive example fires", construct="/".join(prefixes))
