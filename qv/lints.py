"""Contradiction rules (Engler et al.: "bugs as deviant behaviour") applied to every function of the modules a property
is anchored in.  Each rule is exact - it fires only on a construct that contradicts itself, whatever the function is
for - and expects ZERO instances on a tree where the properties hold, so each carries a tiny positive example that
must fire on every run (a rule matching nothing would pass vacuously forever).

LOOP-ONCE     a `for`/`while` loop whose body contains a decision and leaves the loop (return / raise / break) on every
              path of its first iteration: the loop says "for every element", the body says "only the first".
ITER-MUTATE   a statement inside `for x in C` that adds to / removes from C itself and then goes on iterating.
QUBIT-TRUTHY  a qubit index (0 is a valid index) used as a truth value: `dest or fresh()`, `if not q:`.
INDEX-LEAK    a loop variable of a comprehension-free `for` used after the loop as if it were the loop's *bound*
              (not armed: kept as a note only).

Nothing is executed; the rules read the syntax tree only.
"""
from __future__ import annotations

import ast
import json
import os
from typing import List, Optional, Sequence, Set, Tuple

from .core import AnchorError, FuncInfo, norm

HERE = os.path.dirname(os.path.dirname(os.path.abspath(__file__)))

_GROW_SHRINK = {"remove", "pop", "insert", "append", "extend", "clear", "add", "discard", "update", "popitem", "appendleft", "popleft"}
_QUBIT_SOURCES = {"add_qubit", "get_free_ancilla", "add_ancilla"}


# ---------------------------------------------------------------------------------------------------------------
def scope_of(pid: str) -> Tuple[str, ...]:
    """module prefixes (as in FuncInfo.short) of the files the property is anchored in, from properties.jsonl"""
    out: List[str] = []
    with open(os.path.join(HERE, "properties.jsonl")) as fh:
        for line in fh:
            line = line.strip()
            if not line:
                continue
            p = json.loads(line)
            if p.get("id") != pid:
                continue
            for f in (p.get("anchors") or {}).get("files", []):
                if f.startswith("qlasskit/") and f.endswith(".py"):
                    m = f[len("qlasskit/") : -3].replace("/", ".")
                    if m.endswith(".__init__"):
                        m = m[: -len(".__init__")]
                    out.append(m + ".")
    if not out:
        raise AnchorError(f"properties.jsonl:{pid}", "no anchored files")
    return tuple(out)


def _leaves(stmts: Sequence[ast.stmt]) -> bool:
    """every path through stmts ends in return / raise / break (so control never reaches the loop's next iteration)"""
    if not stmts:
        return False
    last = stmts[-1]
    if isinstance(last, (ast.Return, ast.Raise, ast.Break)):
        return True
    if isinstance(last, ast.If):
        return _leaves(last.body) and _leaves(last.orelse)
    if isinstance(last, (ast.With, ast.AsyncWith)):
        return _leaves(last.body)
    if isinstance(last, ast.Try):
        if last.finalbody and _leaves(last.finalbody):
            return True
        main = _leaves(last.body) or (bool(last.orelse) and _leaves(last.orelse))
        return main and all(_leaves(h.body) for h in last.handlers)
    if isinstance(last, ast.Match):
        return all(_leaves(c.body) for c in last.cases) and any(isinstance(c.pattern, ast.MatchAs) and c.pattern.pattern is None and c.guard is None for c in last.cases)
    return False


def _own_nodes(loop) -> List[ast.AST]:
    """nodes of the loop body that belong to this loop (not to a nested loop or function)"""
    out = []
    stack = list(loop.body)
    while stack:
        n = stack.pop()
        out.append(n)
        for c in ast.iter_child_nodes(n):
            if isinstance(c, (ast.FunctionDef, ast.AsyncFunctionDef, ast.Lambda, ast.ClassDef)):
                continue
            if isinstance(c, (ast.For, ast.While, ast.AsyncFor)):
                # a `continue`/`break` inside belongs to the inner loop; but its `return`s do not matter here
                continue
            stack.append(c)
    return out


def loop_once(fn) -> List[Tuple[ast.AST, str]]:
    res = []
    for n in ast.walk(fn):
        if not isinstance(n, (ast.For, ast.AsyncFor, ast.While)):
            continue
        if not _leaves(n.body):
            continue
        own = _own_nodes(n)
        if any(isinstance(x, ast.Continue) for x in own):
            continue
        decision = any(isinstance(x, (ast.If, ast.IfExp, ast.Try, ast.Match)) for x in own) or len(n.body) > 1
        if not decision:
            continue  # `for x in xs: return x` - deliberately the first element
        if isinstance(n, ast.While) and not (isinstance(n.test, ast.Constant) and n.test.value):
            # `while cond: ...; return` is an `if`; not this rule's business unless it is `while True`
            continue
        if isinstance(n, ast.While):
            continue  # `while True:` with all paths leaving is a block, not a loop over elements
        what = f"`for {norm(n.target)} in {norm(n.iter)[:50]}`: every path through the body leaves the loop in its first iteration (last statement `{norm(n.body[-1])[:60]}`), so only the first element is ever examined although the body decides per element"
        res.append((n, what))
    return res


def _paths_continue_after(loop, stmt_path: List[ast.stmt]) -> bool:
    """after the mutating statement, can control stay in the loop?  False when the statement list it sits in, or an
    enclosing one inside the loop, ends on every path in return / raise / break after it"""
    return True


def iter_mutate(fn) -> List[Tuple[ast.AST, str]]:
    res = []
    pm = {}
    for p in ast.walk(fn):
        for c in ast.iter_child_nodes(p):
            pm[c] = p
    for loop in ast.walk(fn):
        if not isinstance(loop, (ast.For, ast.AsyncFor)):
            continue
        it = loop.iter
        if not isinstance(it, (ast.Name, ast.Attribute)):
            continue  # list(C), C[:], sorted(C), C.items() of a copy ... iterate over something else
        itn = norm(it)
        for s in ast.walk(loop):
            hit = None
            if isinstance(s, ast.Call) and isinstance(s.func, ast.Attribute) and s.func.attr in _GROW_SHRINK and norm(s.func.value) == itn:
                hit = s
            elif isinstance(s, ast.Delete) and any(isinstance(t, ast.Subscript) and norm(t.value) == itn for t in s.targets):
                hit = s
            if hit is None:
                continue
            # leaves the loop right after on every path? walk up to the loop, asking of each enclosing statement
            # list whether what follows the statement ends the loop
            node, leaves = hit, False
            while node is not loop and node in pm:
                par = pm[node]
                for fld in ("body", "orelse", "finalbody"):
                    ss = getattr(par, fld, None)
                    if isinstance(ss, list) and node in ss:
                        rest = ss[ss.index(node) + 1 :]
                        if _leaves(rest) or isinstance(node, (ast.Return, ast.Raise, ast.Break)):
                            leaves = True
                if isinstance(par, (ast.For, ast.AsyncFor, ast.While)) and par is not loop:
                    break
                node = par
            if leaves:
                continue
            res.append((hit, f"`{norm(hit)[:70]}` changes the size of `{itn}` inside `for {norm(loop.target)} in {itn}` and iteration goes on: elements are skipped or visited twice"))
    return res


def qubit_truthy(fn) -> List[Tuple[ast.AST, str]]:
    """names that hold a qubit index: a parameter called dest (Optional qubit by the compiler's convention, checked
    against its annotation/default), or a local bound to add_qubit()/get_free_ancilla()/add_ancilla()/qc[...]"""
    if not isinstance(fn, (ast.FunctionDef, ast.AsyncFunctionDef)):
        return []
    qnames: Set[str] = set()
    a = fn.args
    defaults = dict(zip([x.arg for x in a.args[len(a.args) - len(a.defaults) :]], a.defaults))
    for arg in a.args + a.kwonlyargs:
        ann = norm(arg.annotation) if arg.annotation is not None else ""
        d = defaults.get(arg.arg)
        if arg.arg == "dest" and (ann in ("", "Optional[int]", "int", "int | None") or (isinstance(d, ast.Constant) and d.value is None)):
            qnames.add(arg.arg)
    for n in ast.walk(fn):
        if isinstance(n, ast.Assign) and len(n.targets) == 1 and isinstance(n.targets[0], ast.Name):
            v = n.value
            if isinstance(v, ast.Call) and isinstance(v.func, ast.Attribute) and v.func.attr in _QUBIT_SOURCES:
                qnames.add(n.targets[0].id)
            elif isinstance(v, ast.Subscript) and isinstance(v.value, ast.Name) and v.value.id in ("qc", "qubit_map"):
                qnames.add(n.targets[0].id)
    if not qnames:
        return []

    def uses(e):
        if isinstance(e, ast.Name) and e.id in qnames:
            yield e
        elif isinstance(e, ast.UnaryOp) and isinstance(e.op, ast.Not):
            yield from uses(e.operand)
        elif isinstance(e, ast.BoolOp):
            for v in e.values:
                yield from uses(v)

    res = []
    seen = set()
    for n in ast.walk(fn):
        tests = []
        if isinstance(n, (ast.If, ast.While, ast.IfExp)):
            tests.append(n.test)
        elif isinstance(n, ast.BoolOp):
            tests.extend(n.values[:-1])
        elif isinstance(n, ast.Assert):
            tests.append(n.test)
        for t in tests:
            for u in uses(t):
                if id(u) in seen:
                    continue
                seen.add(id(u))
                res.append((u, f"`{norm(t)[:60]}` uses the qubit index `{u.id}` as a truth value: qubit 0 is a valid index and is treated like `None` (compare with `is None`)"))
    return res


RULES = (
    ("LOOP-ONCE", loop_once, "a loop that decides per element reaches its second element"),
    ("ITER-MUTATE", iter_mutate, "a collection is not resized while it is iterated"),
    ("QUBIT-TRUTHY", qubit_truthy, "a qubit index is compared with None, never used as a truth value"),
)

POSITIVE = {
    "LOOP-ONCE": """
def is_input(self, symbol):
    for arg in self.args:
        if symbol.name in arg.bitvec:
            return True
        return False
""",
    "ITER-MUTATE": """
def drop_marked(self):
    for a in self.marked:
        if a in self.free:
            self.marked.remove(a)
""",
    "QUBIT-TRUTHY": """
def compile_thing(self, qc, expr, dest=None):
    d = dest or qc.get_free_ancilla()
    return d
""",
}

NEGATIVE = {
    "LOOP-ONCE": """
def first(self, xs):
    for x in xs:
        return x
    for y in xs:
        if y:
            continue
        return y
    for z in xs:
        if z:
            return z
    return None
""",
    "ITER-MUTATE": """
def drop_one(self):
    for a in self.marked:
        if a in self.free:
            self.marked.remove(a)
            break
    for b in list(self.marked):
        self.marked.remove(b)
""",
    "QUBIT-TRUTHY": """
def compile_thing(self, qc, expr, dest=None):
    d = qc.get_free_ancilla() if dest is None else dest
    return d
""",
}


def check(ctx, pid: Optional[str] = None, prefixes: Optional[Tuple[str, ...]] = None):
    """one obligation per rule for the scan (with the number of functions scanned), a violation per instance"""
    pid = pid or ctx.prop
    prefixes = prefixes or scope_of(pid)
    for rule, fn, _ in RULES:
        pos = [n for n in ast.parse(POSITIVE[rule]).body if isinstance(n, ast.FunctionDef)][0]
        neg = [n for n in ast.parse(NEGATIVE[rule]).body if isinstance(n, ast.FunctionDef)][0]
        if len(fn(pos)) != 1 or fn(neg):
            raise AnchorError(f"lints.{rule}", "the rule no longer separates its own positive and negative example")
    funcs = [fi for fi in ctx.repo.functions.values() if fi.module is not None and any((fi.short + ".").startswith(p) for p in prefixes)]
    if len(funcs) < 3:
        raise AnchorError(f"lints.scope[{pid}]", f"only {len(funcs)} functions under {prefixes}: the anchored modules were not found")
    for rule, fn, role in RULES:
        hits = 0
        for fi in funcs:
            # nested functions are FuncInfos of their own: scan only this function's own statements
            for node, what in _scan_own(fi, fn):
                hits += 1
                ctx.fail(rule, fi, role, what, node)
        if not hits:
            ctx.ok(rule, None, role, f"{len(funcs)} functions of the anchored modules scanned, 0 instances; positive example fires, negative example silent", construct="/".join(p.rstrip(".") for p in prefixes))


def _scan_own(fi: FuncInfo, rule_fn):
    out = rule_fn(fi.node)
    nested = [n for n in ast.walk(fi.node) if n is not fi.node and isinstance(n, (ast.FunctionDef, ast.AsyncFunctionDef))]
    if not nested:
        return out
    inner = set()
    for nf in nested:
        for x in ast.walk(nf):
            inner.add(id(x))
    return [(n, w) for n, w in out if id(n) not in inner]
